"""C02: header-type sections display exactly the encoded values (PH, UH, EH, MT, LP, component id)."""
import os
from contracts.common import *
from pyvc.unit import Unit

PT = "pel.peltool."


def need(inp, n):
    s = inp['stream']
    return And(ds_invariant(s), field(s, 'index') + n <= field(s, 'size'))


def common_items(inp, created_key="Created by"):
    return [("Section Version", inp['versionID']), ("Sub-section type", inp['subType']),
            (created_key, spec_display_comp(inp['componentID'], inp['creatorID']))]


def cursor(P, inp, old, n, what):
    P.prove(Eq(field(inp['stream'], 'index'), old['stream'].index + n), what + ": consumes exactly %s bytes" % (n,))


class PH(SectionUnit):
    prop = "C02"
    name = "PrivateHeader.toJSON"
    target = PT + "private_header.PrivateHeader.toJSON"
    cls = PT + "private_header.PrivateHeader"
    with_creator = False

    def pre(self, S, inp):
        d, o = field(inp['stream'], 'data'), field(inp['stream'], 'index')
        return And(need(inp, 40), byte(d, o + 16) < 128)

    def check(self, P, inp, old, out):
        P.prove(out.returned, "PH: decodes without error when 40 body bytes are present")
        if not out.returned:
            return
        ph, js = out.value
        d, o = old['stream'].data, old['stream'].index
        creator = ascii_text(d, o + 16, 1)
        items = [("Section Version", inp['versionID']), ("Sub-section type", inp['subType']),
                 ("Created by", spec_display_comp(inp['componentID'], creator)),
                 ("Created at", spec_timestamp(d, o)), ("Committed at", spec_timestamp(d, o + 8)),
                 ("Creator Subsystem", table(T('creatorIDs'), creator, 'Unknown')),
                 ("CSSVER", Num(be(d, o + 24, 8))), ("Platform Log Id", Num(be(d, o + 32, 4))),
                 ("Entry Id", Num(be(d, o + 36, 4))), ("BMC Event Log Id", Num(be(d, o + 20, 4), 10))]
        check_dict(P, js, items, "PH")
        cursor(P, inp, old, 40, "PH")
        # fields other code relies on (section count, creator, ids, commit time)
        P.prove(Eq(field(ph, 'sectionCount'), byte(d, o + 19)), "PH: sectionCount is byte 19 of the body")
        P.prove(Eq(field(ph, 'creatorID'), creator), "PH: creatorID is the character at byte 16")
        P.prove(Eq(field(ph, 'obmcLogID'), be(d, o + 20, 4)), "PH: obmcLogID is the 32-bit value at 20")
        P.prove(Eq(field(ph, 'commitTime'), spec_timestamp(d, o + 8)), "PH: commitTime field")
        check_value(P, field(ph, 'pLID'), Num(be(d, o + 32, 4)), "PH: pLID field")
        check_value(P, field(ph, 'lEID'), Num(be(d, o + 36, 4)), "PH: lEID field")


class UH(SectionUnit):
    prop = "C02"
    name = "UserHeader.toJSON"
    target = PT + "user_header.UserHeader.toJSON"
    cls = PT + "user_header.UserHeader"
    shards = 16      # top nibble of the action-flag word (covers all 16 values)

    def pre(self, S, inp):
        d, o = field(inp['stream'], 'data'), field(inp['stream'], 'index')
        return And(need(inp, 16), self.creator_ascii(inp), Eq(shr(byte(d, o + 10), 4), self.shard))

    def check(self, P, inp, old, out):
        P.prove(out.returned, "UH: decodes without error when 16 body bytes are present")
        if not out.returned:
            return
        uh, js = out.value
        d, o = old['stream'].data, old['stream'].index
        flags = be(d, o + 10, 2)
        names = [nm for b, nm in T('actionFlagsValues').items() if branch(bit(flags, b))]
        items = common_items(inp, "Log Committed by") + [
            ("Subsystem", table(T('subsystemValues'), byte(d, o), 'Invalid')),
            ("Event Scope", table(T('eventScopeValues'), byte(d, o + 1), 'Invalid')),
            ("Event Severity", table(T('severityValues'), byte(d, o + 2), 'Invalid')),
            ("Event Type", table(T('eventTypeValues'), byte(d, o + 3), 'Invalid')),
            ("Action Flags", names),
            ("Host Transmission", table(T('transmissionStates'), byte(d, o + 15), 'Unknown')),
            ("HMC Transmission", table(T('transmissionStates'), byte(d, o + 14), 'Unknown'))]
        check_dict(P, js, items, "UH")
        cursor(P, inp, old, 16, "UH")
        P.prove(Eq(field(uh, 'eventSeverity'), byte(d, o + 2)), "UH: eventSeverity is byte 2 of the body")
        P.prove(Eq(field(uh, 'actionFlags'), flags), "UH: actionFlags is the 16-bit value at 10")


class MT(SectionUnit):
    prop = "C02"
    name = "FailingMTMS.toJSON"
    target = PT + "failing_mtms.FailingMTMS.toJSON"
    cls = PT + "failing_mtms.FailingMTMS"

    def pre(self, S, inp):
        d, o = field(inp['stream'], 'data'), field(inp['stream'], 'index')
        return And(need(inp, 20), self.creator_ascii(inp), is_ascii(d, o, 20))

    def check(self, P, inp, old, out):
        P.prove(out.returned, "MT: decodes without error when 20 ASCII body bytes are present")
        if not out.returned:
            return
        mt, js = out.value
        d, o = old['stream'].data, old['stream'].index
        items = common_items(inp) + [
            ("Machine Type Model", strip(ascii_text(d, o, 8), "\0")),
            ("Serial Number", strip(ascii_text(d, o + 8, 12), "\0"))]
        check_dict(P, js, items, "MT")
        cursor(P, inp, old, 20, "MT")


def text_ok(S, d, off, n):
    """the n bytes decode: ASCII for a concrete length; UTF-8 validity (uninterpreted) for a symbolic one"""
    if isinstance(n, int) or not S.symbolic:
        return is_ascii(d, off, n)
    from pyvc import ops as _ops2
    from pyvc.values import ufun as _uf
    b = _ops2.as_sbytes(view(d, off, n))
    return _uf('utf8_valid', b.arr.sort(), z3.IntSort(), z3.IntSort(), z3.BoolSort())(b.arr, zint(b.off), zint(b.ln))


def opaque_text(P, d, off, n, stripfn):
    """the n bytes as text with NULs stripped (stripfn: 'strip_00' both ends, 'rstrip_00' trailing only)"""
    if isinstance(n, int) or not P.symbolic:
        return strip(ascii_text(d, off, n), "\0", 'r' if stripfn == 'rstrip_00' else 'b') if n else ""
    if branch(Eq(n, 0)):
        return ""
    from pyvc import ops as _ops2
    from pyvc.values import ufun as _uf, PyStr as _PS
    b = _ops2.as_sbytes(view(d, off, n))
    t = _uf('decode_utf8', b.arr.sort(), z3.IntSort(), z3.IntSort(), _PS)(b.arr, zint(b.off), zint(b.ln))
    return mkstr([Opq(_uf(stripfn, _PS, _PS)(t))])


class EH(SectionUnit):
    prop = "C02"
    name = "ExtendedUserHeader.toJSON"
    target = PT + "extend_user_header.ExtendedUserHeader.toJSON"
    cls = PT + "extend_user_header.ExtendedUserHeader"
    @property
    def SYM(self):
        # symptom-id lengths proved: quick a representative set, thorough every length 0..80 (the field is at most 80)
        if os.environ.get("PYVC_TIER") == "thorough":
            return list(range(0, 81))
        return [0, 1, 2, 3, 4, 8, 16, 20, 40, 80]

    def inputs(self, S):
        inp = SectionUnit.inputs(self, S)
        n = S.choice("symlen", self.SYM + ['any'])
        if n == 'any':
            n = S.int("symlen_any", 0, 255)      # any length the one-byte field can hold: the text is then an opaque function of the bytes
        inp['_symlen'] = n
        return inp

    def ctor_args(self, inp):
        return SectionUnit.ctor_args(self, {k: v for k, v in inp.items() if k != '_symlen'})

    def pre(self, S, inp):
        d, o = field(inp['stream'], 'data'), field(inp['stream'], 'index')
        n = inp['_symlen']
        return And(need(inp, 68 + n), self.creator_ascii(inp), is_ascii(d, o, 52), Eq(byte(d, o + 67), n),
                   text_ok(S, d, o + 68, n))

    def check(self, P, inp, old, out):
        P.prove(out.returned, "EH: decodes without error when the body is present and its text is ASCII")
        if not out.returned:
            return
        eh, js = out.value
        d, o = old['stream'].data, old['stream'].index
        n = inp['_symlen']
        items = common_items(inp) + [
            ("Reporting Machine Type", strip(ascii_text(d, o, 8), "\0")),
            ("Reporting Serial Number", strip(ascii_text(d, o + 8, 12), "\0")),
            ("FW Released Ver", strip(ascii_text(d, o + 20, 16), "\0")),
            ("FW SubSys Version", strip(ascii_text(d, o + 36, 16), "\0")),
            ("Common Ref Time", spec_timestamp(d, o + 56)),
            ("Symptom Id Len", Num(byte(d, o + 67), 10)),
            ("Symptom Id", opaque_text(P, d, o + 68, n, 'strip_00'))]
        check_dict(P, js, items, "EH")
        cursor(P, inp, old, 68 + n, "EH")


class LP(SectionUnit):
    """counts are enumerated (0..255 split over the workers): complete, by enumeration over the count,
    symbolic in everything else"""
    prop = "C02"
    name = "ImpactedPartition.toJSON"
    target = PT + "imp_partition.ImpactedPartition.toJSON"
    cls = PT + "imp_partition.ImpactedPartition"
    names = [0, 1, 5, 16]
    max_unroll = 600

    @property
    def shards(self):
        return 16 if os.environ.get("PYVC_TIER") == "thorough" else 1

    @property
    def counts(self):
        # quick: 0..7 targets; thorough: every count 0..255, split over 16 shards
        if os.environ.get("PYVC_TIER") == "thorough":
            return [c for c in range(256) if c % 16 == self.shard]
        return list(range(0, 8))

    def inputs(self, S):
        inp = SectionUnit.inputs(self, S)
        inp['_count'] = S.choice("count", self.counts)
        nl = S.choice("nlen", self.names + ['any'])
        if nl == 'any':
            # any name length 0..255 (symbolic): the name is then an opaque function of exactly those bytes
            nl = S.int("nlen_any", 0, 255) if S.symbolic else (S.int("nlen_any", 0, 255) if hasattr(S, 'values') or hasattr(S, 'rng') else 3)
        inp['_nlen'] = nl
        return inp

    def ctor_args(self, inp):
        return SectionUnit.ctor_args(self, {k: v for k, v in inp.items() if not k.startswith('_')})

    def spec_name(self, P, d, o, n):
        """the n name bytes as text without trailing NULs"""
        if isinstance(n, int) or not P.symbolic:
            return strip(ascii_text(d, o + 8, n), "\0", 'r') if n else ""
        if branch(Eq(n, 0)):
            return ""
        from pyvc import ops as _ops2
        from pyvc.values import ufun as _uf, PyStr as _PS
        b = _ops2.as_sbytes(view(d, o + 8, n))
        t = _uf('decode_utf8', b.arr.sort(), z3.IntSort(), z3.IntSort(), _PS)(b.arr, zint(b.off), zint(b.ln))
        return mkstr([Opq(_uf('rstrip_00', _PS, _PS)(t))])

    def size(self, inp):
        c, n = inp['_count'], inp['_nlen']
        return 8 + n + 2 * c + (2 if c % 2 else 0)

    def pre(self, S, inp):
        d, o = field(inp['stream'], 'data'), field(inp['stream'], 'index')
        c, n = inp['_count'], inp['_nlen']
        if isinstance(n, int) or not S.symbolic:
            text_ok = is_ascii(d, o + 8, n)
        else:
            from pyvc import ops as _ops2
            from pyvc.values import ufun as _uf
            b = _ops2.as_sbytes(view(d, o + 8, n))
            text_ok = _uf('utf8_valid', b.arr.sort(), z3.IntSort(), z3.IntSort(), z3.BoolSort())(b.arr, zint(b.off), zint(b.ln))
        return And(need(inp, self.size(inp)), self.creator_ascii(inp), Eq(byte(d, o + 2), n), Eq(byte(d, o + 3), c), text_ok)

    def check(self, P, inp, old, out):
        P.prove(out.returned, "LP: decodes without error when the body is present")
        if not out.returned:
            return
        lp, js = out.value
        d, o = old['stream'].data, old['stream'].index
        c, n = inp['_count'], inp['_nlen']
        targets = [be(d, o + 8 + n + 2 * k, 2) for k in range(c)]
        items = common_items(inp) + [
            ("Primary Partition ID", Num(be(d, o, 2))), ("Length of LP Name", Num(byte(d, o + 2))),
            ("Target LP Count", Num(byte(d, o + 3))), ("Logical Partition Log ID", Num(be(d, o + 4, 4))),
            ("Primary Partition Name", self.spec_name(P, d, o, n))]
        keys = list(js.keys()) if isinstance(js, dict) else []
        tkeys = [k for k in keys if k not in [i[0] for i in items]]
        base = {k: js[k] for k in keys if k not in tkeys} if isinstance(js, dict) else js
        check_dict(P, base, items, "LP")
        # every target partition id must be recoverable, in order, from what is displayed under the Target LP key(s)
        shown = []
        for k in tkeys:
            shown.extend(split_numbers(js[k]))
        if len(shown) != len(targets):
            P.fail("LP: every target partition id is displayed, in order",
                   "%d ids encoded, %d displayed under %r" % (len(targets), len(shown), tkeys))
        else:
            P.prove(And(*[Eq(a, b) for a, b in zip(shown, targets)]), "LP: every target partition id is displayed, in order")
        cursor(P, inp, old, self.size(inp), "LP")


def split_numbers(v):
    """the list of integers a displayed value denotes: a list of renderings, or one string of renderings
    separated by ', ' / ','"""
    if isinstance(v, (list, tuple)):
        out = []
        for x in v:
            out.extend(split_numbers(x))
        return out
    if isinstance(v, str):
        parts = [p.strip() for p in v.split(',')] if v.strip() else []
        return [as_number(p) for p in parts]
    if isinstance(v, SStr):
        parts = [[]]
        for seg in v.segs:
            if seg == 44:            # ','
                parts.append([])
            elif seg == 32 and not parts[-1]:
                continue
            else:
                parts[-1].append(seg)
        return [as_number(mkstr(p)) for p in parts]
    return [None]


class DisplayCompID(Unit):
    """the opaque spec function used by every section is the definition, for every component id and creator"""
    prop = "C02"
    name = "getDisplayCompID"
    target = PT + "comp_id.getDisplayCompID"
    ENVS = [{}, {"O": {"1000": "bmc-logging", "E500": "hwdiags"}, "B": {"0100": "hb-errl"}}]

    def inputs(self, S):
        self._env = S.choice("env", self.ENVS)
        return dict(componentID=S.int("componentID", 0, 0xFFFF), creatorID=S.text("creator", 1))

    def globals_init(self, S):
        return {("pel.peltool.comp_id", "componentIDs"): self._env,
                ("pel.peltool.comp_id", "attemptedToParseCompIDs"): True}

    def setup_ctx(self, ctx):
        pass

    def call_native(self, inp):
        from pel.peltool import comp_id
        saved = (comp_id.componentIDs, comp_id.attemptedToParseCompIDs)
        comp_id.componentIDs, comp_id.attemptedToParseCompIDs = self._env, True
        try:
            return comp_id.getDisplayCompID(inp['componentID'], inp['creatorID'])
        finally:
            comp_id.componentIDs, comp_id.attemptedToParseCompIDs = saved

    def check(self, P, inp, old, out):
        P.prove(out.returned, "getDisplayCompID returns")
        if not out.returned:
            return
        if P.symbolic:
            P.ctx.env_compids = self._env
        else:
            from pel.peltool import comp_id
            saved = comp_id.componentIDs
            comp_id.componentIDs = self._env
        try:
            want = spec_display_comp(inp['componentID'], inp['creatorID'], reveal=True)
        finally:
            if not P.symbolic:
                comp_id.componentIDs = saved
        P.prove(Eq(out.value, want), "result == spec_display_comp(componentID, creatorID)")


UNITS = [PH, UH, MT, EH, LP, DisplayCompID]


# ------------------------------------------------------------------ C05: a section decoder never returns for a truncated section
class _NoReturnOnTruncation(SectionUnit):
    """for ANY bytes (no well-formedness assumed), in both assert modes: if the decoder returns, every byte of the
    section's own layout was inside the input (cursor == start + body length <= size); otherwise it raised an ordinary
    exception"""
    prop = "C05"
    modes = ('assert', 'O')
    body = None           # function (d, o) -> body length

    def pre(self, S, inp):
        c = self.creator_ascii(inp) if self.with_creator else True
        return And(ds_invariant(inp['stream']), c)

    def check(self, P, inp, old, out):
        s = inp['stream']
        d, o = old['stream'].data, old['stream'].index
        if not out.returned:
            P.prove(issubclass(out.exc_class, Exception), "fails only with an ordinary exception")
            return
        n = self.body(d, o)
        P.prove(Eq(field(s, 'index'), o + n), "returns only after consuming the section's whole layout")
        P.prove(field(s, 'index') <= field(s, 'size'), "which lies inside the input (nothing is decoded from missing bytes)")


class PHAny(_NoReturnOnTruncation):
    name = "PrivateHeader.toJSON (any bytes)"
    target = PT + "private_header.PrivateHeader.toJSON"
    cls = PT + "private_header.PrivateHeader"
    with_creator = False
    body = staticmethod(lambda d, o: 40)


class UHAny(_NoReturnOnTruncation):
    name = "UserHeader.toJSON (any bytes)"
    target = PT + "user_header.UserHeader.toJSON"
    cls = PT + "user_header.UserHeader"
    shards = 16

    def pre(self, S, inp):
        d, o = field(inp['stream'], 'data'), field(inp['stream'], 'index')
        # the action-flag loop forks per defined bit: shard on the top nibble (only constrains bytes that are present)
        return And(_NoReturnOnTruncation.pre(self, S, inp), Implies(o + 11 <= field(inp['stream'], 'size'), Eq(shr(byte(d, o + 10), 4), self.shard)))
    body = staticmethod(lambda d, o: 16)


class MTAny(_NoReturnOnTruncation):
    name = "FailingMTMS.toJSON (any bytes)"
    target = PT + "failing_mtms.FailingMTMS.toJSON"
    cls = PT + "failing_mtms.FailingMTMS"
    body = staticmethod(lambda d, o: 20)


class EHAny(_NoReturnOnTruncation):
    name = "ExtendedUserHeader.toJSON (any bytes)"
    target = PT + "extend_user_header.ExtendedUserHeader.toJSON"
    cls = PT + "extend_user_header.ExtendedUserHeader"
    body = staticmethod(lambda d, o: 68 + byte(d, o + 67))


class LPAny(_NoReturnOnTruncation):
    name = "ImpactedPartition.toJSON (any bytes)"
    target = PT + "imp_partition.ImpactedPartition.toJSON"
    cls = PT + "imp_partition.ImpactedPartition"
    max_unroll = 300
    shards = 8

    def pre(self, S, inp):
        d, o = field(inp['stream'], 'data'), field(inp['stream'], 'index')
        # target counts are enumerated through the shards (count mod 8), kept small enough to unroll: 0..23
        return And(_NoReturnOnTruncation.pre(self, S, inp),
                   Implies(o + 4 <= field(inp['stream'], 'size'), And(Eq(mod(byte(d, o + 3), 8), self.shard), byte(d, o + 3) < 24)))

    @staticmethod
    def body(d, o):
        n = byte(d, o + 3)
        return 8 + byte(d, o + 2) + 2 * n + If(Eq(mod(n, 2), 1), 2, 0)


C05_SECTION_UNITS = [PHAny, UHAny, MTAny, EHAny, LPAny]


# ------------------------------------------------------------------ C05: the target-LP loop for ANY count (invariant)
from pyvc.unit import LoopInv as _LoopInv
from pyvc.seq import Chunk as _Chunk, Val as _Val


class LPTargetsInv(_LoopInv):
    """after i target ids: the cursor is 2*i bytes past the start of the id array and inside the input; the list read so far
    is an opaque function of those bytes"""
    func = PT + "imp_partition.ImpactedPartition.toJSON"
    loop = 0
    modifies_locals = ('_',)

    def heap_targets(self, it, fr):
        me = fr.locals['self']
        return [field(me, 'targetLPs'), (field(me, 'stream'), 'index')]

    def base(self, it, fr):
        ctx = it.ctx
        if 'lp_base' not in ctx.ghost:
            ctx.ghost['lp_base'] = field(field(fr.locals['self'], 'stream'), 'index')
        return ctx.ghost['lp_base']

    def havoc(self, it, fr, i):
        b = self.base(it, fr)
        me = fr.locals['self']
        field(me, 'stream').index = simp(zint(b) + 2 * zint(i))
        T = ufun('lp_targets_upto', z3.IntSort(), z3.IntSort(), _Val)
        field(me, 'targetLPs')[:] = [_Chunk(T(zint(b), zint(i)))]

    def inv(self, it, fr, i):
        b = self.base(it, fr)
        s = field(fr.locals['self'], 'stream')
        return And(Eq(field(s, 'index'), zint(b) + 2 * zint(i)), field(s, 'index') <= field(s, 'size'), field(s, 'index') >= 0)


class LPAnyN(_NoReturnOnTruncation):
    """the same for ANY target count 0..255 (the id loop is cut by its invariant)"""
    name = "ImpactedPartition.toJSON (any bytes, any target count)"
    target = PT + "imp_partition.ImpactedPartition.toJSON"
    cls = PT + "imp_partition.ImpactedPartition"
    invariants = [LPTargetsInv]
    body = staticmethod(LPAny.body)


C05_SECTION_UNITS = C05_SECTION_UNITS + [LPAnyN]
