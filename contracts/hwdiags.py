"""C20: hardware-diagnostics signatures and register dumps are decoded field-exactly."""
import z3

from contracts.common import *
from pyvc.unit import Unit, Contract, LoopInv
from pyvc.seq import Chunk, list_term, val_term, Val, v_snoc, v_nil, RecFn, dict_term
from pyvc.values import Opq, I, SBytes, SStr, is_z3, OpaqueVal, Obj, lit
from pyvc import ops as _ops
from pyvc.interp import lookup_qualname, BoundMethod

PD = "pel.hwdiags.parserdata.ParserData"

# sample chip-data environments (A3: content arbitrary but fixed; present / absent / partial)
DATA_FULL = {
    "20da0020": {"model_ec": {"id": "20da0020", "type": "proc", "desc": "P10 2.0"},
                 "attn_types": {"1": "checkstop", "2": "unit checkstop"},
                 "signatures": {"e101": ["EQ_CORE_FIR", {"5": "recoverable error", "0": "first bit"}], "abcd": ["NAME_ONLY", {}]},
                 "registers": {"00e101": ["EQ_CORE_FIR", {"0": "0x20018440", "3": "0x20018443"}], "00beef": ["NOADDR", {}]}},
    "60d20020": {"model_ec": {"id": "60d20020", "type": "ocmb"},
                 "attn_types": {}, "signatures": {}, "registers": {}},
}
ENVS = [{}, DATA_FULL]


def hex_text(S, name, n):
    t = S.text(name, n)
    if S.symbolic:
        for c in t.segs:
            S.assume(_ops.is_hexdigit(c))
    else:
        t = ''.join(ch if ch in "0123456789abcdefABCDEF" else "0123456789abcdefABCDEF"[ord(ch) % 22] for ch in t)
    return t


def hexnum(s):
    """value of a string of hex digits"""
    if isinstance(s, str):
        return int(s, 16)
    t = I(0)
    for c in s.segs:
        t = t * 16 + _ops.hexval(c)
    return simp(t)


def sub(s, a, b):
    if isinstance(s, str):
        return s[a:b]
    return mkstr(list(s.segs[a:b]))


def lower(s):
    if isinstance(s, str):
        return s.lower()
    return _ops.str_map_case(cur(), s, False)


def upper(s):
    if isinstance(s, str):
        return s.upper()
    return _ops.str_map_case(cur(), s, True)


def lookup(env, keys):
    """nested dict lookup with symbolic string keys (forks); returns (found, value)"""
    cur_ = env
    for k in keys:
        if not isinstance(cur_, dict):
            return False, None
        hit = None
        for kk, vv in cur_.items():
            if branch(Eq(k, kk)):
                hit = (vv,)
                break
        if hit is None:
            return False, None
        cur_ = hit[0]
    return True, cur_


def spec_attn_desc(env, model_ec, attn):
    ok, v = lookup(env, [lower(model_ec), "attn_types", fmt(attn, 'd')])
    return v if ok else fmt(attn, 'd')


def spec_chip_desc(env, model_ec, node, pos):
    m = lower(model_ec)
    ok, t = lookup(env, [m, "model_ec", "type"])
    ctype = t if ok else "unknown"
    ok, dsc = lookup(env, [m, "model_ec", "desc"])
    cdesc = dsc if ok else upper(m)
    return cat("node ", fmt(node, 'd'), " ", ctype, " ", fmt(pos, 'd'), " (", cdesc, ")")


def spec_sig_desc(env, model_ec, sig_id, inst, bit_):
    m, s = lower(model_ec), lower(sig_id)
    ok, v = lookup(env, [m, "signatures", s])
    name = v[0] if ok else cat("id:", upper(s))
    ok2, d = (False, None)
    if ok:
        ok2, d = lookup(v[1], [fmt(bit_, 'd')])
    desc = d if ok2 else ""
    return cat(name, "(", fmt(inst, 'd'), ")[", fmt(bit_, 'd'), "] ", desc)


def spec_reg_data(env, model_ec, reg_id, inst):
    m, r = lower(model_ec), lower(reg_id)
    ok, v = lookup(env, [m, "registers", r])
    name = v[0] if ok else cat("id:", upper(r), " inst:", fmt(inst, 'd'))
    addr = 0
    if ok:
        ok2, a = lookup(v[1], [fmt(inst, 'd')])
        if ok2:
            addr = int(a, 16)
    return name, "0x%08X" % addr


class _PDUnit(Unit):
    prop = "C20"
    modes = ('assert',)
    method = None

    def mk_pd(self, S):
        self._env = S.choice("env", ENVS)
        return S.obj(PD, _data=self._env)

    def args(self, S):
        raise NotImplementedError

    def inputs(self, S):
        d = dict(self=self.mk_pd(S))
        d.update(self.args(S))
        return d


class AttnDesc(_PDUnit):
    name = "ParserData.get_attn_desc"
    target = PD + ".get_attn_desc"

    def args(self, S):
        return dict(model_ec=hex_text(S, "model_ec", 8), attn_type=S.int("attn", 0, 255))

    def check(self, P, inp, old, out):
        P.prove(out.returned, "never an error for absent or partial chip data")
        if out.returned:
            P.prove(Eq(out.value, spec_attn_desc(self._env, inp['model_ec'], inp['attn_type'])),
                    "attention name from the chip data (case-insensitive key), else the raw number")


class ChipDesc(_PDUnit):
    name = "ParserData.get_chip_desc"
    target = PD + ".get_chip_desc"

    def args(self, S):
        return dict(model_ec=hex_text(S, "model_ec", 8), node_pos=S.int("node", 0, 255), chip_pos=S.int("pos", 0, 0xFFFF))

    def check(self, P, inp, old, out):
        P.prove(out.returned, "never an error for absent or partial chip data")
        if out.returned:
            P.prove(Eq(out.value, spec_chip_desc(self._env, inp['model_ec'], inp['node_pos'], inp['chip_pos'])),
                    "node N <type|unknown> P (<desc|MODEL_EC>)")


class SigDesc(_PDUnit):
    name = "ParserData.get_sig_desc"
    target = PD + ".get_sig_desc"

    def args(self, S):
        return dict(model_ec=hex_text(S, "model_ec", 8), sig_id=hex_text(S, "sig_id", 4), sig_inst=S.int("inst", 0, 255),
                    sig_bit=S.int("bit", 0, 255))

    def check(self, P, inp, old, out):
        P.prove(out.returned, "never an error for absent or partial chip data")
        if out.returned:
            P.prove(Eq(out.value, spec_sig_desc(self._env, inp['model_ec'], inp['sig_id'], inp['sig_inst'], inp['sig_bit'])),
                    "<name|id:XXXX>(inst)[bit] <description|''> with name and description looked up independently")


class RegData(_PDUnit):
    name = "ParserData.get_reg_data"
    target = PD + ".get_reg_data"

    def args(self, S):
        return dict(model_ec=hex_text(S, "model_ec", 8), reg_id=hex_text(S, "reg_id", 6), reg_inst=S.int("inst", 0, 255))

    def check(self, P, inp, old, out):
        P.prove(out.returned, "never an error for absent or partial chip data")
        if out.returned:
            n, a = spec_reg_data(self._env, inp['model_ec'], inp['reg_id'], inp['reg_inst'])
            P.prove(Eq(out.value[0], n), "register name from the chip data, else id:XXXXXX inst:N")
            P.prove(Eq(out.value[1], a), "register address from the chip data, else 0x00000000")


# opaque spec functions of the descriptions, used where only the routing of the arguments matters
def op_chip(model_ec, node, pos):
    return mkstr([Opq(ufun('spec_chip_desc', PyStr, z3.IntSort(), z3.IntSort(), PyStr)(str_term(model_ec), zint(node), zint(pos)))])


def op_sig(model_ec, sig_id, inst, bit_):
    return mkstr([Opq(ufun('spec_sig_desc', PyStr, PyStr, z3.IntSort(), z3.IntSort(), PyStr)(
        str_term(model_ec), str_term(sig_id), zint(inst), zint(bit_)))])


def op_attn(model_ec, attn):
    return mkstr([Opq(ufun('spec_attn_desc', PyStr, z3.IntSort(), PyStr)(str_term(model_ec), zint(attn)))])


class CChipDesc(Contract):
    target = PD + ".get_chip_desc"

    def model(self, it, pd, model_ec, node_pos, chip_pos):
        return op_chip(model_ec, node_pos, chip_pos)


class CSigDesc(Contract):
    target = PD + ".get_sig_desc"

    def model(self, it, pd, model_ec, sig_id, sig_inst, sig_bit):
        return op_sig(model_ec, sig_id, sig_inst, sig_bit)


class CAttnDesc(Contract):
    target = PD + ".get_attn_desc"

    def model(self, it, pd, model_ec, attn_type):
        return op_attn(model_ec, attn_type)


class GetSignature(_PDUnit):
    """the three words are sliced at exactly the documented byte positions"""
    name = "ParserData.get_signature"
    target = PD + ".get_signature"
    contracts = [CChipDesc, CSigDesc, CAttnDesc]
    modes = ('assert', 'O')

    def args(self, S):
        return dict(word_a=hex_text(S, "a", 8), word_b=hex_text(S, "b", 8), word_c=hex_text(S, "c", 8))

    def check(self, P, inp, old, out):
        P.prove(out.returned, "returns for every 12-byte signature")
        if not out.returned:
            return
        a, b, c = inp['word_a'], inp['word_b'], inp['word_c']
        if P.symbolic:
            want = [("Chip Desc", op_chip(a, hexnum(sub(b, 4, 6)), hexnum(sub(b, 0, 4)))),
                    ("Signature", op_sig(a, sub(c, 0, 4), hexnum(sub(c, 4, 6)), hexnum(sub(c, 6, 8)))),
                    ("Attn Type", op_attn(a, hexnum(sub(b, 6, 8))))]
        else:
            pd = inp['self']
            want = [("Chip Desc", pd.get_chip_desc(a, int(b[4:6], 16), int(b[0:4], 16))),
                    ("Signature", pd.get_sig_desc(a, c[0:4], int(c[4:6], 16), int(c[6:8], 16))),
                    ("Attn Type", pd.get_attn_desc(a, int(b[6:8], 16)))]
        check_dict(P, out.value, want, "signature")


# ------------------------------------------------------------------ plugins using the signature
def v_signature(a, b, c):
    return ufun('spec_signature', PyStr, PyStr, PyStr, Val)(str_term(a), str_term(b), str_term(c))


class CParserData(Contract):
    """assumed: the chip-data files are read once into an arbitrary but fixed table (A3)"""
    target = PD

    def model(self, it):
        o = Obj(lookup_qualname(PD), {})
        it.ctx.new_ids.add(id(o))
        return o


class CGetSignature(Contract):
    target = PD + ".get_signature"

    def model(self, it, pd, a, b, c):
        return OpaqueVal(v_signature(a, b, c), 'val')


class SrcE500(Unit):
    prop = "C20"
    name = "srcparsers.oe500.parseSRCToJson"
    target = "srcparsers.oe500.oe500.parseSRCToJson"
    contracts = [CParserData, CGetSignature]

    def inputs(self, S):
        d = dict(refcode=S.text("refcode", 32))
        for k in range(2, 10):
            d["word%d" % k] = hex_text(S, "w%d" % k, 8)
        return d

    def call_native(self, inp):
        from srcparsers.oe500.oe500 import parseSRCToJson
        return parseSRCToJson(*list(inp.values()))

    def check(self, P, inp, old, out):
        P.prove(out.returned, "returns")
        if not out.returned:
            return
        if not P.symbolic:
            import json
            from pel.hwdiags.parserdata import ParserData
            j = json.loads(out.value)
            want = {"Primary Attention": "system checkstop" if inp['refcode'][6:8] == '10' else "secondary analysis",
                    "Signature Description": ParserData().get_signature(inp['word6'], inp['word7'], inp['word8'])}
            P.prove(list(j.items()) == list(want.items()), "attention line from the refcode suffix; signature from words 6..8")
            return
        rc = inp['refcode']
        att = "system checkstop" if branch(Eq(sub(rc, 6, 8), "10")) else "secondary analysis"
        want = {"Primary Attention": att,
                "Signature Description": OpaqueVal(v_signature(inp['word6'], inp['word7'], inp['word8']), 'val')}
        from pyvc.models import DumpedStr
        P.prove(isinstance(out.value, DumpedStr), "the result is json.dumps of the description")
        if isinstance(out.value, DumpedStr):
            P.prove(val_term(out.value.value) == val_term(want),
                    "Primary Attention from refcode[6:8] == '10'; Signature Description == get_signature(word6, word7, word8)")


UD = "udparsers.oe500.oe500."


class SigListInv(LoopInv):
    func = UD + "_parse_signature_list"
    loop = 0
    modifies_locals = ('i', 'a', 'b', 'c')

    def fn(self, ctx):
        if not hasattr(ctx, 'sl_fn'):
            ctx.sl_fn = RecFn('sig_list', Val)
            ctx.sl_fn.define_base(ctx, v_nil())
        return ctx.sl_fn

    def heap_targets(self, it, fr):
        return [fr.locals['out']["Signature List"], (fr.locals['stream'], 'index')]

    def havoc(self, it, fr, i):
        ctx = it.ctx
        fr.locals['stream'].index = ctx.fresh('sl_cursor', 'int')
        fr.locals['out']["Signature List"][:] = [Chunk(ctx.fresh('sl_so_far', Val))]

    def inv(self, it, fr, i):
        s = fr.locals['stream']
        return And(Eq(field(s, 'index'), 4 + 12 * zint(i)), list_term(fr.locals['out']["Signature List"]) == self.fn(it.ctx).at(i),
                   field(s, 'index') <= field(s, 'size'))

    def unfold(self, it, fr, i):
        d = field(fr.locals['stream'], 'data')
        o = simp(4 + 12 * zint(i))
        sig = v_signature(hexstr(d, o, 4), hexstr(d, o + 4, 4), hexstr(d, o + 8, 4))
        self.fn(it.ctx).unfold(it.ctx, i, lambda prev, k: v_snoc(prev, sig))


from contracts.ds import DS_CONTRACTS


class SigList(Unit):
    prop = "C20"
    name = "udparsers.oe500._parse_signature_list"
    target = UD + "_parse_signature_list"
    contracts = DS_CONTRACTS + [CParserData, CGetSignature]
    invariants = [SigListInv]

    def inputs(self, S):
        if hasattr(S, 'rng'):
            n = S.rng.randrange(0, 6)
            data = n.to_bytes(4, 'big') + bytes(S.rng.randrange(256) for _ in range(12 * n + S.rng.choice([0, 0, 3])))
            S.log['data'] = data.hex()
            return dict(version=1, data=memoryview(data))
        return dict(version=S.int("version", 0, 255), data=S.bytes("data", kind='memoryview'))

    def pre(self, S, inp):
        d = inp['data']
        return And(blen(d) >= 4, 4 + 12 * be(d, 0, 4) <= blen(d))

    def check(self, P, inp, old, out):
        P.prove(out.returned, "returns when the declared number of signatures is present")
        if not out.returned:
            return
        d = inp['data']
        if not P.symbolic:
            import json
            from pel.hwdiags.parserdata import ParserData
            d = bytes(d)
            n = be(d, 0, 4)
            pd = ParserData()
            want = {"Signature List": [pd.get_signature(d[4 + 12 * k:8 + 12 * k].hex(), d[8 + 12 * k:12 + 12 * k].hex(),
                                                        d[12 + 12 * k:16 + 12 * k].hex()) for k in range(n)]}
            P.prove(json.loads(out.value) == want, "one signature per 12-byte entry, in order")
            return
        ctx = P.ctx
        from pyvc.models import DumpedStr
        P.prove(isinstance(out.value, DumpedStr), "the result is json.dumps of the list")
        if isinstance(out.value, DumpedStr):
            inv = list(ctx.invariants.values())[0]
            lst = out.value.value.get("Signature List")
            P.prove(list(out.value.value.keys()) == ["Signature List"], "a single key 'Signature List'")
            P.prove(list_term(lst) == inv.fn(ctx).at(be(d, 0, 4)),
                    "entry k == get_signature(hex of the three words at 4+12k), for every k < count, in order")


class ScratchRegs(Unit):
    prop = "C20"
    name = "udparsers.oe500 scratch registers / signature"
    target = UD + "_parse_hb_scratch_regs"
    contracts = DS_CONTRACTS

    def inputs(self, S):
        self._which = S.choice("which", ["_parse_hb_scratch_regs", "_parse_scratch_reg_sig"])
        n = 24 if self._which == "_parse_hb_scratch_regs" else 8
        return dict(version=S.int("version", 0, 255), data=S.bytes("data", length=n, kind='memoryview'))

    def call(self, it, inp):
        return it.call(lookup_qualname(UD + self._which), [inp['version'], inp['data']])

    def call_native(self, inp):
        from udparsers.oe500 import oe500
        return getattr(oe500, self._which)(inp['version'], inp['data'])

    def check(self, P, inp, old, out):
        P.prove(out.returned, "returns")
        if not out.returned:
            return
        d = inp['data']
        if self._which == "_parse_hb_scratch_regs":
            want = {"Hostboot Scratch Registers": {'K0': 'V0', 'K1': 'V1'}}
            k0, v0 = cat('0x', hexstr(d, 0, 4)), cat('0x', hexstr(d, 4, 4))
            k1, v1 = cat('0x', hexstr(d, 8, 8)), cat('0x', hexstr(d, 16, 8))
            pairs = [(k0, v0), (k1, v1)]
            title = "Hostboot Scratch Registers"
        else:
            pairs = [('Chip ID', cat('0x', hexstr(d, 0, 4))), ('Signature ID', cat('0x', hexstr(d, 4, 4)))]
            title = "Scratch Register Error Signature"
        if not P.symbolic:
            import json
            j = json.loads(out.value)
            exp = {}
            for k, v in pairs:
                exp[k] = v
            P.prove(j == {title: exp}, "values == hex of the bytes at the documented offsets")
            return
        from pyvc.models import DumpedStr, SymDict
        P.prove(isinstance(out.value, DumpedStr), "the result is json.dumps of the values")
        if isinstance(out.value, DumpedStr):
            v = out.value.value
            P.prove(list(v.keys()) == [title], "single titled object")
            inner = v[title]
            if isinstance(inner, SymDict):
                items = [(k, x) for k, x in inner.items]
            else:
                items = list(inner.items())
            if len(items) == len(pairs):
                P.prove(And(*[And(Eq(a[0], b[0]), Eq(a[1], b[1])) for a, b in zip(items, pairs)]),
                        "keys/values == '0x' + hex of the bytes at the documented offsets, in order")
            else:
                # equal keys collapse (same address twice): the later value wins, as in any JSON object
                P.prove(len(items) == 1 and len(pairs) == 2, "address collision collapses to one entry")
                if len(items) == 1:
                    P.prove(And(Eq(pairs[0][0], pairs[1][0]), Eq(items[0][0], pairs[1][0]), Eq(items[0][1], pairs[1][1])),
                            "colliding keys: the later value is shown")


UNITS = [AttnDesc, ChipDesc, SigDesc, RegData, GetSignature, SrcE500, SigList, ScratchRegs]


# ------------------------------------------------------------------ register dump (nested loop invariants)
def op_reg(model_ec, reg_id, inst):
    n = mkstr([Opq(ufun('spec_reg_name', PyStr, PyStr, z3.IntSort(), PyStr)(str_term(model_ec), str_term(reg_id), zint(inst)))])
    a = mkstr([Opq(ufun('spec_reg_addr', PyStr, PyStr, z3.IntSort(), PyStr)(str_term(model_ec), str_term(reg_id), zint(inst)))])
    return n, a


class CRegData(Contract):
    target = PD + ".get_reg_data"

    def model(self, it, pd, model_ec, reg_id, reg_inst):
        return op_reg(model_ec, reg_id, reg_inst)


def rd_fns():
    return (z3.Function('rd_cp', z3.IntSort(), z3.IntSort()), z3.Function('rd_rp', z3.IntSort(), z3.IntSort(), z3.IntSort()),
            z3.Function('rd_dl', z3.IntSort(), Val), z3.Function('rd_dl2', z3.IntSort(), z3.IntSort(), Val))


def chip_line(d, p):
    """line for the chip header at p: description + ' ' padded with '*' to 60"""
    desc = cat(op_chip(hexstr(d, p, 4), be(d, p + 6, 1), be(d, p + 4, 2)), ' ')
    if isinstance(desc, str):
        return desc.ljust(60, '*')
    return _ops.str_ljust(cur(), desc, 60, '*')


def reg_line(d, chip_p, p, size):
    """line for the register record at p (3-byte id, instance, size, data) of the chip whose header is at chip_p"""
    name, addr = op_reg(hexstr(d, chip_p, 4), hexstr(d, p, 3), be(d, p + 3, 1))
    name = _ops.str_ljust(cur(), _ops.str_slice(cur(), name, 0, 25), 25)
    hx = upper(hexstr(d, p + 5, size))          # the data bytes as upper-case hex digits
    groups = [sub(hx, i, i + 4) for i in range(0, 2 * size, 4)]
    data = _ops.str_join(cur(), ' ', groups) if groups else ''
    return cat("  ", name, " (", addr, ") ", data)


class RegDumpOuter(LoopInv):
    func = UD + "_parse_register_dump"
    loop = 0
    modifies_locals = ('c', 'model_ec', 'chip_pos', 'node_pos', 'num_regs', 'chip_desc', 'r', 'reg_id', 'reg_inst',
                       'data_size', 'data_buf', 'reg_name', 'reg_addr', 'chunks', 'i')

    def heap_targets(self, it, fr):
        return [fr.locals['dump'], (fr.locals['stream'], 'index')]

    def base(self, it):
        ctx = it.ctx
        if not ctx.ghost.get('rd_base'):
            ctx.ghost['rd_base'] = True
            CP, RP, DL, DL2 = rd_fns()
            ctx.assume(z3.And(CP(0) == 4, DL(0) == v_nil()))

    def havoc(self, it, fr, c):
        ctx = it.ctx
        self.base(it)
        CP, RP, DL, DL2 = rd_fns()
        fr.locals['stream'].index = CP(zint(c))
        fr.locals['dump'][:] = [Chunk(DL(zint(c)))]

    def inv(self, it, fr, c):
        self.base(it)
        CP, RP, DL, DL2 = rd_fns()
        s = fr.locals['stream']
        return And(Eq(field(s, 'index'), CP(zint(c))), list_term(fr.locals['dump']) == DL(zint(c)),
                   field(s, 'index') >= 0, field(s, 'index') <= field(s, 'size'))

    def unfold(self, it, fr, c):
        CP, RP, DL, DL2 = rd_fns()
        d = field(fr.locals['stream'], 'data')
        c = zint(c)
        nr = be(d, CP(c) + 7, 4)
        it.ctx.assume(z3.And(CP(c + 1) == RP(c, nr), DL(c + 1) == DL2(c, nr)))


class RegDumpInner(LoopInv):
    func = UD + "_parse_register_dump"
    loop = 1
    modifies_locals = ('r', 'reg_id', 'reg_inst', 'data_size', 'data_buf', 'reg_name', 'reg_addr', 'chunks', 'i')

    def heap_targets(self, it, fr):
        return [fr.locals['dump'], (fr.locals['stream'], 'index')]

    def base(self, it, fr):
        CP, RP, DL, DL2 = rd_fns()
        d = field(fr.locals['stream'], 'data')
        c = zint(fr.locals['c'])
        it.ctx.assume(z3.And(RP(c, 0) == CP(c) + 11, DL2(c, 0) == v_snoc(DL(c), val_term(chip_line(d, CP(c))))))

    def havoc(self, it, fr, r):
        ctx = it.ctx
        CP, RP, DL, DL2 = rd_fns()
        c = zint(fr.locals['c'])
        fr.locals['stream'].index = RP(c, zint(r))
        fr.locals['dump'][:] = [Chunk(DL2(c, zint(r)))]

    def inv(self, it, fr, r):
        self.base(it, fr)
        CP, RP, DL, DL2 = rd_fns()
        s = fr.locals['stream']
        c = zint(fr.locals['c'])
        return And(Eq(field(s, 'index'), RP(c, zint(r))), list_term(fr.locals['dump']) == DL2(c, zint(r)),
                   field(s, 'index') >= 0, field(s, 'index') <= field(s, 'size'))

    def unfold(self, it, fr, r):
        ctx = it.ctx
        CP, RP, DL, DL2 = rd_fns()
        d = field(fr.locals['stream'], 'data')
        c, r = zint(fr.locals['c']), zint(r)
        size = fr.locals['data_size']       # decided on this path (the contract splits 1-byte size fields)
        p = RP(c, r)
        ctx.assume(z3.And(RP(c, r + 1) == p + 5 + zint(size),
                          DL2(c, r + 1) == v_snoc(DL2(c, r), val_term(reg_line(d, CP(c), p, size)))))


class CGetIntSplit(Contract):
    """DataStream.get_int as proved in C05; additionally case-splits a 1-byte result over the values of this shard
    (used for the register data-size field so that the chunking loop runs on a concrete length)"""
    target = "pel.datastream.DataStream.get_int"

    def model(self, it, s, num_bytes, byte_order=None, is_signed=None):
        from contracts.ds import CGetInt
        ctx = it.ctx
        r = CGetInt().model(it, s, num_bytes, byte_order, is_signed)
        fr_name = getattr(ctx, 'split_sizes', None)
        if fr_name is not None and num_bytes == 1 and is_z3(r) and getattr(ctx, 'split_armed', 0) == 1:
            ctx.split_armed = 0
            for k in fr_name:
                if ctx.decide(r == k):
                    return k
            from pyvc.engine import Infeasible
            raise Infeasible()      # other sizes belong to other shards
        if num_bytes == 1 and is_z3(r):
            ctx.split_armed = getattr(ctx, 'split_armed', 0) + 1 if getattr(ctx, 'in_reg_loop', False) else 0
        return r


class RegDumpInnerSplit(RegDumpInner):
    def havoc(self, it, fr, r):
        RegDumpInner.havoc(self, it, fr, r)
        it.ctx.in_reg_loop = True
        it.ctx.split_armed = 0


class RegDump(Unit):
    """sizes are sharded: shard s covers data sizes {s, s+16, ...} (all of 1..255 over the 16 shards; size 0 is
    rejected by the range check)"""
    prop = "C20"
    name = "udparsers.oe500._parse_register_dump"
    target = UD + "_parse_register_dump"
    shards = 16
    max_unroll = 600

    @property
    def contracts(self):
        from contracts.ds import CGetMem, CCheckRange, CIncIndex, CInit
        return [CGetMem, CGetIntSplit, CCheckRange, CIncIndex, CInit, CParserData, CChipDesc, CRegData]

    invariants = [RegDumpOuter, RegDumpInnerSplit]

    def setup_ctx(self, ctx):
        ctx.split_sizes = [k for k in range(0, 256) if k % 16 == self.shard]

    def inputs(self, S):
        if hasattr(S, 'rng'):
            rng = S.rng
            data = bytearray()
            chips = rng.randrange(0, 3)
            data += chips.to_bytes(4, 'big')
            for _ in range(chips):
                regs = rng.randrange(0, 4)
                data += bytes(rng.randrange(256) for _ in range(7)) + regs.to_bytes(4, 'big')
                for _ in range(regs):
                    sz = rng.choice([1, 2, 3, 4, 5, 7, 8, 9, 16, 255, rng.randrange(1, 256)])
                    data += bytes(rng.randrange(256) for _ in range(4)) + bytes([sz]) + bytes(rng.randrange(256) for _ in range(sz))
            if rng.random() < 0.2:
                data = data[:rng.randrange(0, len(data) + 1)]
            S.log['data'] = bytes(data).hex()
            return dict(version=1, data=memoryview(bytes(data)))
        return dict(version=S.int("version", 0, 255), data=S.bytes("data", kind='memoryview'))

    def check(self, P, inp, old, out):
        d = inp['data']
        if not out.returned:
            P.prove(out.exc_class is AssertionError, "the only failure is the range check (data shorter than its own layout)")
            return
        if not P.symbolic:
            import json
            P.prove(json.loads(out.value) == {"Register Dump": spec_regdump_native(bytes(d))},
                    "every chip and every register in order with id, instance, address and exactly its data bytes")
            return
        ctx = P.ctx
        from pyvc.models import DumpedStr
        P.prove(isinstance(out.value, DumpedStr), "the result is json.dumps of the dump")
        if isinstance(out.value, DumpedStr):
            CP, RP, DL, DL2 = rd_fns()
            v = out.value.value
            P.prove(list(v.keys()) == ["Register Dump"], "a single key 'Register Dump'")
            P.prove(list_term(v["Register Dump"]) == DL(be(d, 0, 4)),
                    "dump == for each chip in order: its description line, then one line per register in order with "
                    "name, address and exactly its data bytes in groups of two")


def spec_regdump_native(d):
    from pel.hwdiags.parserdata import ParserData
    pd = ParserData()
    n = be(d, 0, 4)
    p = 4
    out = []
    for _ in range(n):
        model = d[p:p + 4].hex()
        out.append((pd.get_chip_desc(model, d[p + 6], be(d, p + 4, 2)) + ' ').ljust(60, '*'))
        nr = be(d, p + 7, 4)
        p += 11
        for _ in range(nr):
            rid, inst, sz = d[p:p + 3].hex(), d[p + 3], d[p + 4]
            data = d[p + 5:p + 5 + sz].hex().upper()
            name, addr = pd.get_reg_data(model, rid, inst)
            out.append("  %s (%s) %s" % (name[0:25].ljust(25), addr, ' '.join(data[i:i + 4] for i in range(0, len(data), 4))))
            p += 5 + sz
    return out


class CalloutFFDC(Unit):
    prop = "C20"
    name = "udparsers.oe500._parse_callout_ffdc"
    target = UD + "_parse_callout_ffdc"
    kind = 'B'

    def inputs(self, S):
        import json
        docs = [[], [{"LocationCode": "P0", "Priority": "H"}], {"a": 1}, "text", [1, 2, {"x": None}]]
        j = json.dumps(S.choice("doc", docs))
        pad = S.int("pad", 0, 3)
        return dict(version=1, data=memoryview(j.encode() + b'\0' * pad))

    def check(self, P, inp, old, out):
        import json
        P.prove(out.returned, "returns")
        if out.returned:
            raw = bytes(inp['data']).rstrip(b'\0').decode()
            P.prove(json.loads(out.value) == {"Callout List FFDC": json.loads(raw)}, "reproduces the encoded JSON value")


class CalloutFFDCAny(Unit):
    """any payload: the text handed to json.loads is exactly the payload without its trailing NULs, decoded as UTF-8, and the
    result is json.dumps of that value under the single key; anything else fails with the decoder's ordinary error"""
    prop = "C20"
    name = "udparsers.oe500._parse_callout_ffdc (any payload)"
    target = UD + "_parse_callout_ffdc"

    def inputs(self, S):
        return dict(version=S.int("version", 0, 255), data=S.bytes("data", kind='memoryview'))

    def check(self, P, inp, old, out):
        if not P.symbolic:
            import json
            raw = bytes(inp['data']).rstrip(b'\0')
            try:
                want = {"Callout List FFDC": json.loads(raw.decode('utf8'))}
            except ValueError:
                want = None
            if want is None:
                P.prove(not out.returned and issubclass(out.exc_class, ValueError), "undecodable payload: ordinary error")
            else:
                P.prove(out.returned and json.loads(out.value) == want, "reproduces the encoded JSON value")
            return
        import z3
        from pyvc.models import DumpedStr, rstrip_len_term, JsonSort
        from pyvc.values import ufun, PyStr, OpaqueVal, zint
        from pyvc.ops import as_sbytes
        b = as_sbytes(inp['data'])
        L = rstrip_len_term(b, b'\0')
        q = z3.Int('q!spec')
        P.prove(z3.And(L >= 0, L <= zint(b.ln), z3.Or(L == 0, b.at(L - 1) != 0),
                       z3.ForAll([q], z3.Implies(z3.And(q >= L, q < zint(b.ln)), b.at(q) == 0))),
                "the kept prefix is the payload without its trailing NUL bytes (and nothing else is dropped)")
        text = ufun('decode_utf8', b.arr.sort(), z3.IntSort(), z3.IntSort(), PyStr)(b.arr, zint(b.off), L)
        if not out.returned:
            P.prove(out.exc_class is not None and issubclass(out.exc_class, ValueError),
                    "fails only with the ordinary decoding errors (UnicodeDecodeError / JSONDecodeError)")
            P.prove(Or(Not(ufun('utf8_valid', b.arr.sort(), z3.IntSort(), z3.IntSort(), z3.BoolSort())(b.arr, zint(b.off), L)),
                       Not(ufun('json_valid', PyStr, z3.BoolSort())(text))),
                    "fails only when the stripped payload is not UTF-8 or not JSON")
            return
        P.prove(isinstance(out.value, DumpedStr), "the result is json.dumps of a value")
        if isinstance(out.value, DumpedStr):
            v = out.value.value
            P.prove(isinstance(v, dict) and list(v.keys()) == ["Callout List FFDC"], "single key 'Callout List FFDC'")
            x = v.get("Callout List FFDC") if isinstance(v, dict) else None
            P.prove(isinstance(x, OpaqueVal) and x.tag == 'json' and
                    x.term.eq(ufun('json_loads', PyStr, JsonSort)(text)) if isinstance(x, OpaqueVal) else False,
                    "its value is json.loads of exactly the stripped, UTF-8 decoded payload")


def Unsupported_():
    from pyvc.values import Unsupported
    return Unsupported("bounded-only unit")


UNITS = [AttnDesc, ChipDesc, SigDesc, RegData, GetSignature, SrcE500, SigList, ScratchRegs, RegDump, CalloutFFDCAny, CalloutFFDC]


# ------------------------------------------------------------------ udparsers.oe500.parseUDToJson: sub-type dispatch
OE500_PARSERS = {1: "_parse_signature_list", 2: "_parse_register_dump", 3: "_parse_callout_ffdc", 4: "_parse_hb_scratch_regs",
                 5: "_parse_scratch_reg_sig"}


class CRecParser(Contract):
    """the five section parsers (each proved in its own unit): here only recorded - which one ran, with which arguments"""

    def __init__(self, fname):
        self.target = UD + fname
        self.fname = fname

    def model(self, it, version, data):
        from pyvc.values import ufun, PyStr, lit
        it.ctx.ghost.setdefault('oe500_calls', []).append((self.fname, version, data))
        return mkstr([Opq(ufun('oe500_result', PyStr, PyStr)(lit(self.fname)))])


class UDDispatch(Unit):
    prop = "C20"
    name = "udparsers.oe500.parseUDToJson (sub-type dispatch)"
    target = UD + "parseUDToJson"

    @property
    def contracts(self):
        return [CRecParser(n) for n in OE500_PARSERS.values()]

    def inputs(self, S):
        return dict(subtype=S.int("subtype", 0, 255), version=S.int("version", 0, 255), data=S.bytes("data", kind='memoryview'))

    def check(self, P, inp, old, out):
        if not P.symbolic:
            import json
            if inp['subtype'] not in OE500_PARSERS:
                P.prove(out.returned and json.loads(out.value) is None, "unsupported sub-types yield JSON null (the caller then keeps the hex dump)")
            else:
                from udparsers.oe500 import oe500
                try:
                    want = ('r', getattr(oe500, OE500_PARSERS[inp['subtype']])(inp['version'], inp['data']))
                except Exception as e:
                    want = ('e', type(e))
                got = ('r', out.value) if out.returned else ('e', out.exc_class)
                P.prove(got == want, "sub-type 1..5 runs exactly its parser")
            return
        from pyvc.values import ufun, PyStr, lit
        from pyvc.models import DumpedStr
        ctx = P.ctx
        calls = ctx.ghost.get('oe500_calls', [])
        P.prove(out.returned, "returns")
        if not out.returned:
            return
        hit = None
        for k, fname in OE500_PARSERS.items():
            if branch(Eq(inp['subtype'], k)):
                hit = fname
                break
        if hit is None:
            P.prove(calls == [], "no section parser runs for an unsupported sub-type")
            P.prove(isinstance(out.value, DumpedStr) and out.value.value is None or out.value == 'null',
                    "unsupported sub-types yield JSON null (the caller then keeps the hex dump)")
            return
        P.prove(len(calls) == 1 and calls[0][0] == hit, "sub-type %s runs exactly its parser" % "1..5")
        if len(calls) == 1:
            P.prove(Eq(calls[0][1], inp['version']) and calls[0][2] is inp['data'], "version and payload are passed through unchanged")
        P.prove(Eq(out.value, mkstr([Opq(ufun('oe500_result', PyStr, PyStr)(lit(hit)))])), "the parser's result is returned as is")


UNITS = UNITS + [UDDispatch]
