"""C13: hex dumps are lossless (hexdump / parse / I/O drawer line formats / --hex display)."""
import z3

from contracts.common import *
from pyvc.unit import Unit, Contract, LoopInv
from pyvc.seq import Chunk, list_term, val_term, RecFn, Val, v_snoc, v_nil, seq_len, seq_str_at
from pyvc.values import Opq, I, SBytes, SStr, is_z3
from pyvc import ops as _ops

HX = "pel.hexdump."
DEFAULT = 'AAAAAAAA     DDDDDDDD  DDDDDDDD  DDDDDDDD  DDDDDDDD     CCCCCCCCCCCCCCCC'
BMC = 'AAAA:  DDDDDDDD DDDDDDDD DDDDDDDD DDDDDDDD  <CCCCCCCCCCCCCCCC>'
PREBMC = 'DD DD DD DD DD DD DD DD DD DD DD DD DD DD DD DD CCCCCCCCCCCCCCCC'


def printable(b):
    if is_z3(b):
        return simp(z3.If(z3.And(b >= 0x20, b < 0x7f), b, I(46)))
    return b if 0x20 <= b < 0x7f else 46


def spec_line_default(d, start, k):
    """one line of the default hex dump: offset(8 hex), 5 spaces, bytes as %02X in chunks of 4 separated by two
    spaces and padded to 38, 5 spaces, printable text padded to 16"""
    off = fmt(start, 'X', 8, '0')
    raw = []
    for j in range(k):
        if j != 0 and j % 4 == 0:
            raw.append('  ')
        raw.append(hexstr(d, start + j, 1, upper=True))
    raw = cat(*raw) if raw else ''
    nraw = 2 * k + 2 * ((k - 1) // 4 if k else 0)
    text = mkstr([printable(byte(d, start + j)) for j in range(k)]) if k else ''
    return cat(off, '     ', raw, ' ' * (38 - nraw), '     ', text, ' ' * (16 - k))


class HexdumpInv(LoopInv):
    func = HX + "hexdump"
    loop = 0
    modifies_locals = ('i', 'raw', 'text', 'j', 'b')

    def fn(self, ctx):
        if not hasattr(ctx, 'hd_fn'):
            ctx.hd_fn = RecFn('hd_lines', Val)
            ctx.hd_fn.define_base(ctx, v_nil())
        return ctx.hd_fn

    def heap_targets(self, it, fr):
        return [fr.locals['dump']]

    def havoc(self, it, fr, t):
        fr.locals['dump'][:] = [Chunk(it.ctx.fresh('dump_so_far', Val))]

    def inv(self, it, fr, t):
        return list_term(fr.locals['dump']) == self.fn(it.ctx).at(t)

    def unfold(self, it, fr, t):
        ctx = it.ctx
        d = fr.locals['data']
        n = zint(blen(d))
        rest = simp(n - 16 * zint(t))
        k = 16
        if not branch(rest >= 16):
            for kk in range(15, 0, -1):
                if branch(rest == kk):
                    k = kk
                    break
        start = fr.locals['i']          # the program's loop variable; i == 16*t by construction of the range
        it.ctx.assume(zint(start) == 16 * zint(t))
        line = val_term(spec_line_default(d, start, k))
        self.fn(ctx).unfold(ctx, t, lambda prev, kk: v_snoc(prev, line))


class HexdumpDefault(Unit):
    prop = "C13"
    name = "hexdump (default layout)"
    target = HX + "hexdump"
    invariants = [HexdumpInv]
    max_unroll = 40

    def inputs(self, S):
        return dict(data=S.bytes("data", kind='memoryview'))

    def pre(self, S, inp):
        return blen(inp['data']) < (1 << 32)       # A5: offsets fit 8 hex digits

    def check(self, P, inp, old, out):
        P.prove(out.returned, "returns for every byte string")
        if not out.returned:
            return
        d = inp['data']
        if not P.symbolic:
            n = len(d)
            want = [spec_line_default(bytes(d), 16 * t, min(16, n - 16 * t)) for t in range((n + 15) // 16)]
            P.prove(list(out.value) == want, "one line per started 16 bytes: offset, hex bytes in chunks of 4, printable text")
            P.prove(all(len(l) == 72 for l in out.value), "all lines equally wide")
            return
        ctx = P.ctx
        inv = list(ctx.invariants.values())[0]
        n = zint(blen(d))
        cnt = simp(z3.If(n > 0, (n + 15) / 16, I(0)))
        P.prove(list_term(out.value) == inv.fn(ctx).at(cnt),
                "dump == [line(t) for t < ceil(len/16)]: one line per started line of data, each beginning with its offset")


# ------------------------------------------------------------------ parse: per-line lemma
def nib(v, lower):
    """hex digit character of nibble v, lower- or upper-case"""
    if is_z3(v) or is_z3(lower):
        return simp(z3.If(zint(v) < 10, zint(v) + 48, z3.If(lower, zint(v) + 87, zint(v) + 55)))
    return ord(('%x' if lower else '%X') % v)


def render_line(template, addr, data, lowers, text, k, cut):
    """a dump line in `template` carrying the first k bytes of `data`.  addr: hex-digit characters for the 'A'
    positions; text: characters for the 'C' positions; after the k-th byte the remaining D/C positions are blank
    (cut=False) or the line simply ends after the last data digit (cut=True)"""
    out = []
    ai = di = ci = 0
    for ch in template:
        if ch == 'A':
            out.append(addr[ai])
            ai += 1
        elif ch == 'D':
            if di >= 2 * k:
                if cut:
                    break
                out.append(32)
            else:
                b = data[di // 2]
                v = div(b, 16) if di % 2 == 0 else mod(b, 16)
                out.append(nib(v, lowers[di // 2]))
            di += 1
        elif ch == 'C':
            out.append(text[ci] if ci < k else 32)
            ci += 1
        else:
            if cut and di >= 2 * k and di > 0 and ai == template.count('A') and k < 16:
                # literal after the last byte of a cut line
                break
            out.append(ord(ch))
    if cut:
        # drop trailing literal characters that follow the last data digit
        while out and isinstance(out[-1], int) and out[-1] == 32:
            out.pop()
    return mkstr(out) if out else ''


class ParseLine(Unit):
    """parse([line], template) returns exactly the bytes the line carries - for each template, each byte count
    0..16, padded or cut short lines, either hex-digit case, any address digits, any text column"""
    prop = "C13"
    name = "hexdump.parse (one line, all three line formats)"
    target = HX + "parse"
    shards = 6
    max_unroll = 100

    def inputs(self, S):
        tname = ['default', 'bmc', 'prebmc'][self.shard % 3]
        cut = (self.shard // 3) == 1
        template = {'default': DEFAULT, 'bmc': BMC, 'prebmc': PREBMC}[tname]
        k = S.choice("k", list(range(0, 17)))
        data = [S.int("b%d" % j, 0, 255) for j in range(k)]
        lowers = [S.bool("low%d" % j) for j in range(k)]
        na = template.count('A')
        addr = []
        for j in range(na):
            v = S.int("a%d" % j, 0, 15)
            addr.append(nib(v, S.bool("alow%d" % j)))
        text = []
        for j in range(k):
            c = S.int("t%d" % j, 0, 0x10FFFF)
            S.assume(c != 10)
            text.append(c)
        nl = S.bool("newline")
        line = render_line(template, addr, data, lowers, text, k, cut)
        if S.symbolic:
            if S.ctx.decide(nl):
                line = cat(line, "\n")
        elif nl:
            line = line + "\n"
        self._data = data
        return dict(lines=[line], line_format=template)

    def pre(self, S, inp):
        return True

    def check(self, P, inp, old, out):
        P.prove(out.returned, "returns")
        if not out.returned:
            return
        got = out.value
        want = self._data
        P.prove(Eq(blen(got), len(want)), "exactly as many bytes as the line carries")
        if isinstance(got, SBytes):
            if isinstance(got.ln, int) and got.ln == len(want):
                P.prove(And(*[Eq(got.at(j), want[j]) for j in range(len(want))]), "the bytes parsed are the bytes rendered")
        else:
            P.prove(list(bytes(got)) == list(want), "the bytes parsed are the bytes rendered")


class ParseComment(Unit):
    """blank lines and comment lines (first character cannot begin a data line) contribute no bytes"""
    prop = "C13"
    name = "hexdump.parse (blank / comment line)"
    target = HX + "parse"
    max_unroll = 100

    def inputs(self, S):
        template = S.choice("template", [DEFAULT, BMC, PREBMC])
        n = S.choice("n", [0, 1, 2, 5, 40])
        line = S.text("line", n) if n else ""
        return dict(lines=[line], line_format=template)

    def pre(self, S, inp):
        line = inp['lines'][0]
        if isinstance(line, str) and line == "":
            return True
        c0 = chars0(line)
        ishex = _ops.is_hexdigit(c0) if is_z3(c0) else (chr(c0) in "0123456789abcdefABCDEF")
        return Not(ishex)

    def check(self, P, inp, old, out):
        P.prove(out.returned, "returns")
        if out.returned:
            P.prove(Eq(blen(out.value), 0), "a blank line or a line not starting with a hex digit contributes no bytes")


def chars0(line):
    if isinstance(line, str):
        return ord(line[0])
    return line.segs[0]


import builtins as _builtins
BUILTIN_NAMES = set(dir(_builtins))


def parse_independence(tier, seed):
    """syntactic frame lemma: every iteration of parse()'s outer loop depends only on its own line - all locals read
    in the body are (re)assigned in the body before use, and the accumulator `data` is only extended.  Hence
    parse(l1 + l2) == parse(l1) + parse(l2) and the per-line lemma lifts to whole dumps of any length."""
    import ast, time
    from pyvc.interp import lookup_qualname
    t0 = time.time()
    fi = lookup_qualname(HX + "parse")
    obs = []

    witness = {}

    def additivity_counterexample():
        """bounded search on the real function for lines l1, l2 with parse(l1 + l2) != parse(l1) + parse(l2)"""
        if 'w' in witness:
            return witness['w']
        import random
        from pel.hexdump import parse, hexdump
        rng = random.Random(seed + 3)
        w = None
        for _ in range(1500):
            def lines():
                out = []
                for _k in range(rng.randrange(0, 4)):
                    r = rng.random()
                    if r < 0.6:
                        out.extend(hexdump(memoryview(bytes(rng.randrange(256) for _j in range(rng.randrange(1, 40))))))
                    elif r < 0.8:
                        out.append(rng.choice(["", "# comment", "Offset  00010203", "zz", "0000000"]))
                    else:
                        ln = hexdump(memoryview(bytes(rng.randrange(256) for _j in range(rng.randrange(1, 17)))))[0]
                        out.append(ln[:rng.randrange(0, len(ln))])
                return out
            l1, l2 = lines(), lines()
            try:
                a, b, c = bytes(parse(l1 + l2)), bytes(parse(l1)), bytes(parse(l2))
            except Exception as e:
                w = dict(l1=l1, l2=l2, error="%s: %s" % (type(e).__name__, e))
                break
            if a != b + c:
                w = dict(l1=l1, l2=l2, whole=a.hex(), parts=(b + c).hex())
                break
        witness['w'] = w
        return w

    def ob(name, ok, detail=''):
        # a failed syntactic check only means the body left the recognised idioms: it is a violation when the real function
        # shows the dependence between lines, and undecided otherwise
        st, rep = 'discharged', dict(kind='custom', reproduced=False, native=detail)
        if not ok:
            w = additivity_counterexample()
            st = 'failed' if w else 'unknown'
            rep = dict(kind='custom', reproduced=bool(w), native=w or detail)
        obs.append(dict(name="parse: " + name, status=st, solver='syntactic', kind='frame',
                        detail=detail, secs=0.0, goal=detail, replay=rep))
    loops = [n for n in ast.walk(fi.node) if isinstance(n, ast.For)]
    outer = [n for n in fi.node.body if isinstance(n, ast.For)]
    ob("has exactly one top-level loop over the lines", len(outer) == 1, ast.dump(fi.node)[:0])
    if len(outer) != 1:
        return obs, {}
    loop = outer[0]
    ok_iter = isinstance(loop.iter, ast.Name) and loop.iter.id == 'lines' and isinstance(loop.target, ast.Name)
    ob("the loop iterates over the parameter `lines` in order", ok_iter)
    shared = {'data', 'hex_digit', 'line_format', 'lines'}
    tgt = loop.target.id if isinstance(loop.target, ast.Name) else None
    # def-before-use on the straight-line prefix of the body: names read before any assignment in the body
    assigned = {tgt}
    bad = []

    def reads(node):
        return {n.id for n in ast.walk(node) if isinstance(n, ast.Name) and isinstance(n.ctx, ast.Load)}

    def scan(stmts, assigned):
        for st in stmts:
            if isinstance(st, ast.Assign):
                r = reads(st.value)
                for x in r - assigned - shared - BUILTIN_NAMES:
                    bad.append(x)
                for t in st.targets:
                    for n in ast.walk(t):
                        if isinstance(n, ast.Name):
                            assigned.add(n.id)
            elif isinstance(st, ast.For):
                for x in reads(st.iter) - assigned - shared - BUILTIN_NAMES:
                    bad.append(x)
                inner = set(assigned)
                for n in ast.walk(st.target):
                    if isinstance(n, ast.Name):
                        inner.add(n.id)
                scan(st.body, inner)
            elif isinstance(st, ast.If):
                for x in reads(st.test) - assigned - shared - BUILTIN_NAMES:
                    bad.append(x)
                a1, a2 = set(assigned), set(assigned)
                scan(st.body, a1)
                scan(st.orelse, a2)
                assigned |= (a1 & a2)
            elif isinstance(st, (ast.Expr, ast.Break, ast.Continue, ast.Pass)):
                if isinstance(st, ast.Expr):
                    for x in reads(st.value) - assigned - shared - BUILTIN_NAMES:
                        bad.append(x)
            else:
                bad.append("<%s>" % type(st).__name__)
    scan(loop.body, assigned)
    ob("every local read in the loop body is assigned earlier in the same iteration", not bad, "reads of stale locals: %r" % bad)
    # `data` is only extended inside the loop, never read otherwise
    uses = [n for n in ast.walk(loop) if isinstance(n, ast.Name) and n.id == 'data']
    ok_data = True
    for n in ast.walk(loop):
        if isinstance(n, ast.Call) and isinstance(n.func, ast.Attribute) and isinstance(n.func.value, ast.Name) \
                and n.func.value.id == 'data':
            if n.func.attr not in ('extend', 'append'):
                ok_data = False
    calls = sum(1 for n in ast.walk(loop) if isinstance(n, ast.Attribute) and isinstance(n.value, ast.Name) and n.value.id == 'data')
    ok_data = ok_data and calls == len(uses)
    ob("the accumulator `data` is only extended in the loop, never read or rebound", ok_data)
    ret = [n for n in fi.node.body if isinstance(n, ast.Return)]
    ob("the function returns the accumulator", len(ret) == 1 and isinstance(ret[0].value, ast.Name) and ret[0].value.id == 'data')
    return obs, {}


def layout_enum(tier, seed):
    """all bytes-per-line / bytes-per-chunk settings: one line per started line, all lines equally wide, offsets,
    by enumeration on the real function (complete over the 256x256 settings in the thorough tier; line width does not
    depend on byte values: every byte renders as exactly two hex digits and one text character)"""
    import time, random
    from pel.hexdump import hexdump
    t0 = time.time()
    rng = random.Random(seed)
    if tier == 'thorough':
        settings = [(a, b) for a in range(1, 257) for b in range(1, 257)]
    else:
        settings = [(a, b) for a in range(1, 33) for b in range(1, 33)]
        settings += [(rng.randrange(1, 257), rng.randrange(1, 257)) for _ in range(3000)]
        settings += [(256, b) for b in (1, 2, 3, 7, 255, 256)] + [(a, 256) for a in (1, 2, 255, 256)]
    bad = None
    evals = 0
    for bpl, bpc in settings:
        for n in (1, bpl, bpl + 1, 2 * bpl + bpl // 2):
            data = bytes((i * 37 + 11) & 0xFF for i in range(n))
            lines = hexdump(memoryview(data), bpl, bpc)
            evals += 1
            want_lines = (n + bpl - 1) // bpl
            width = 8 + 5 + (2 * bpl + 2 * ((bpl - 1) // bpc)) + 5 + bpl
            if len(lines) != want_lines or any(len(l) != width for l in lines) or \
                    any(not l.startswith("%08X     " % (t * bpl)) for t, l in enumerate(lines)):
                bad = dict(bytes_per_line=bpl, bytes_per_chunk=bpc, n=n, widths=sorted({len(l) for l in lines}), want_width=width,
                           lines=len(lines), want_lines=want_lines)
                break
        if bad:
            break
    ob = dict(name="hexdump layout for every bytes-per-line/bytes-per-chunk setting: line count, equal width, offsets (enumeration)",
              kind='B' if tier != 'thorough' else 'E', solver='enum' if tier == 'thorough' else 'bounded',
              status='failed' if bad else 'discharged', evaluations=evals, secs=time.time() - t0,
              bound="%d settings x 4 data lengths (thorough: all 65536 settings)" % len(settings),
              goal="len(lines)==ceil(n/bpl) and all widths == 8+5+2*bpl+2*((bpl-1)//bpc)+5+bpl and offsets t*bpl")
    if bad:
        ob['replay'] = dict(kind='custom', reproduced=True, native=bad, input=bad)
        ob['detail'] = str(bad)
    return [ob], {}


UNITS = [HexdumpDefault, ParseLine, ParseComment]


# ------------------------------------------------------------------ --hex display of a PEL
from contracts.iodrawer import CHexdump, spec_hexdump_term


class HexPrintInv(LoopInv):
    func = "pel.peltool.peltool.printPELInHexFormat"
    loop = 0
    modifies_locals = ('line',)

    def fn(self, ctx):
        if not hasattr(ctx, 'hp_fn'):
            ctx.hp_fn = RecFn('printed_lines', Val)
        return ctx.hp_fn

    def heap_targets(self, it, fr):
        return []

    def base(self, it, fr):
        ctx = it.ctx
        if not ctx.ghost.get('hp_base'):
            ctx.ghost['hp_base'] = True
            self.fn(ctx).define_base(ctx, list_term(list(ctx.stdout)))

    def havoc(self, it, fr, i):
        self.base(it, fr)
        it.ctx.stdout[:] = [Chunk(it.ctx.fresh('stdout_so_far', Val))]

    def inv(self, it, fr, i):
        self.base(it, fr)
        return list_term(it.ctx.stdout) == self.fn(it.ctx).at(i)

    def unfold(self, it, fr, i):
        ctx = it.ctx
        hd = spec_hexdump_term(fr.locals['mv'])
        ev = val_term((mkstr([Opq(seq_str_at(hd, i))]), '\n'))
        self.fn(ctx).unfold(ctx, i, lambda prev, k: v_snoc(prev, ev))


class HexPrint(Unit):
    prop = "C13"
    name = "printPELInHexFormat"
    target = "pel.peltool.peltool.printPELInHexFormat"
    contracts = [CHexdump]
    invariants = [HexPrintInv]

    def inputs(self, S):
        return dict(data=S.bytes("data", kind='bytes'))

    def call_native(self, inp):
        import io, contextlib
        from pel.peltool import peltool
        buf, err = io.StringIO(), io.StringIO()
        with contextlib.redirect_stdout(buf), contextlib.redirect_stderr(err):
            peltool.printPELInHexFormat(inp['data'])
        return (buf.getvalue(), err.getvalue())

    def check(self, P, inp, old, out):
        P.prove(out.returned, "returns")
        if not out.returned:
            return
        if not P.symbolic:
            from pel.hexdump import hexdump, parse
            so, se = out.value
            lines = so.split('\n')
            P.prove(lines[0] == "-------------- PEL Begin  ----------------" and lines[-2] == "-------------- PEL End    ----------------"
                    and lines[-1] == '', "begin and end markers frame the dump")
            P.prove(lines[1:-2] == hexdump(memoryview(inp['data'])), "the lines between the markers are the hex dump of the file's bytes")
            P.prove(bytes(parse(lines[1:-2])) == bytes(inp['data']), "the bytes are recoverable from the display")
            P.prove(se == '', "nothing on stderr")
            return
        ctx = P.ctx
        inv = list(ctx.invariants.values())[0]
        hd = spec_hexdump_term(b_mv(inp['data']))
        n = seq_len(hd)
        want = v_snoc(inv.fn(ctx).at(n), val_term(("-------------- PEL End    ----------------", '\n')))
        P.prove(list_term(ctx.stdout) == want, "stdout == begin marker, every hex-dump line of the bytes in order, end marker")
        P.prove(inv.fn(ctx).at(0) == list_term([("-------------- PEL Begin  ----------------", '\n')]), "the display starts with the begin marker")
        P.prove(len(ctx.stderr) == 0, "nothing on stderr")
        P.prove(len(ctx.fs) == 0, "no file-system effect")


def b_mv(data):
    return SBytes(data.arr, data.off, data.ln, 'memoryview', data.root)


UNITS = [HexdumpDefault, ParseLine, ParseComment, HexPrint]
