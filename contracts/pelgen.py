"""Structured random PEL generator for the bounded companions and CLI harnesses (native side only)."""
import json

CREATORS = b"BCHKLMOPST"


def bcd_time(rng):
    return bytes([0x20, 0x24, rng.choice([1, 0x12, 0x09]), rng.choice([1, 0x28, 0x15]), rng.choice([0, 0x23, 0x09]),
                  rng.choice([0, 0x59]), rng.choice([0, 0x30]), rng.randrange(256)])


def hdr(sid, length, ver=1, sub=0, comp=0x1000):
    return sid + length.to_bytes(2, 'big') + bytes([ver, sub]) + comp.to_bytes(2, 'big')


def gen_ph(rng, count, creator=None, eid=None, plid=None, obmc=None):
    creator = creator if creator is not None else rng.choice(CREATORS)
    eid = rng.getrandbits(32) if eid is None else eid
    plid = rng.choice([eid, rng.getrandbits(32), rng.randrange(0x10000)]) if plid is None else plid
    obmc = rng.randrange(1, 5000) if obmc is None else obmc
    body = bcd_time(rng) + bcd_time(rng) + bytes([creator, 0, 0, count]) + obmc.to_bytes(4, 'big') + \
        rng.getrandbits(64).to_bytes(8, 'big') + plid.to_bytes(4, 'big') + eid.to_bytes(4, 'big')
    return hdr(b'PH', 48, comp=rng.choice([0x1000, 0x2000, 0xE500, 0x4142])) + body


def gen_uh(rng, sev=None, flags=None):
    sev = rng.choice([0x00, 0x10, 0x20, 0x40, 0x51, 0x05, 0x61, 0x71]) if sev is None else sev
    flags = rng.choice([0xA800, 0x2000, 0x6000, 0x8000, 0x0000, 0xC000, rng.randrange(65536)]) if flags is None else flags
    body = bytes([rng.choice([0x10, 0x20, 0x76, 0x99]), rng.choice([1, 3, 9]), sev, rng.choice([0, 1, 8, 9]), 0, 0, 0, 0,
                  rng.randrange(256), rng.randrange(256)]) + flags.to_bytes(2, 'big') + bytes([0, 0, rng.randrange(5), rng.randrange(5)])
    return hdr(b'UH', 24) + body


def text(rng, n, fill=b'\0'):
    k = rng.randrange(0, n + 1)
    return (bytes(rng.choice(b"ABCXYZ0189-_ .") for _ in range(k)) + fill * n)[:n]


def gen_callout(rng):
    loc = text(rng, rng.choice([0, 4, 8, 16]), b'\0')
    subs = b''
    if rng.random() < 0.8:
        fl = rng.choice([0x10, 0x20, 0x40]) | rng.randrange(16)
        s = b''
        if fl & 0x0A:
            s += text(rng, 8)
        if fl & 0x04:
            s += text(rng, 4)
        if fl & 0x01:
            s += text(rng, 12)
        subs += b'ID' + bytes([4 + len(s), fl]) + s
    if rng.random() < 0.4:
        name = text(rng, rng.choice([0, 4, 12]))
        subs += b'PE' + bytes([24 + len(name), 0]) + text(rng, 8) + text(rng, 12) + name
    if rng.random() < 0.4:
        n = rng.randrange(0, 16)
        subs += b'MR' + bytes([8 + 8 * n, n]) + bytes(4) + b''.join(rng.getrandbits(32).to_bytes(4, 'big') * 1 + rng.getrandbits(32).to_bytes(4, 'big')
                                                                    for _ in range(n))
    size = 4 + len(loc) + len(subs)
    return bytes([size, rng.randrange(256), rng.choice([0x48, 0x4D, 0x41, 0x4C, 0x00]), len(loc)]) + loc + subs


def gen_src(rng, sid=b'PS', callouts=None):
    callouts = rng.randrange(0, 4) if callouts is None else callouts
    kind = rng.choice([b'BD', b'11', b'BC', b'B7'])
    asc = (kind + rng.choice([b'00', b'8A']) + rng.choice([b'2030', b'1010', b'E510', b'9999']) + rng.choice([b' ', b' ', b'\0']) * 24)[:32]
    cs = b''.join(gen_callout(rng) for _ in range(callouts))
    sub = b''
    flags = rng.choice([0x00, 0x80, 0x14])
    if callouts or rng.random() < 0.1:
        flags |= 1
        while (4 + len(cs)) % 4:
            cs += b''          # callout sizes are not padded here; pad inside the last callout's location code instead
            break
        total = 4 + len(cs)
        if total % 4:
            # make the subsection a whole number of words by growing the last callout's trailing MRU-free padding: regenerate
            return gen_src(rng, sid, callouts)
        sub = bytes([0xC0, 0]) + (total // 4).to_bytes(2, 'big') + cs
    wc = rng.choice([9, 9, 9, 5, 2, 1])
    body = bytes([2, flags, 0, wc, 0, 0]) + (72 + len(sub)).to_bytes(2, 'big') + \
        b''.join(rng.getrandbits(32).to_bytes(4, 'big') for _ in range(8)) + asc + sub
    return hdr(sid, 8 + len(body), comp=0x1000) + body


def gen_section(rng):
    k = rng.choice(['SS', 'EH', 'MT', 'LP', 'UD', 'UDJ', 'UDT', 'ED', 'DH', 'XX', 'RND'])
    if k == 'SS':
        return gen_src(rng, b'SS')
    if k == 'EH':
        sym = text(rng, rng.choice([0, 4, 20]), b'\0')
        body = text(rng, 8) + text(rng, 12) + text(rng, 16) + text(rng, 16) + bytes(4) + bcd_time(rng) + bytes(3) + bytes([len(sym)]) + sym
        return hdr(b'EH', 8 + len(body)) + body
    if k == 'MT':
        return hdr(b'MT', 28) + text(rng, 8) + text(rng, 12)
    if k == 'LP':
        name = text(rng, rng.choice([0, 5, 8]), b'\0')
        n = rng.randrange(0, 5)
        body = rng.randrange(65536).to_bytes(2, 'big') + bytes([len(name), n]) + rng.getrandbits(32).to_bytes(4, 'big') + name + \
            b''.join(rng.randrange(65536).to_bytes(2, 'big') for _ in range(n)) + (bytes(2) if n % 2 else b'')
        return hdr(b'LP', 8 + len(body)) + body
    if k == 'UDJ':
        pay = json.dumps({"key": "va\"l: ue", "n": [1, 2]}).encode() + b'\0' * rng.randrange(0, 4)
        return hdr(b'UD', 8 + len(pay), sub=1, comp=0x2000) + pay
    if k == 'UDT':
        pay = b'line one\nhe said "x": y\n\x01tab\there~' + b'\0' * rng.randrange(0, 4)
        return hdr(b'UD', 8 + len(pay), sub=3, comp=0x2000) + pay
    if k == 'UD':
        pay = bytes(rng.randrange(256) for _ in range(rng.choice([0, rng.randrange(1, 40), rng.randrange(1, 40), rng.randrange(1, 40)])))
        comp = rng.choice([0x2000, 0xE500, 0x2C00, 0x1234])
        # built-in JSON/text formats (BMC component 0x2000, subtypes 1 and 3) carry text: generated separately (UDJ/UDT)
        sub = rng.choice([0, 2, 4, 5]) if comp == 0x2000 else rng.randrange(6)
        return hdr(b'UD', 8 + len(pay), sub=sub, comp=comp, ver=rng.choice([1, 2])) + pay
    if k == 'ED':
        pay = bytes(rng.randrange(256) for _ in range(rng.choice([0, rng.randrange(1, 30), rng.randrange(1, 30), rng.randrange(1, 30)])))
        return hdr(b'ED', 12 + len(pay), comp=rng.choice([0x2000, 0x9999])) + bytes([rng.choice(CREATORS), 0, 0, 0]) + pay
    sid = {'DH': b'DH', 'XX': b'XX'}.get(k) or bytes([rng.randrange(256), rng.randrange(256)])
    if sid in (b'PS', b'SS', b'EH', b'MT', b'LP', b'UD', b'ED'):
        sid = b'ZZ'
    pay = bytes(rng.randrange(256) for _ in range(rng.choice([0, rng.randrange(1, 40), rng.randrange(1, 40), rng.randrange(1, 40)])))
    return hdr(sid, 8 + len(pay)) + pay


def gen_pel(rng, max_sections=6, primary=None, **ph):
    secs = []
    if primary is None:
        primary = rng.random() < 0.7
    if primary:
        secs.append(gen_src(rng, b'PS'))
    for _ in range(rng.randrange(0, max_sections)):
        secs.append(gen_section(rng))
    uh_args = {k: ph.pop(k) for k in ('sev', 'flags') if k in ph}
    parts = [gen_ph(rng, 2 + len(secs), **ph), gen_uh(rng, **uh_args)] + secs
    return b''.join(parts), [len(p) for p in parts]
