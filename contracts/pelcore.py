"""C01: every PEL section is decoded once, in order, from exactly its own bytes (parseHeader, section dispatch,
length-driven sections, parsePEL loop, buildOutput naming/numbering)."""
import z3

from contracts.common import *
from pyvc.unit import Unit, Contract, LoopInv
from pyvc.seq import Chunk, list_term, val_term, Val, v_snoc, v_nil, RecFn, dict_term
from pyvc.values import Opq, I, SBytes, SStr, is_z3, OpaqueVal, Obj, lit, Raised, ExcObj, Choice, Unsupported
from pyvc import ops as _ops
from pyvc.interp import lookup_qualname, BoundMethod
from pyvc.models import LazySeq, DumpedStr
from contracts.iodrawer import CHexdump, spec_hexdump_term
from contracts.srcsec import havoc_cursor

PT = "pel.peltool."
PM = PT + "peltool."

KINDS = {0x5053: 'SRC', 0x5353: 'SRC', 0x4548: 'EH', 0x4D54: 'MT', 0x4544: 'ED', 0x5544: 'UD', 0x4C50: 'LP'}


def spec_section_name(sid):
    """name of a section id: its two ASCII characters through the published table, else 'Unknown'"""
    hi, lo = band(shr(sid, 8), 0xFF), band(sid, 0xFF)
    if is_z3(sid):
        return table(T('sectionNames'), mkstr([hi, lo]), 'Unknown')
    return T('sectionNames').get(chr(hi) + chr(lo), 'Unknown')


def body_len(kind, d, p, section_len):
    """bytes a section of this kind consumes after its 8-byte header, as a function of its content at p"""
    if kind == 'SRC':
        return 72 + If(bit(byte(d, p + 1), 0x01), 4 * be(d, p + 74, 2), 0)
    if kind == 'EH':
        return 68 + byte(d, p + 67)
    if kind == 'MT':
        return 20
    if kind == 'LP':
        n = byte(d, p + 3)
        return 8 + byte(d, p + 2) + 2 * n + If(mod(n, 2) == 1, 2, 0)
    return section_len - 8          # UD, ED and every other id: length-driven


def min_len(kind):
    return {'UD': 8, 'ED': 12, 'other': 8}.get(kind, 0)


class ParseHeader(Unit):
    prop = "C01"
    name = "parseHeader"
    target = PM + "parseHeader"
    contracts = DS_CONTRACTS

    def inputs(self, S):
        return dict(stream=mk_stream(S))

    def pre(self, S, inp):
        s = inp['stream']
        return And(ds_invariant(s), field(s, 'index') + 8 <= field(s, 'size'))

    def check(self, P, inp, old, out):
        P.prove(out.returned, "returns when 8 header bytes are present")
        if out.returned:
            d, o = old['stream'].data, old['stream'].index
            want = (be(d, o, 2), be(d, o + 2, 2), byte(d, o + 4), byte(d, o + 5), be(d, o + 6, 2))
            P.prove(Eq(tuple(out.value), want), "(id, length, version, subtype, component) == the big-endian header fields")
            P.prove(Eq(field(inp['stream'], 'index'), o + 8), "cursor advanced by the 8-byte header")


class SectionName(Unit):
    prop = "C01"
    name = "getSectionName"
    target = PM + "getSectionName"

    def inputs(self, S):
        return dict(sectionID=S.int("sectionID", 0, 0xFFFF))

    def check(self, P, inp, old, out):
        P.prove(out.returned, "returns")
        if out.returned:
            P.prove(Eq(out.value, spec_section_name(inp['sectionID'])),
                    "name of the two-character type through the published table; every other id is 'Unknown'")


class CParseHeader(Contract):
    target = PM + "parseHeader"

    def model(self, it, stream):
        ctx = it.ctx
        d, o = field(stream, 'data'), field(stream, 'index')
        if not ctx.decide(zint(o) + 8 <= zint(field(stream, 'size'))):
            stream.index = havoc_cursor(ctx, stream)
            raise Raised(ExcObj(AssertionError, ("range check failure",)))
        stream.index = simp(zint(o) + 8)
        return (be(d, o, 2), be(d, o + 2, 2), byte(d, o + 4), byte(d, o + 5), be(d, o + 6, 2))


# ------------------------------------------------------------------ length-driven sections
class DefaultSec(SectionUnit):
    prop = "C01"
    name = "Default (hexdump-only section)"
    target = PT + "default.Default.toJSON"
    cls = PT + "default.Default"
    with_creator = False
    contracts = DS_CONTRACTS + [CHexdump]

    def pre(self, S, inp):
        s = inp['stream']
        return And(ds_invariant(s), inp['sectionLen'] >= 8, field(s, 'index') + inp['sectionLen'] - 8 <= field(s, 'size'))

    def check(self, P, inp, old, out):
        P.prove(out.returned, "decodes when the declared payload is present")
        if not out.returned:
            return
        obj, js = out.value
        d, o = old['stream'].data, old['stream'].index
        n = inp['sectionLen'] - 8
        P.prove(Eq(field(inp['stream'], 'index'), o + n), "consumes exactly sectionLen - 8 bytes")
        if P.symbolic:
            payload = memoryview(b'') if branch(Eq(n, 0)) else view_mv(d, o, n)      # header-only section: the dump of nothing
            items = [("Section Version", inp['versionID']), ("Sub-section type", inp['subType']),
                     ("Created by", Num(inp['componentID'])), ("Data", [Chunk(spec_hexdump_term(payload))])]
            check_dict(P, js, items, "Default")
        else:
            from pel.hexdump import hexdump
            P.prove(js["Data"] == hexdump(memoryview(bytes(d[o:o + n]))), "Data == hex dump of exactly the payload bytes")


def view_mv(d, o, n):
    v = view(d, o, n)
    if isinstance(v, SBytes):
        return SBytes(v.arr, v.off, v.ln, 'memoryview', v.root)
    return memoryview(v)


class UDInit(SectionUnit):
    prop = "C01"
    name = "UserData / ExtUserData constructors"
    target = PT + "user_data.UserData.__init__"
    cls = PT + "user_data.UserData"
    shards = 2

    def inputs(self, S):
        # (set per evaluation BEFORE building the inputs: the unit object is reused across shards in one process)
        if self.shard == 1:
            self.cls = PT + "ext_user_data.ExtUserData"
            self.with_creator = False
        else:
            self.cls = PT + "user_data.UserData"
            self.with_creator = True
        inp = SectionUnit.inputs(self, S)
        if self.shard == 1:
            inp.pop('creatorID', None)
        return inp

    def pre(self, S, inp):
        s = inp['stream']
        lo = 12 if self.shard == 1 else 8        # a section may consist of its header alone (empty payload)
        d, o = field(s, 'data'), field(s, 'index')
        return And(ds_invariant(s), inp['sectionLen'] >= lo, field(s, 'index') + inp['sectionLen'] - 8 <= field(s, 'size'),
                   Implies(self.shard == 1, byte(d, o) < 128))

    def call(self, it, inp):
        return it.call(lookup_qualname(self.cls), self.ctor_args(inp))

    def call_native(self, inp):
        import importlib
        mod, cname = self.cls.rsplit('.', 1)
        return getattr(importlib.import_module(mod), cname)(*self.ctor_args(inp))

    def check(self, P, inp, old, out):
        P.prove(out.returned, "constructs when the declared payload is present")
        if not out.returned:
            return
        obj = out.value
        d, o = old['stream'].data, old['stream'].index
        n = inp['sectionLen'] - 8
        P.prove(Eq(field(inp['stream'], 'index'), o + n), "consumes exactly sectionLen - 8 bytes")
        if self.shard == 1:
            P.prove(same_view(field(obj, 'data'), view(d, o + 4, n - 4)), "payload == the bytes after the 4-byte creator word")
            P.prove(Eq(field(obj, 'creatorID'), ascii_text(d, o, 1)), "section creator == first payload byte")
        else:
            P.prove(same_view(field(obj, 'data'), view(d, o, n)), "payload == exactly the section's bytes after its header")


# ------------------------------------------------------------------ section dispatch
def v_section_json(kind, pos):
    return ufun('spec_section_json_' + kind, z3.IntSort(), Val)(zint(pos))


class CSectionClass(Contract):
    """constructor of a section class: stores its arguments; length-driven classes consume their payload here"""

    def __init__(self, target, kind, with_creator):
        self.target = target
        self.kind = kind
        self.with_creator = with_creator

    def model(self, it, stream, sectionID, sectionLen, versionID, subType, componentID, creatorID=None):
        ctx = it.ctx
        o = field(stream, 'index')
        obj = Obj(lookup_qualname(self.target), dict(stream=stream, sectionID=sectionID, sectionLen=sectionLen,
                                                     versionID=versionID, subType=subType, componentID=componentID,
                                                     creatorID=creatorID, _pos=o, _kind=self.kind))
        ctx.new_ids.add(id(obj))
        if self.kind in ('UD', 'ED', 'other'):
            n = simp(zint(sectionLen) - 8)
            if not ctx.decide(And(zint(sectionLen) >= min_len(self.kind), zint(o) + n <= zint(field(stream, 'size')))):
                stream.index = havoc_cursor(ctx, stream)
                raise Raised(ExcObj(AssertionError, ("range check failure",)))
            stream.index = simp(zint(o) + n)
        return obj


class CSectionToJSON(Contract):
    """toJSON of a section class (proved per class in C02/C03/C04): a function of the section's own bytes;
    content-driven classes consume body_len(content) bytes here"""

    def __init__(self, target, kind):
        self.target = target
        self.kind = kind

    def model(self, it, obj, config=None):
        ctx = it.ctx
        stream = field(obj, 'stream') if has_field(obj, 'stream') and field(obj, 'stream') is not None else None
        p = field(obj, '_pos')
        if self.kind not in ('UD', 'ED', 'other'):
            d, o = field(stream, 'data'), field(stream, 'index')
            n = body_len(self.kind, d, o, field(obj, 'sectionLen'))
            ok = ufun('section_decodes_' + self.kind, z3.IntSort(), z3.BoolSort())(zint(p))
            if not ctx.decide(And(ok, zint(o) + zint(n) <= zint(field(stream, 'size')))):
                stream.index = havoc_cursor(ctx, stream)
                raise Raised(ExcObj(Exception, ("section content cannot be decoded (C05)",)))
            stream.index = simp(zint(o) + zint(n))
        return OpaqueVal(v_section_json(self.kind, p), 'val')


SECTION_CLASSES = [
    (PT + "src.SRC", 'SRC', True), (PT + "extend_user_header.ExtendedUserHeader", 'EH', True),
    (PT + "failing_mtms.FailingMTMS", 'MT', True), (PT + "ext_user_data.ExtUserData", 'ED', False),
    (PT + "user_data.UserData", 'UD', True), (PT + "imp_partition.ImpactedPartition", 'LP', True),
    (PT + "default.Default", 'other', False)]


def section_contracts():
    cs = []
    for tgt, kind, wc in SECTION_CLASSES:
        cs.append(CSectionClass(tgt, kind, wc))
        cs.append(CSectionToJSON(tgt + ".toJSON", kind))
    return cs


def kind_of(sid):
    """section kind of an id (forks)"""
    for k, v in KINDS.items():
        if branch(Eq(sid, k)):
            return v
    return 'other'


class SectionFun(Unit):
    prop = "C01"
    name = "sectionFun (dispatch on the section id)"
    target = PM + "sectionFun"

    @property
    def contracts(self):
        return DS_CONTRACTS + section_contracts()

    def inputs(self, S):
        from collections import OrderedDict
        return dict(stream=mk_stream(S), out=OrderedDict(), sectionID=S.int("sectionID", 0, 0xFFFF),
                    sectionLen=S.int("sectionLen", 0, 0xFFFF), versionID=S.int("versionID", 0, 255), subType=S.int("subType", 0, 255),
                    componentID=S.int("componentID", 0, 0xFFFF), creatorID=S.text("creator", 1),
                    config=S.obj(PT + "config.Config", allow_plugins=S.bool("allow_plugins")))

    def pre(self, S, inp):
        return ds_invariant(inp['stream'])

    def check(self, P, inp, old, out):
        if not P.symbolic:
            return
        d, o = old['stream'].data, old['stream'].index
        kind = kind_of(inp['sectionID'])
        if not out.returned:
            P.prove(len(inp['out']) == 0, "a section that fails to decode adds nothing")
            return
        js = inp['out']
        P.prove(len(js) == 1, "exactly one entry is added for the section")
        if len(js) != 1:
            return
        (k, v), = js.items()
        P.prove(Eq(k, spec_section_name(inp['sectionID'])), "the entry is named after the section's two-character type")
        P.prove(isinstance(v, OpaqueVal) and v.term.eq(v_section_json(kind, o)),
                "its value is what the decoder for that id (everything unlisted: the hex-dump decoder) makes of the bytes at the cursor")
        P.prove(Eq(field(inp['stream'], 'index'), o + body_len(kind, d, o, inp['sectionLen'])),
                "the cursor advances by the section's own body length")


class CSectionFun(Contract):
    target = PM + "sectionFun"

    def model(self, it, stream, out, sectionID, sectionLen, versionID, subType, componentID, creatorID, config):
        ctx = it.ctx
        d, o = field(stream, 'data'), field(stream, 'index')
        # opaque at this level: kind and body length as functions of (id, content)
        blen_ = ufun('spec_body_len', z3.IntSort(), z3.IntSort(), z3.IntSort(), z3.IntSort())(zint(sectionID), zint(o), zint(sectionLen))
        ok = ufun('spec_section_ok', z3.IntSort(), z3.IntSort(), z3.IntSort(), z3.BoolSort())(zint(sectionID), zint(o), zint(sectionLen))
        if not ctx.decide(ok):
            stream.index = havoc_cursor(ctx, stream)
            raise Raised(ExcObj(Exception, ("section cannot be decoded (C05)",)))
        ctx.assume(z3.And(blen_ >= 0, zint(o) + blen_ <= zint(field(stream, 'size'))))
        it.note_write(out, None, "out")
        name = spec_section_name(sectionID)
        if isinstance(name, Choice):
            # when the path condition already fixes the name, store under the concrete key (so that code looking the entry
            # up by its literal name finds it)
            for c, v in name.alts:
                if ctx.is_true(c):
                    name = v
                    break
        out[name] = OpaqueVal(ufun('spec_section_value', z3.IntSort(), z3.IntSort(), Val)(zint(sectionID), zint(o)), 'val')
        stream.index = simp(zint(o) + blen_)
        return None


UNITS = [ParseHeader, SectionName, DefaultSec, UDInit, SectionFun]


# ------------------------------------------------------------------ generatePH / generateUH
class GeneratePH(Unit):
    prop = "C01"
    name = "generatePH / generateUH"
    target = PM + "generatePH"
    contracts = DS_CONTRACTS + [CDisplayCompID]
    shards = 2

    def inputs(self, S):
        from collections import OrderedDict
        d = dict(stream=mk_stream(S))
        if self.shard == 1:
            d['creatorID'] = S.text("creator", 1)
        d['out'] = OrderedDict()
        return d

    def pre(self, S, inp):
        s = inp['stream']
        d, o = field(s, 'data'), field(s, 'index')
        need = 48 if self.shard == 0 else 24
        return And(ds_invariant(s), o + need <= field(s, 'size'),
                   byte(d, o + 24) < 128 if self.shard == 0 else creator_char(inp['creatorID']) < 128)

    def call(self, it, inp):
        fn = lookup_qualname(PM + ("generatePH" if self.shard == 0 else "generateUH"))
        return it.call(fn, list(inp.values()))

    def call_native(self, inp):
        from pel.peltool import peltool
        import io, contextlib
        err = io.StringIO()
        with contextlib.redirect_stderr(err):
            r = (peltool.generatePH if self.shard == 0 else peltool.generateUH)(*list(inp.values()))
        self._stderr = err.getvalue()
        return r

    def check(self, P, inp, old, out):
        P.prove(out.returned, "returns when the header section is present")
        if not out.returned:
            return
        d, o = old['stream'].data, old['stream'].index
        want_id = 0x5048 if self.shard == 0 else 0x5548
        name = "Private Header" if self.shard == 0 else "User Header"
        ret, obj = out.value
        js = inp['out']
        if branch(Eq(be(d, o, 2), want_id)):
            P.prove(ret is True, "succeeds when the section id is %s" % ("PH" if self.shard == 0 else "UH"))
            P.prove(list(js.keys()) == [name] and isinstance(js.get(name), dict), "adds exactly one entry named '%s'" % name)
            P.prove(Eq(field(inp['stream'], 'index'), o + (48 if self.shard == 0 else 24)), "consumes the 8-byte header and the fixed body")
            b = o + 8
            if self.shard == 0:
                P.prove(Eq(field(obj, 'sectionCount'), byte(d, o + 27)), "section count is byte 19 of the body")
                # every attribute the callee contract (CGeneratePH) exposes to callers
                P.prove(Eq(field(obj, 'creatorID'), ascii_text(d, b + 16, 1)), "creator id is the character at body offset 16")
                P.prove(Eq(field(obj, 'obmcLogID'), be(d, b + 20, 4)), "BMC log id is the 32-bit word at body offset 20")
                P.prove(Eq(field(obj, 'pLID'), cat("0x", fmt(be(d, b + 32, 4), 'X', 8, '0'))), "platform log id: 0x + 8 hex digits of the word at 32")
                P.prove(Eq(field(obj, 'lEID'), cat("0x", fmt(be(d, b + 36, 4), 'X', 2, '0'))), "entry id: 0x + hex of the word at 36")
                P.prove(Eq(field(obj, 'createTime'), spec_timestamp(d, b)), "create time: BCD timestamp at body offset 0")
                P.prove(Eq(field(obj, 'commitTime'), spec_timestamp(d, b + 8)), "commit time: BCD timestamp at body offset 8")
            else:
                P.prove(Eq(field(obj, 'eventSeverity'), byte(d, b + 2)), "event severity is body byte 2")
                P.prove(Eq(field(obj, 'actionFlags'), be(d, b + 10, 2)), "action flags are the 16-bit word at body offset 10")
        else:
            P.prove(ret is False and obj is None, "reports failure for any other section id")
            P.prove(len(js) == 0, "adds nothing for a wrong section id")
            P.prove(Eq(field(inp['stream'], 'index'), o + 8), "only the 8-byte header was read")
            if P.symbolic:
                P.prove(len(P.ctx.stdout) == 0 and len(P.ctx.stderr) == 1, "the diagnostic goes to stderr only")
            else:
                P.prove(self._stderr != '', "the diagnostic goes to stderr")


# ------------------------------------------------------------------ buildOutput: exhaustive over equality patterns
def spec_numbered(names):
    """bare name if it occurs once, else name + ' ' + number of earlier occurrences"""
    out = []
    for i, n in enumerate(names):
        if names.count(n) == 1:
            out.append(n)
        else:
            out.append("%s %d" % (n, names[:i].count(n)))
    return out


def build_output_enum(tier, seed):
    import time, random
    from collections import OrderedDict
    from pel.peltool.peltool import buildOutput
    t0 = time.time()
    rng = random.Random(seed)
    names = list(T('sectionNames').values())
    names = [n for n in names if n not in ("Private Header", "User Header")] + ["Unknown"]
    obs = []
    # lemma: no published name is another name followed by ' ' and digits (numbered keys cannot collide)
    import re
    allnames = list(T('sectionNames').values()) + ["Unknown"]
    clash = [(a, b) for a in allnames for b in allnames if re.fullmatch(re.escape(b) + r' \\d+', a)]
    obs.append(dict(name="buildOutput: no section name equals another name followed by ' <digits>'", solver='enum', kind='E',
                    status='discharged' if not clash else 'failed', goal=str(clash), secs=0.0,
                    replay=dict(kind='custom', reproduced=True, native=clash)))
    bad = None
    evals = 0
    maxn = 9 if tier == 'quick' else 11

    def run(seq):
        secs = [OrderedDict([(n, ("value", i))]) for i, n in enumerate(seq)]
        out = OrderedDict([("Private Header", "ph"), ("User Header", "uh")])
        buildOutput(secs, out)
        want = OrderedDict([("Private Header", "ph"), ("User Header", "uh")])
        for k, (n, i) in zip(spec_numbered(list(seq)), [(n, i) for i, n in enumerate(seq)]):
            want[k] = ("value", i)
        return list(out.items()) == list(want.items()), list(out.items())

    def partitions(n):
        # restricted growth strings
        def rec(prefix, m):
            if len(prefix) == n:
                yield prefix
                return
            for v in range(m + 1):
                yield from rec(prefix + [v], max(m, v + 1) if v == m else m)
        yield from rec([], 0)
    for n in range(0, maxn + 1):
        for rgs in partitions(n):
            pick = rng.sample(names, max(rgs) + 1) if rgs else []
            seq = [pick[v] for v in rgs]
            ok, got = run(seq)
            evals += 1
            if not ok:
                bad = dict(sections=seq, got=got)
                break
        if bad:
            break
    obs.append(dict(name="buildOutput: one entry per section in log order, repeated names numbered 0,1,2.. (all equality patterns, n<=%d)" % maxn,
                    solver='enum', kind='E', status='failed' if bad else 'discharged', secs=time.time() - t0,
                    goal="out == {PH, UH} + numbered(names) with values carried over; %d patterns" % evals,
                    replay=dict(kind='custom', reproduced=True, native=bad)))
    bad2 = None
    ev2 = 0
    for _ in range(300 if tier == 'quick' else 3000):
        n = rng.choice([8, 9, 16, 40, 100, 253])
        seq = [rng.choice(names[:rng.randrange(1, len(names))]) for _ in range(n)]
        ok, got = run(seq)
        ev2 += 1
        if not ok:
            bad2 = dict(sections=seq)
            break
    obs.append(dict(name="buildOutput numbering for 8..253 sections (bounded)", kind='B', solver='bounded',
                    status='failed' if bad2 else 'discharged', evaluations=ev2, secs=0.0, bound="%d random sequences of 8..253 sections" % ev2,
                    replay=dict(kind='custom', reproduced=True, native=bad2)))
    return obs, {}


UNITS = [ParseHeader, SectionName, DefaultSec, UDInit, SectionFun, GeneratePH]


# ------------------------------------------------------------------ parsePEL
def v_ph_json(pos):
    return ufun('spec_ph_json', z3.IntSort(), Val)(zint(pos))


def v_uh_json(pos):
    return ufun('spec_uh_json', z3.IntSort(), Val)(zint(pos))


class CGeneratePH(Contract):
    """generatePH as proved above and in C02 (PrivateHeader.toJSON)"""
    target = PM + "generatePH"

    def model(self, it, stream, out):
        ctx = it.ctx
        d, o = field(stream, 'data'), field(stream, 'index')
        if not ctx.decide(zint(o) + 8 <= zint(field(stream, 'size'))):
            stream.index = havoc_cursor(ctx, stream)
            raise Raised(ExcObj(AssertionError, ("range check failure",)))
        if not ctx.decide(Eq(be(d, o, 2), 0x5048)):
            stream.index = simp(zint(o) + 8)
            ctx.emit('stderr', (cat("Failed to parse Private Header, section ID = ", fmt(be(d, o, 2), 'x')), '\n'))
            return (False, None)
        if not ctx.decide(And(zint(o) + 48 <= zint(field(stream, 'size')), byte(d, o + 24) < 128)):
            stream.index = havoc_cursor(ctx, stream)
            raise Raised(ExcObj(Exception, ("truncated Private Header or non-ASCII creator (C05)",)))
        b = o + 8
        ph = Obj(lookup_qualname(PT + "private_header.PrivateHeader"), dict(
            stream=stream, sectionCount=byte(d, b + 19), creatorID=ascii_text(d, b + 16, 1), obmcLogID=be(d, b + 20, 4),
            pLID=cat("0x", fmt(be(d, b + 32, 4), 'X', 8, '0')), lEID=cat("0x", fmt(be(d, b + 36, 4), 'X', 2, '0')),
            commitTime=spec_timestamp(d, b + 8), createTime=spec_timestamp(d, b), _pos=o))
        it.note_write(out, None, "out")
        out["Private Header"] = OpaqueVal(v_ph_json(o), 'val')
        stream.index = simp(zint(o) + 48)
        return (True, ph)


class CGenerateUH(Contract):
    target = PM + "generateUH"

    def model(self, it, stream, creatorID, out):
        ctx = it.ctx
        d, o = field(stream, 'data'), field(stream, 'index')
        if not ctx.decide(zint(o) + 8 <= zint(field(stream, 'size'))):
            stream.index = havoc_cursor(ctx, stream)
            raise Raised(ExcObj(AssertionError, ("range check failure",)))
        if not ctx.decide(Eq(be(d, o, 2), 0x5548)):
            stream.index = simp(zint(o) + 8)
            ctx.emit('stderr', (cat("Failed to parse User Header, section ID = ", fmt(be(d, o, 2), 'd')), '\n'))
            return (False, None)
        if not ctx.decide(zint(o) + 24 <= zint(field(stream, 'size'))):
            stream.index = havoc_cursor(ctx, stream)
            raise Raised(ExcObj(AssertionError, ("range check failure",)))
        b = o + 8
        uh = Obj(lookup_qualname(PT + "user_header.UserHeader"), dict(
            stream=stream, eventSeverity=byte(d, b + 2), actionFlags=be(d, b + 10, 2), _pos=o))
        it.note_write(out, None, "out")
        out["User Header"] = OpaqueVal(v_uh_json(o), 'val')
        stream.index = simp(zint(o) + 24)
        return (True, uh)


def spec_selected(uh, config):
    return ufun('spec_selected', z3.IntSort(), z3.IntSort(), z3.IntSort(), z3.BoolSort())(
        zint(field(uh, 'eventSeverity')), zint(field(uh, 'actionFlags')), z3.Int('config_id'))


class CConsiderPEL(Contract):
    """considerPEL (C07): a function of (severity, action flags, options)"""
    target = PM + "considerPEL"

    def model(self, it, uh, config):
        return spec_selected(uh, config)


def v_numbered(sections_term):
    return ufun('spec_numbered_sections', Val, Val)(sections_term)


class CBuildOutput(Contract):
    """buildOutput (checked by enumeration): appends the sections, named and numbered, to the document"""
    target = PM + "buildOutput"

    def model(self, it, sections, out):
        it.note_write(out, None, "out")
        out['__opaque_update__%d' % len(out)] = OpaqueVal(v_numbered(list_term(sections)), 'val')
        return None


class CPrettyPrint(Contract):
    """prettyPrint (C06): a function of the text that json.loads maps back to the same document"""
    target = PM + "prettyPrint"

    def model(self, it, Mdata, desiredSpace=34):
        if isinstance(Mdata, DumpedStr):
            return DumpedStr([Opq(ufun('spec_pretty', PyStr, z3.IntSort(), PyStr)(str_term(Mdata), zint(desiredSpace)))], Mdata.value, Mdata.indent)
        return mkstr([Opq(ufun('spec_pretty', PyStr, z3.IntSort(), PyStr)(str_term(Mdata), zint(desiredSpace)))])


def pel_fns():
    return (z3.Function('pel_sp', z3.IntSort(), z3.IntSort()), z3.Function('pel_sj', z3.IntSort(), Val))


def sec_id(d, p):
    return be(d, p, 2)


def sec_len(d, p):
    return be(d, p + 2, 2)


def spec_body(d, p):
    return ufun('spec_body_len', z3.IntSort(), z3.IntSort(), z3.IntSort(), z3.IntSort())(zint(sec_id(d, p)), zint(p) + 8, zint(sec_len(d, p)))


def spec_ok(d, p):
    return ufun('spec_section_ok', z3.IntSort(), z3.IntSort(), z3.IntSort(), z3.BoolSort())(zint(sec_id(d, p)), zint(p) + 8, zint(sec_len(d, p)))


def spec_value(d, p):
    return ufun('spec_section_value', z3.IntSort(), z3.IntSort(), Val)(zint(sec_id(d, p)), zint(p) + 8)


class ParsePELInv(LoopInv):
    func = PM + "parsePEL"
    loop = 0
    modifies_locals = ('_', 'sectionID', 'sectionLen', 'versionID', 'subType', 'componentID', 'section_json')

    def heap_targets(self, it, fr):
        return [fr.locals['section_jsons'], (fr.locals['stream'], 'index')]

    def base(self, it, fr):
        ctx = it.ctx
        if not ctx.ghost.get('pel_base'):
            ctx.ghost['pel_base'] = True
            SP, SJ = pel_fns()
            ctx.assume(z3.And(SP(2) == zint(field(fr.locals['stream'], 'index')), SJ(2) == v_nil()))

    def havoc(self, it, fr, k):
        self.base(it, fr)
        SP, SJ = pel_fns()
        fr.locals['stream'].index = SP(zint(k))
        fr.locals['section_jsons'][:] = [Chunk(SJ(zint(k)))]
        # well-formedness of section k (the quantified precondition, instantiated)
        d = field(fr.locals['stream'], 'data')
        it.ctx.assume(ufun('pel_wf', z3.IntSort(), z3.BoolSort())(zint(k)) == wf_section(d, SP(zint(k)), SP(zint(k) + 1),
                                                                                    field(fr.locals['stream'], 'size')))

    def inv(self, it, fr, k):
        self.base(it, fr)
        SP, SJ = pel_fns()
        s = fr.locals['stream']
        return And(Eq(field(s, 'index'), SP(zint(k))), list_term(fr.locals['section_jsons']) == SJ(zint(k)),
                   field(s, 'index') >= 0, field(s, 'index') <= field(s, 'size'))

    def unfold(self, it, fr, k):
        SP, SJ = pel_fns()
        d = field(fr.locals['stream'], 'data')
        p = SP(zint(k))
        name = spec_section_name(sec_id(d, p))
        from collections import OrderedDict
        entry = OrderedDict()
        entry[name] = OpaqueVal(spec_value(d, p), 'val')
        it.ctx.assume(SJ(zint(k) + 1) == v_snoc(SJ(zint(k)), val_term(entry)))
        it.ctx.assume(SP(zint(k) + 1) == p + 8 + spec_body(d, p))      # definition of the next section's position


def wf_section(d, p, nxt, size):
    """section at p is self-consistent with its declared length: header present, content decodable, the bytes it
    consumes are exactly sectionLen, and the next section starts right after it"""
    return simp(z3.And(p + 8 <= zint(size), spec_ok(d, p), spec_body(d, p) == sec_len(d, p) - 8, nxt == p + sec_len(d, p),
                       p + sec_len(d, p) <= zint(size)))


class ParsePEL(Unit):
    prop = "C01"
    name = "parsePEL"
    target = PM + "parsePEL"
    contracts = [CGeneratePH, CGenerateUH, CConsiderPEL, CParseHeader, CSectionFun, CBuildOutput, CPrettyPrint]
    invariants = [ParsePELInv]

    def inputs(self, S):
        return dict(stream=mk_stream(S, index=0), config=S.obj(PT + "config.Config", allow_plugins=S.bool("allow_plugins")),
                    exit_on_error=S.bool("exit_on_error"))

    def pre(self, S, inp):
        s = inp['stream']
        d = field(s, 'data')
        SP, SJ = pel_fns()
        k = z3.Int('k!pelpre')
        cnt = byte(d, 27)
        WF = ufun('pel_wf', z3.IntSort(), z3.BoolSort())
        wf_all = z3.ForAll([k], z3.Implies(z3.And(k >= 2, k < cnt), WF(k)), patterns=[WF(k)])
        return And(ds_invariant(s), 72 <= field(s, 'size'), Eq(be(d, 0, 2), 0x5048), Eq(be(d, 48, 2), 0x5548), byte(d, 24) < 128, wf_all)

    def check(self, P, inp, old, out):
        if not P.symbolic:
            return
        ctx = P.ctx
        s = inp['stream']
        d = field(s, 'data')
        SP, SJ = pel_fns()
        P.prove(out.returned, "a well-formed PEL decodes without error")
        if not out.returned:
            return
        eid, text = out.value
        uh = Obj(None, dict(eventSeverity=byte(d, 58), actionFlags=be(d, 66, 2)))
        if not branch(spec_selected(uh, inp['config'])):
            P.prove(eid == "" and text == "", "a PEL that is filtered out yields ('', '')")
            P.prove(Eq(field(s, 'index'), 72), "only the two headers were read")
            return
        cnt = byte(d, 27)
        P.prove(isinstance(text, DumpedStr), "the second result is the pretty-printed JSON text of the document")
        if not isinstance(text, DumpedStr):
            return
        doc = text.value
        n = If(cnt >= 2, cnt, 2)
        from collections import OrderedDict
        want = OrderedDict()
        want["Private Header"] = OpaqueVal(v_ph_json(0), 'val')
        want["User Header"] = OpaqueVal(v_uh_json(48), 'val')
        want['__opaque_update__2'] = OpaqueVal(v_numbered(SJ(zint(n))), 'val')
        P.prove(val_term(doc) == val_term(want),
                "document == Private Header, User Header, then numbered([name(id_k): value_k for k in 2..count-1]) in log order")
        P.prove(Eq(field(s, 'index'), SP(zint(n))), "the cursor ends right after the last section (sum of the declared lengths)")
        P.prove(field(s, 'index') <= field(s, 'size'), "no section was decoded from bytes past the end of the input")
        P.prove(Eq(eid, fmt(be(d, 44, 4), 'X', 2, '0')), "the entry id returned is the PH entry id without its 0x prefix")


UNITS = [ParseHeader, SectionName, DefaultSec, UDInit, SectionFun, GeneratePH, ParsePEL]


class ParsePELAny(ParsePEL):
    """C05: for ANY byte string: parsePEL either fails with an ordinary exception (SystemExit(1) only for a wrong
    PH/UH id on the -f path) or returns a document that contains every one of the count-2 optional sections, each read
    inside the input - never a partial or fabricated decode"""
    prop = "C05"
    name = "parsePEL (any input)"

    def pre(self, S, inp):
        return ds_invariant(inp['stream'])

    def check(self, P, inp, old, out):
        if not P.symbolic:
            return
        ctx = P.ctx
        s = inp['stream']
        d = field(s, 'data')
        SP, SJ = pel_fns()
        if not out.returned:
            if out.exc_class is SystemExit:
                P.prove(truth(inp['exit_on_error']), "SystemExit only when the caller asked to exit on error (-f)")
                P.prove(out.exc.args == (1,), "exit status 1")
                P.prove(Or(Not(Eq(be(d, 0, 2), 0x5048)), Not(Eq(be(d, 48, 2), 0x5548))), "SystemExit only for a wrong PH/UH section id")
                P.prove(len(ctx.stderr) == 1 and len(ctx.stdout) == 0, "with a diagnostic on stderr, nothing on stdout")
            else:
                P.prove(issubclass(out.exc_class, Exception), "any other failure is an ordinary exception")
            return
        eid, text = out.value
        if isinstance(text, str) and text == "":
            P.prove(eid == "", "('', '') for a PEL that is not a PEL or is filtered out")
            return
        P.prove(isinstance(text, DumpedStr), "otherwise the pretty-printed JSON text of a document")
        if not isinstance(text, DumpedStr):
            return
        cnt = byte(d, 27)
        n = If(cnt >= 2, cnt, 2)
        from collections import OrderedDict
        want = OrderedDict()
        want["Private Header"] = OpaqueVal(v_ph_json(0), 'val')
        want["User Header"] = OpaqueVal(v_uh_json(48), 'val')
        want['__opaque_update__2'] = OpaqueVal(v_numbered(SJ(zint(n))), 'val')
        P.prove(val_term(text.value) == val_term(want), "the document contains every one of the declared sections, in order - none skipped")
        P.prove(And(Eq(field(s, 'index'), SP(zint(n))), field(s, 'index') <= field(s, 'size')),
                "every section was read inside the input (no decode from missing bytes)")
        P.prove(len(ctx.stdout) == 0, "decoding prints nothing on stdout")


C05_UNITS = [ParsePELAny]


# ------------------------------------------------------------------ native sides (bounded companions) of the parsePEL units
def _native_parse(data, exit_on_error=False, **cfg):
    import io, contextlib
    from pel.peltool import peltool
    from pel.peltool.config import Config
    from pel.datastream import DataStream
    c = Config()
    for k, v in cfg.items():
        setattr(c, k, v)
    out, err = io.StringIO(), io.StringIO()
    with contextlib.redirect_stdout(out), contextlib.redirect_stderr(err):
        try:
            r = peltool.parsePEL(DataStream(data, byte_order='big', is_signed=False), c, exit_on_error)
            return ('return', r, out.getvalue(), err.getvalue())
        except SystemExit as e:
            return ('exit', e.code, out.getvalue(), err.getvalue())
        except Exception as e:
            return ('raise', e, out.getvalue(), err.getvalue())


def _isolated_section(sec_bytes, creator):
    """decode one section from a stream that holds only that section"""
    import io, contextlib
    from collections import OrderedDict
    from pel.peltool import peltool
    from pel.peltool.config import Config
    from pel.datastream import DataStream
    st = DataStream(sec_bytes, byte_order='big', is_signed=False)
    out = OrderedDict()
    with contextlib.redirect_stdout(io.StringIO()), contextlib.redirect_stderr(io.StringIO()):
        h = peltool.parseHeader(st)
        peltool.sectionFun(st, out, *h, creator, Config())
    return out, st.index


def _native_inputs_pel(S):
    from contracts.pelgen import gen_pel
    data, parts = gen_pel(S.rng)
    S.log['pel'] = data.hex()
    S.log['parts'] = parts
    return data, parts


class ParsePELNative(Unit):
    """bounded companion of parsePEL (C01): generated well-formed PELs; every section's entry must equal what the
    same section decodes to in isolation"""
    prop = "C01"
    name = "parsePEL on generated PELs (bounded)"
    target = PM + "parsePEL"
    kind = 'B'

    def inputs(self, S):
        if hasattr(S, 'rng'):
            data, parts = _native_inputs_pel(S)
        else:
            data, parts = bytes.fromhex(S.values['pel']), S.values['parts']
        return dict(data=data, parts=parts)

    def call_native(self, inp):
        return _native_parse(inp['data'], every_pel=True)

    def check(self, P, inp, old, out):
        import json
        kind, r, so, se = out.value
        P.prove(kind == 'return' and r[1] != "", "a well-formed PEL decodes to a document")
        if kind != 'return' or r[1] == "":
            return
        doc = json.loads(r[1], object_pairs_hook=list)
        data, parts = inp['data'], inp['parts']
        offs = [sum(parts[:k]) for k in range(len(parts) + 1)]
        names = [spec_section_name(be(data, offs[k], 2)) for k in range(2, len(parts))]
        want_keys = ["Private Header", "User Header"] + spec_numbered(names)
        P.prove([k for k, _ in doc] == want_keys, "one entry per section, in log order, named and numbered as documented")
        creator = chr(data[24])
        ok = True
        for k in range(2, len(parts)):
            iso, used = _isolated_section(data[offs[k]:offs[k + 1]], creator)
            v = json.loads(json.dumps(list(iso.values())[0]), object_pairs_hook=list)
            if k < len(doc) and doc[k][1] != v or used != parts[k]:
                ok = False
        P.prove(ok, "each entry equals the decode of exactly that section's bytes in isolation")
        P.prove(so == "", "nothing printed on stdout while decoding")


class ParsePELPrefixes(Unit):
    """bounded companion of parsePEL (C05): every proper prefix of a generated PEL is rejected, single-byte
    corruptions end in an ordinary exception or a document; under python and python -O"""
    prop = "C05"
    name = "parsePEL on prefixes / corruptions of generated PELs (bounded)"
    target = PM + "parsePEL"
    kind = 'B'
    modes = ('assert', 'O')

    def inputs(self, S):
        if hasattr(S, 'rng'):
            data, parts = _native_inputs_pel(S)
            seed = S.rng.randrange(1 << 30)
            S.log['seed'] = seed
        else:
            data, parts, seed = bytes.fromhex(S.values['pel']), S.values['parts'], S.values.get('seed', 0)
        return dict(data=data, parts=parts, seed=seed)

    def call_native(self, inp):
        import random
        data = inp['data']
        rng = random.Random(inp['seed'])
        res = dict(full=_native_parse(data, every_pel=True), bad_prefix=None, bad_corrupt=None)
        cuts = range(len(data)) if len(data) <= 300 else sorted(set([rng.randrange(len(data)) for _ in range(250)] +
                                                                    [sum(inp['parts'][:k]) + j for k in range(len(inp['parts'])) for j in (0, 1, 7, 8, 9)]))
        for L in cuts:
            if L >= len(data):
                continue
            kind, r, so, se = _native_parse(data[:L], every_pel=True)
            if kind == 'return' and r[1] != "":
                res['bad_prefix'] = L
                break
            if kind == 'raise' and not isinstance(r, Exception):
                res['bad_prefix'] = L
                break
        for _ in range(60):
            pos = rng.randrange(len(data))
            b2 = bytearray(data)
            b2[pos] ^= 1 << rng.randrange(8)
            kind, r, so, se = _native_parse(bytes(b2), every_pel=True)
            if so != "":
                res['bad_corrupt'] = (pos, b2[pos], 'stdout:' + so[:60])
                break
        return res

    def check(self, P, inp, old, out):
        r = out.value
        P.prove(r['full'][0] == 'return' and r['full'][1][1] != "", "the complete PEL decodes")
        P.prove(r['bad_prefix'] is None, "every proper prefix is rejected rather than decoded from missing bytes")
        P.prove(r['bad_corrupt'] is None, "a corrupted PEL never makes the decoder print on stdout")


UNITS = UNITS + [ParsePELNative]
C05_UNITS = C05_UNITS + [ParsePELPrefixes]


# ------------------------------------------------------------------ parsePELSummary (the -l entry of one PEL) - C08
def NOPS():
    """NOPS(k): none of the optional sections 2..k-1 is a primary SRC"""
    return z3.Function('pel_no_ps_before', z3.IntSort(), z3.BoolSort())


class SummaryLoopInv(ParsePELInv):
    """at the head of iteration k: the cursor is at section k, no primary SRC was met so far, the summary is still empty"""
    func = PM + "parsePELSummary"
    loop = 0
    modifies_locals = ('_', 'sectionID', 'sectionLen', 'versionID', 'subType', 'componentID', 'section_json')

    def heap_targets(self, it, fr):
        return [(fr.locals['stream'], 'index'), fr.locals['summary']]

    def base(self, it, fr):
        ctx = it.ctx
        if not ctx.ghost.get('pel_base'):
            ctx.ghost['pel_base'] = True
            SP, SJ = pel_fns()
            ctx.assume(z3.And(SP(2) == zint(field(fr.locals['stream'], 'index')), NOPS()(2)))

    def havoc(self, it, fr, k):
        self.base(it, fr)
        SP, SJ = pel_fns()
        fr.locals['stream'].index = SP(zint(k))
        fr.locals['summary'].clear()
        d = field(fr.locals['stream'], 'data')
        it.ctx.assume(ufun('pel_wf', z3.IntSort(), z3.BoolSort())(zint(k)) == wf_section(d, SP(zint(k)), SP(zint(k) + 1),
                                                                                    field(fr.locals['stream'], 'size')))

    def inv(self, it, fr, k):
        self.base(it, fr)
        SP, SJ = pel_fns()
        s = fr.locals['stream']
        return And(Eq(field(s, 'index'), SP(zint(k))), NOPS()(zint(k)), len(fr.locals['summary']) == 0,
                   field(s, 'index') >= 0, field(s, 'index') <= field(s, 'size'))

    def unfold(self, it, fr, k):
        SP, SJ = pel_fns()
        d = field(fr.locals['stream'], 'data')
        p = SP(zint(k))
        it.ctx.assume(SP(zint(k) + 1) == p + 8 + spec_body(d, p))
        it.ctx.assume(NOPS()(zint(k) + 1) == z3.And(NOPS()(zint(k)), zint(sec_id(d, p)) != 0x5053))


class ParsePELSummary(ParsePEL):
    """the --list entry of one well-formed PEL: every field is the corresponding field of the full decode (same spec terms
    as in the parsePEL unit: spec_ph_json / spec_uh_json / spec_section_value of the FIRST primary SRC section)"""
    prop = "C08"
    name = "parsePELSummary"
    target = PM + "parsePELSummary"
    contracts = [CGeneratePH, CGenerateUH, CConsiderPEL, CParseHeader, CSectionFun]
    invariants = [SummaryLoopInv]

    def inputs(self, S):
        return dict(stream=mk_stream(S, index=0), config=S.obj(PT + "config.Config", allow_plugins=S.bool("allow_plugins")))

    def pre(self, S, inp):
        # shapes of the decoded documents, proved where they are produced: PrivateHeader.toJSON / UserHeader.toJSON key lists
        # (C02 units PH, UH), SRC.toJSON always has 'Reference Code' and an 'Error Details' object always has 'Message'
        # (C03 unit SrcToJSON)
        from pyvc.seq import v_has, v_get
        o = z3.Int('o!srcshape')
        sv = ufun('spec_section_value', z3.IntSort(), z3.IntSort(), Val)(I(0x5053), o)
        shapes = z3.And(v_has(v_ph_json(0), lit("Creator Subsystem")), v_has(v_ph_json(0), lit("Created by")),
                        v_has(v_uh_json(48), lit("Subsystem")), v_has(v_uh_json(48), lit("Event Severity")),
                        z3.ForAll([o], z3.And(v_has(sv, lit("Reference Code")),
                                              z3.Implies(v_has(sv, lit("Error Details")),
                                                         v_has(v_get(sv, lit("Error Details")), lit("Message")))), patterns=[sv]))
        return And(ParsePEL.pre(self, S, inp), shapes)

    def check(self, P, inp, old, out):
        if not P.symbolic:
            return
        from pyvc.seq import v_has, v_get
        ctx = P.ctx
        s = inp['stream']
        d = field(s, 'data')
        SP, SJ = pel_fns()
        lname = self.target + "#loop0"
        P.prove(out.returned, "a well-formed PEL is summarised without error")
        if not out.returned:
            return
        eid, summ = out.value
        uh = Obj(None, dict(eventSeverity=byte(d, 58), actionFlags=be(d, 66, 2)))
        if not branch(spec_selected(uh, inp['config'])):
            P.prove(eid == "" and summ == "", "a PEL that is filtered out yields ('', '') - the same selection as count and display-all")
            P.prove(Eq(field(s, 'index'), 72), "only the two headers were read")
            return
        P.prove(Eq(eid, cat("0x", fmt(be(d, 44, 4), 'X', 2, '0'))), "the key of the entry is the PH entry id as displayed by the full decode")
        P.prove(isinstance(summ, dict), "the summary is a document")
        if not isinstance(summ, dict):
            return
        ph, uhj = v_ph_json(0), v_uh_json(48)
        from collections import OrderedDict
        want = OrderedDict()
        how = ctx.ghost.get(lname + '.exit')
        k = ctx.ghost.get(lname + '.exit_index')
        cnt = byte(d, 27)
        n = If(cnt >= 2, cnt, 2)
        if how == 'break-or-return':
            p = SP(zint(k))
            P.prove(And(NOPS()(zint(k)), Eq(sec_id(d, p), 0x5053), k >= 2, k < n),
                    "the SRC shown is taken from the FIRST primary SRC section of the log")
            src = spec_value(d, p)
            want["SRC"] = OpaqueVal(v_get(src, lit("Reference Code")), 'val')
            if branch(v_has(src, lit("Error Details"))):
                want["Message"] = OpaqueVal(v_get(v_get(src, lit("Error Details")), lit("Message")), 'val')
        else:
            P.prove(And(NOPS()(zint(n)), Eq(k, n)), "no SRC entry only when none of the sections is a primary SRC")
        want["PLID"] = cat("0x", fmt(be(d, 40, 4), 'X', 8, '0'))
        want["CreatorID"] = OpaqueVal(v_get(ph, lit("Creator Subsystem")), 'val')
        want["Subsystem"] = OpaqueVal(v_get(uhj, lit("Subsystem")), 'val')
        want["Commit Time"] = spec_timestamp(d, 16)
        want["Sev"] = OpaqueVal(v_get(uhj, lit("Event Severity")), 'val')
        want["CompID"] = OpaqueVal(v_get(ph, lit("Created by")), 'val')
        P.prove(list(summ.keys()) == list(want.keys()), "entry keys: SRC, (Message,) PLID, CreatorID, Subsystem, Commit Time, Sev, CompID")
        for key in want:
            if key in summ:
                P.prove(val_term(summ[key]) == val_term(want[key]),
                        "list entry field %r == the corresponding field of the full decode" % key)
        P.prove(len(ctx.stdout) == 0, "summarising prints nothing on stdout")


C08_UNITS = [ParsePELSummary]


# ------------------------------------------------------------------ buildOutput for ANY number of sections (C01)
# Spec functions (all uninterpreted, defined by the equations the invariants unfold):
#   NM(j), VAL(j)      name / value of section j
#   CNT(k, i)          number of sections among 0..i-1 named k:  CNT(k,0) = 0, CNT(k,i+1) = CNT(k,i) + [NM(i) = k]
#   KEY(j)             NM(j) if CNT(NM(j), n) = 1 else NM(j) + ' ' + str(CNT(NM(j), j))
#   OUT(i)             out0 ++ [(KEY(j), VAL(j)) for j < i]
def bo_fns():
    return dict(n=z3.Int('bo_n'), NM=z3.Function('bo_name', z3.IntSort(), PyStr), VAL=z3.Function('bo_value', z3.IntSort(), Val),
                CNT=z3.Function('bo_count', PyStr, z3.IntSort(), z3.IntSort()), OUT=z3.Function('bo_out', z3.IntSort(), Val))


def bo_key(j):
    """KEY(j) as a string value (forks on whether the name is unique in the whole log)"""
    f = bo_fns()
    nm = f['NM'](zint(j))
    if branch(f['CNT'](nm, f['n']) == 1):
        return mkstr([Opq(nm)])
    return mkstr([Opq(nm), 32, _ops.fmt_int(None, f['CNT'](nm, zint(j)), 'd')])


def bo_key_term(j):
    """KEY(j) as one term (no forking) - for quantified statements"""
    f = bo_fns()
    nm = f['NM'](zint(j))
    numbered = str_term(mkstr([Opq(nm), 32, _ops.fmt_int(None, f['CNT'](nm, zint(j)), 'd')]))
    return z3.If(f['CNT'](nm, f['n']) == 1, nm, numbered)


def as_fmap(c):
    from pyvc.models import FMap
    if isinstance(c, FMap):
        return c
    if isinstance(c, dict) and len(c) == 0 and not getattr(c, 'sym', None):
        return FMap(z3.K(PyStr, z3.BoolVal(False)), [z3.K(PyStr, I(0)), z3.K(PyStr, I(0))])
    raise Unsupported("counts is neither empty nor an FMap")


def bo_cnt_def_at(k, i):
    """instance of the defining equation of CNT: CNT(k, i+1) = CNT(k, i) + [NM(i) = k]   (i >= 0)"""
    f = bo_fns()
    CNT, NM = f['CNT'], f['NM']
    return z3.Implies(zint(i) >= 0, CNT(k, zint(i) + 1) == CNT(k, zint(i)) + z3.If(NM(zint(i)) == k, 1, 0))


def bo_L2_at(k, a, b):
    """instance of the monotonicity lemma L2"""
    CNT = bo_fns()['CNT']
    return z3.Implies(z3.And(0 <= zint(a), zint(a) <= zint(b)), z3.And(CNT(k, zint(a)) <= CNT(k, zint(b)), CNT(k, zint(a)) >= 0))


def bo_numbered(name, v):
    return str_term(mkstr([Opq(name), 32, _ops.fmt_int(None, v, 'd')]))


def bo_L1_at(ka, a, kb, b):
    return z3.Implies(z3.And(zint(a) >= 0, zint(b) >= 0, bo_numbered(ka, a) == bo_numbered(kb, b)), z3.And(ka == kb, zint(a) == zint(b)))


def bo_cnt_def(ctx, i):
    """the defining equation of CNT at i, for every name"""
    f = bo_fns()
    k = z3.Const('k!cnt', PyStr)
    ctx.assume(z3.ForAll([k], bo_cnt_def_at(k, i)))


def bo_base(ctx):
    if not ctx.ghost.get('bo_base'):
        ctx.ghost['bo_base'] = True
        f = bo_fns()
        k = z3.Const('k!cnt0', PyStr)
        ctx.assume(z3.ForAll([k], f['CNT'](k, 0) == 0, patterns=[f['CNT'](k, 0)]))


def bo_instances(ctx, i):
    """instances (at the name of section i) of facts that are assumed in quantified form: the solver is not left to find them"""
    f = bo_fns()
    nm = f['NM'](zint(i))
    ctx.assume(z3.And(bo_cnt_def_at(nm, i), bo_L2_at(nm, zint(i) + 1, f['n']), bo_L2_at(nm, i, f['n']), bo_L2_at(nm, 0, i)))


class BOCountInv(LoopInv):
    """first loop, after i sections: counts[k] == [CNT(k,i), 0] for exactly the names met so far"""
    func = PM + "buildOutput"
    loop = 0
    modifies_locals = ('section_num', 'name')

    def heap_targets(self, it, fr):
        return [fr.locals['counts']]

    def body(self, m, k, i):
        c = bo_fns()['CNT'](k, zint(i))
        return z3.And(z3.Select(m.cols[0], k) == c, z3.Select(m.cols[1], k) == 0, z3.Select(m.has, k) == (c >= 1))

    def havoc(self, it, fr, i):
        from pyvc.models import FMap
        bo_base(it.ctx)
        ctx = it.ctx
        m = FMap(ctx.fresh('bo_has', z3.ArraySort(PyStr, z3.BoolSort())), [ctx.fresh('bo_c0', z3.ArraySort(PyStr, z3.IntSort())),
                                                                          ctx.fresh('bo_c1', z3.ArraySort(PyStr, z3.IntSort()))])
        fr.locals['counts'] = m
        bo_cnt_def(ctx, i)
        bo_instances(ctx, i)
        ctx.assume(self.body(m, bo_fns()['NM'](zint(i)), i))       # instance of the invariant (assumed next) at this section's name

    def inv(self, it, fr, i):
        bo_base(it.ctx)
        m = as_fmap(fr.locals['counts'])
        k = z3.Const('k!inv1', PyStr)
        return z3.ForAll([k], self.body(m, k, i))


class BOEmitInv(LoopInv):
    """second loop, after i sections: out == OUT(i); counts[k] == [CNT(k,n), numbered-so-far(k,i)]"""
    func = PM + "buildOutput"
    loop = 1
    modifies_locals = ('section_num', 'name', 'modifier')

    def heap_targets(self, it, fr):
        return [fr.locals['counts'], fr.locals['out']]

    def base(self, it, fr):
        ctx = it.ctx
        if not ctx.ghost.get('bo_out_base'):
            ctx.ghost['bo_out_base'] = True
            from pyvc.seq import dict_term
            ctx.assume(bo_fns()['OUT'](0) == dict_term(fr.locals['out']))

    def body(self, m, k, i):
        f = bo_fns()
        tot = f['CNT'](k, f['n'])
        return z3.And(z3.Select(m.cols[0], k) == tot, z3.Select(m.has, k) == (tot >= 1),
                      z3.Select(m.cols[1], k) == z3.If(tot == 1, 0, f['CNT'](k, zint(i))))

    def havoc(self, it, fr, i):
        from pyvc.models import FMap
        bo_base(it.ctx)
        self.base(it, fr)
        ctx = it.ctx
        m = FMap(ctx.fresh('bo_has2', z3.ArraySort(PyStr, z3.BoolSort())),
                 [ctx.fresh('bo_d0', z3.ArraySort(PyStr, z3.IntSort())), ctx.fresh('bo_d1', z3.ArraySort(PyStr, z3.IntSort()))])
        fr.locals['counts'] = m
        out = fr.locals['out']
        out.clear()
        out.sym[:] = []
        out.base_term = bo_fns()['OUT'](zint(i))
        out.fresh_check = lambda it_, key: bo_fresh(it_, key, i)
        bo_cnt_def(ctx, i)
        bo_instances(ctx, i)
        ctx.assume(self.body(m, bo_fns()['NM'](zint(i)), i))

    def inv(self, it, fr, i):
        bo_base(it.ctx)
        self.base(it, fr)
        from pyvc.seq import dict_term
        f = bo_fns()
        m = as_fmap(fr.locals['counts'])
        k = z3.Const('k!inv2', PyStr)
        return z3.And(z3.ForAll([k], self.body(m, k, i)), dict_term(fr.locals['out']) == f['OUT'](zint(i)))

    def unfold(self, it, fr, i):
        f = bo_fns()
        key = bo_key(i)
        it.ctx.assume(f['OUT'](zint(i) + 1) == ufun('v_dsnoc', Val, PyStr, Val, Val)(f['OUT'](zint(i)), str_term(key), f['VAL'](zint(i))))


def bo_fresh(it, key, i):
    """the key stored at iteration i is not yet in OUT(i): it is none of the keys the document started with and differs from
    KEY(j) for every j < i.  The universally quantified part is proved for an arbitrary j (a fresh constant); the instances of
    the quantified preconditions (definition of CNT, L1, L2, T1) needed for that j are stated explicitly."""
    ctx = it.ctx
    f = bo_fns()
    CNT, NM, n = f['CNT'], f['NM'], f['n']
    kt = str_term(key)
    j = ctx.fresh('j_arbitrary', 'int')
    nmi, nmj = NM(zint(i)), NM(j)
    in0 = ufun('bo_in_out0', PyStr, z3.BoolSort())
    inst = z3.And(bo_cnt_def_at(nmi, j), bo_cnt_def_at(nmj, j), bo_cnt_def_at(nmj, i),
                  bo_L2_at(nmi, j + 1, i), bo_L2_at(nmi, 0, j), bo_L2_at(nmj, 0, j), bo_L2_at(nmj, j + 1, n), bo_L2_at(nmi, 0, i),
                  bo_L1_at(nmj, CNT(nmj, j), nmi, CNT(nmi, zint(i))),
                  nmi != bo_numbered(nmj, CNT(nmj, j)), nmj != bo_numbered(nmi, CNT(nmi, zint(i))),
                  z3.Not(in0(nmi)), z3.Not(in0(bo_numbered(nmi, CNT(nmi, zint(i))))))
    ctx.prove(z3.Implies(inst, z3.And(z3.Not(in0(kt)), z3.Implies(z3.And(j >= 0, j < zint(i)), bo_key_term(j) != kt))),
              "buildOutput: the key written for section i is new (so the entry is appended, in log order, and replaces nothing)",
              kind='invariant')


class BuildOutputAny(Unit):
    """buildOutput for ANY number of sections with arbitrary names: the document becomes out0 ++ [(KEY(j), VAL(j)) | j < n]"""
    prop = "C01"
    name = "buildOutput (any number of sections)"
    target = PM + "buildOutput"
    invariants = [BOCountInv, BOEmitInv]

    def setup_ctx(self, ctx):
        ctx.feasibility_rlimit = 400000

    def inputs(self, S):
        from collections import OrderedDict
        from pyvc.models import LazySeq, HDict
        if not S.symbolic:
            names = [n for n in T('sectionNames').values() if n not in ("Private Header", "User Header")] + ["Unknown"]
            n = S.int("n", 0, 14)
            secs = [OrderedDict([(names[S.int("name%d" % j, 0, len(names) - 1) % (3 if S.int("few", 0, 1) else len(names))], ("value", j))])
                    for j in range(n)]
            return dict(sections=secs, out=OrderedDict([("Private Header", "ph"), ("User Header", "uh")]))
        f = bo_fns()
        S.assume(f['n'] >= 0)

        def elem(j):
            d = OrderedDict()
            d[mkstr([Opq(f['NM'](zint(j)))])] = OpaqueVal(f['VAL'](zint(j)), 'val')
            return d
        out = HDict()
        out.base_term = z3.Const('bo_out0', Val)
        out.fresh_check = lambda it_, key: bo_fresh(it_, key, 0)
        return dict(sections=LazySeq(f['n'], elem, 'sections'), out=out)

    def pre(self, S, inp):
        if not S.symbolic:
            return True
        f = bo_fns()
        CNT, NM, n = f['CNT'], f['NM'], f['n']
        k = z3.Const('k!pre', PyStr)
        a, b, m = z3.Int('a!pre'), z3.Int('b!pre'), z3.Int('m!pre')
        cat = ufun('cat', PyStr, PyStr, PyStr)
        dec = lambda v: str_term(mkstr([_ops.fmt_int(None, v, 'd')]))
        numbered = lambda name, v: str_term(mkstr([Opq(name), 32, _ops.fmt_int(None, v, 'd')]))
        in0 = ufun('bo_in_out0', PyStr, z3.BoolSort())
        ka, kb = z3.Const('ka!pre', PyStr), z3.Const('kb!pre', PyStr)
        return z3.And(
            # L2 (lemma, proved by induction in bo_lemmas): counting is monotone, and never negative
            z3.ForAll([k, a, b], z3.Implies(z3.And(0 <= a, a <= b), z3.And(CNT(k, a) <= CNT(k, b), CNT(k, a) >= 0)),
                      patterns=[z3.MultiPattern(CNT(k, a), CNT(k, b))]),
            # L1 (string fact, checked in bo_lemmas): name + ' ' + str(m) determines name and m (m >= 0)
            z3.ForAll([ka, kb, a, b], z3.Implies(z3.And(a >= 0, b >= 0, numbered(ka, a) == numbered(kb, b)), z3.And(ka == kb, a == b)),
                      patterns=[z3.MultiPattern(numbered(ka, a), numbered(kb, b))]),
            # T1 (alphabet, enumerated over the published table): no section name is another name followed by ' <number>',
            # and neither a name nor a numbered name is one of the keys the document starts with (the two headers)
            z3.ForAll([a, b, m], z3.Implies(m >= 0, NM(a) != numbered(NM(b), m)), patterns=[z3.MultiPattern(NM(a), numbered(NM(b), m))]),
            z3.ForAll([a], z3.Not(in0(NM(a))), patterns=[in0(NM(a))]),
            z3.ForAll([a, m], z3.Implies(m >= 0, z3.Not(in0(numbered(NM(a), m)))), patterns=[in0(numbered(NM(a), m))]))

    def pre_native(self):
        return True

    def check(self, P, inp, old, out):
        if not P.symbolic:
            names = [list(d.keys())[0] for d in inp['sections']]
            want = [("Private Header", "ph"), ("User Header", "uh")] + \
                list(zip(spec_numbered(names), [list(d.values())[0] for d in inp['sections']]))
            P.prove(out.returned and list(inp['out'].items()) == want,
                    "document == out0 ++ [(KEY(j), VAL(j)) for j < n]: one entry per section in log order, repeated names numbered 0,1,2..")
            return
        from pyvc.seq import dict_term
        f = bo_fns()
        P.prove(out.returned, "buildOutput returns for every list of single-entry sections")
        if not out.returned:
            return
        P.prove(dict_term(inp['out']) == f['OUT'](f['n']),
                "document == out0 ++ [(KEY(j), VAL(j)) for j < n]: one entry per section in log order; KEY(j) is the section's name when "
                "that name occurs once, else name + ' ' + (number of earlier sections with that name)")


def bo_lemmas(tier, seed):
    """the lemmas the buildOutput proof uses as preconditions, each discharged on its own:
       L2  counting is monotone and non-negative            - induction over the prefix length, z3
       L1a a+' '+x = b+' '+y for digit strings x, y  =>  a = b and x = y            - cvc5 (strings)
       L1b str.from_int is injective on non-negative integers                        - z3 (sequences)
    (T1, the alphabet condition, is the enumeration over the published name table in build_output_enum.)"""
    import subprocess, tempfile, time, os
    obs = []
    # ---- L2 by induction
    t0 = time.time()
    f = bo_fns()
    CNT, NM = f['CNT'], f['NM']
    k, a = z3.Const('k', PyStr), z3.Int('a')
    b0, k1, a1 = z3.Int('b0'), z3.Const('k1', PyStr), z3.Int('a1')

    def P(kk, aa, bb):
        return z3.Implies(z3.And(0 <= aa, aa <= bb), z3.And(CNT(kk, aa) <= CNT(kk, bb), CNT(kk, aa) >= 0))
    s = z3.Solver()
    s.set('timeout', 60000)
    # base case: b = 0
    s.push()
    s.add(CNT(k1, 0) == 0, z3.Not(P(k1, a1, 0)))
    base = s.check()
    s.pop()
    # step: P(., ., b0) for all names / positions  =>  P(., ., b0 + 1)
    s.push()
    s.add(b0 >= 0, z3.ForAll([k, a], P(k, a, b0)), P(k1, a1, b0), P(k1, b0, b0),
          CNT(k1, b0 + 1) == CNT(k1, b0) + z3.If(NM(b0) == k1, 1, 0), z3.Not(P(k1, a1, b0 + 1)))
    step = s.check()
    s.pop()
    ok = base == z3.unsat and step == z3.unsat
    obs.append(dict(name="buildOutput lemma L2: CNT(k, a) <= CNT(k, b) and CNT(k, a) >= 0 for 0 <= a <= b (induction on b)", solver='z3',
                    kind='post', status='discharged' if ok else ('failed' if z3.sat in (base, step) else 'unknown'),
                    goal="base: %s, step: %s" % (base, step), secs=time.time() - t0))
    # ---- L1a with cvc5, L1b with z3
    l1a = """(set-logic QF_SLIA)
(declare-const a String)(declare-const b String)(declare-const x String)(declare-const y String)
(assert (str.in_re x (re.+ (re.range "0" "9"))))(assert (str.in_re y (re.+ (re.range "0" "9"))))
(assert (= (str.++ a " " x) (str.++ b " " y)))
(assert (or (not (= a b)) (not (= x y))))
(check-sat)
"""
    l1b = """(set-logic QF_SLIA)
(declare-const m Int)(declare-const k Int)
(assert (>= m 0))(assert (>= k 0))
(assert (= (str.from_int m) (str.from_int k)))(assert (not (= m k)))
(check-sat)
"""
    for nm, text, cmds, title in (
            ('L1a', l1a, (['/usr/bin/cvc5', '--strings-exp'], ['z3-new']),
             "buildOutput lemma L1a: a + ' ' + x == b + ' ' + y for digit strings x, y implies a == b and x == y"),
            ('L1b', l1b, (['z3-new'], ['/usr/bin/z3'], ['/usr/bin/cvc5', '--strings-exp']),
             "buildOutput lemma L1b: the decimal numeral is injective on non-negative integers")):
        t0 = time.time()
        fd, path = tempfile.mkstemp(suffix='.smt2', prefix='pyvc_' + nm)
        os.write(fd, text.encode())
        os.close(fd)
        res, used = 'unknown', None
        try:
            for cmd in cmds:
                try:
                    r = subprocess.run(cmd + [path], capture_output=True, text=True, timeout=120)
                    out = (r.stdout or '').strip().splitlines()
                    if out and out[0] in ('unsat', 'sat'):
                        res, used = out[0], os.path.basename(cmd[0])
                        break
                except Exception:
                    continue
        finally:
            os.unlink(path)
        obs.append(dict(name=title, solver=used or 'none', kind='post',
                        status={'unsat': 'discharged', 'sat': 'failed'}.get(res, 'unknown'), goal=text.replace('\n', ' ')[:300],
                        secs=time.time() - t0))
    return obs, {}
