"""CLI modes of peltool (C05 containment, C08, C09, C10, C11, C12): ghost stdout / stderr / fs traces over an abstract
directory.  Decoders are used through their contracts (C01/C05): for each file an arbitrary but fixed outcome."""
import z3

from contracts.common import *
from pyvc.unit import Unit, Contract, LoopInv
from pyvc.seq import Chunk, list_term, val_term, Val, v_snoc, v_nil
from pyvc.values import Opq, I, SBytes, SStr, is_z3, OpaqueVal, Obj, lit, Raised, ExcObj, Choice, Unsupported, ByteArr
from pyvc import ops as _ops
from pyvc.interp import lookup_qualname, BoundMethod
from pyvc.models import DumpedStr, Handle, HDict

PT = "pel.peltool."
PM = PT + "peltool."
ROOT = "/pels"


# ------------------------------------------------------------------ abstract directory
class Dir:
    """n top-level files with opaque names and arbitrary contents, one sub-directory 'archive' with one file"""

    def __init__(self, n):
        self.n = n
        self.names = [mkstr([Opq(z3.Const('fname%d' % j, PyStr))]) for j in range(n)]
        self.contents = [SBytes(z3.Const('fdata%d' % j, ByteArr), 0, z3.Int('flen%d' % j), 'bytes') for j in range(n)]
        self.subname = mkstr([Opq(z3.Const('subfile', PyStr))])

    def path(self, j):
        from pyvc.models import model_os_path_join
        return mkstr([Opq(ufun('path_join', PyStr, PyStr, PyStr)(lit(ROOT), str_term(self.names[j])))])

    def index_of_path(self, path):
        t = str_term(path)
        for j in range(self.n):
            if t.eq(str_term(self.path(j))):
                return j
        return None


class FsEnv:
    def __init__(self, d):
        self.d = d

    def os_walk(self, it, path):
        it.ctx.emit('fs', ('walk', path))
        sub = mkstr([Opq(ufun('path_join', PyStr, PyStr, PyStr)(str_term(path), lit('archive')))])
        return [(path, ['archive'], list(self.d.names)), (sub, [], [self.d.subname])]

    def os_path_isfile(self, it, p):
        return ufun('fs_isfile', PyStr, z3.BoolSort())(str_term(p))

    def os_path_isdir(self, it, p):
        return ufun('fs_isdir', PyStr, z3.BoolSort())(str_term(p))

    def os_path_exists(self, it, p):
        return ufun('fs_exists', PyStr, z3.BoolSort())(str_term(p))

    def open_read(self, it, path, mode):
        ctx = it.ctx
        j = self.d.index_of_path(path)
        h = Handle(path, mode)
        if j is not None:
            ctx.assume(zint(self.d.contents[j].ln) >= 0)
            h.content = self.d.contents[j]
        elif 'b' in mode:
            ln = ufun('file_len', PyStr, z3.IntSort())(str_term(path))
            ctx.assume(ln >= 0)
            h.content = SBytes(ufun('file_bytes', PyStr, ByteArr)(str_term(path)), 0, ln, 'bytes')
        else:
            h.content = mkstr([Opq(ufun('file_text', PyStr, PyStr)(str_term(path)))])
        return h


def key_of(data):
    return val_term(data)


def hdr_ok(k):
    return ufun('pel_headers_ok', Val, z3.BoolSort())(k)


def ph_ok(k):
    return ufun('pel_ph_ok', Val, z3.BoolSort())(k)


def sel(k):
    return ufun('pel_selected', Val, z3.BoolSort())(k)


def decodes(k):
    return ufun('pel_decodes', Val, z3.BoolSort())(k)


def doc_text(k):
    return mkstr([Opq(ufun('pel_doc_text', Val, PyStr)(k))])


def eid_of(k):
    return mkstr([Opq(ufun('pel_eid', Val, PyStr)(k))])


def summary_of(k):
    from collections import OrderedDict
    s = OrderedDict()
    for f in ("SRC", "PLID", "CreatorID", "Subsystem", "Commit Time", "Sev", "CompID"):
        s[f] = mkstr([Opq(ufun('pel_summary_' + f.replace(' ', '_'), Val, PyStr)(k))])
    return s


class CParsePEL(Contract):
    """parsePEL as proved in C01/C05: a document, ('', ''), an ordinary exception, or SystemExit(1) for a wrong PH/UH id
    when asked to exit on error; prints nothing on stdout; a function of the bytes and the options"""
    target = PM + "parsePEL"

    def model(self, it, stream, config, exit_on_error):
        ctx = it.ctx
        k = key_of(field(stream, 'data'))
        ctx.ghost.setdefault('decoded', []).append(k)
        if not ctx.decide(hdr_ok(k)):
            ctx.emit('stderr', (mkstr([Opq(ufun('hdr_diag', Val, PyStr)(k))]), '\n'))
            if truthy_(ctx, exit_on_error):
                raise Raised(ExcObj(SystemExit, (1,)))
            return ("", "")
        if not ctx.decide(sel(k)):
            return ("", "")
        if not ctx.decide(decodes(k)):
            raise Raised(ExcObj(Exception, (mkstr([Opq(ufun('decode_error', Val, PyStr)(k))]),)))
        t = doc_text(k)
        ctx.assume(ufun('slen', PyStr, z3.IntSort())(str_term(t)) > 0)
        return (eid_of(k), t)


def truthy_(ctx, v):
    return _ops.truthy(ctx, v)


class CParsePELSummary(Contract):
    target = PM + "parsePELSummary"

    def model(self, it, stream, config):
        ctx = it.ctx
        k = key_of(field(stream, 'data'))
        if not ctx.decide(hdr_ok(k)):
            ctx.emit('stderr', (mkstr([Opq(ufun('hdr_diag', Val, PyStr)(k))]), '\n'))
            return ("", "")
        if not ctx.decide(sel(k)):
            return ("", "")
        if not ctx.decide(ufun('pel_summary_decodes', Val, z3.BoolSort())(k)):
            raise Raised(ExcObj(Exception, (mkstr([Opq(ufun('decode_error', Val, PyStr)(k))]),)))
        e = mkstr([Opq(ufun('pel_eid0x', Val, PyStr)(k))])
        ctx.assume(ufun('slen', PyStr, z3.IntSort())(str_term(e)) > 0)
        return (e, summary_of(k))


class CGeneratePHcli(Contract):
    target = PM + "generatePH"

    def model(self, it, stream, out):
        ctx = it.ctx
        k = key_of(field(stream, 'data'))
        if not ctx.decide(ufun('pel_ph_readable', Val, z3.BoolSort())(k)):
            raise Raised(ExcObj(AssertionError, ("range check failure",)))
        if not ctx.decide(ph_ok(k)):
            ctx.emit('stderr', (mkstr([Opq(ufun('hdr_diag', Val, PyStr)(k))]), '\n'))
            return (False, None)
        ph = Obj(lookup_qualname(PT + "private_header.PrivateHeader"), dict(
            creatorID=mkstr([Opq(ufun('pel_creator', Val, PyStr)(k))]), obmcLogID=ufun('pel_obmc', Val, z3.IntSort())(k), _key=k))
        return (True, ph)


class CGenerateUHcli(Contract):
    target = PM + "generateUH"

    def model(self, it, stream, creatorID, out):
        ctx = it.ctx
        k = key_of(field(stream, 'data'))
        if not ctx.decide(ufun('pel_uh_readable', Val, z3.BoolSort())(k)):
            raise Raised(ExcObj(AssertionError, ("range check failure",)))
        if not ctx.decide(ufun('pel_uh_ok', Val, z3.BoolSort())(k)):
            ctx.emit('stderr', (mkstr([Opq(ufun('hdr_diag', Val, PyStr)(k))]), '\n'))
            return (False, None)
        return (True, Obj(lookup_qualname(PT + "user_header.UserHeader"), dict(_key=k)))


class CConsiderPELcli(Contract):
    target = PM + "considerPEL"

    def model(self, it, uh, config):
        return sel(field(uh, '_key'))


class CPrintHex(Contract):
    """printPELInHexFormat (C13): begin marker, hex dump of exactly these bytes, end marker on stdout"""
    target = PM + "printPELInHexFormat"

    def model(self, it, data):
        it.ctx.emit('stdout', ('hexdump-of', key_of(data)))
        return None


class CPrettyPrintCli(Contract):
    target = PM + "prettyPrint"

    def model(self, it, Mdata, desiredSpace=34):
        if isinstance(Mdata, str):
            import json
            return DumpedStr([Opq(ufun('spec_pretty', PyStr, z3.IntSort(), PyStr)(str_term(Mdata), zint(desiredSpace)))],
                             HDict(json.loads(Mdata)) if Mdata.strip().startswith('{') else json.loads(Mdata), 4)
        if isinstance(Mdata, DumpedStr):
            return DumpedStr([Opq(ufun('spec_pretty', PyStr, z3.IntSort(), PyStr)(str_term(Mdata), zint(desiredSpace)))], Mdata.value, Mdata.indent)
        return mkstr([Opq(ufun('spec_pretty', PyStr, z3.IntSort(), PyStr)(str_term(Mdata), zint(desiredSpace)))])


class CProcessId(Contract):
    """processId (proved in its own unit): the 8-character upper-case id, or SystemExit"""
    target = PM + "processId"

    def model(self, it, pid):
        ctx = it.ctx
        t = str_term(pid)
        if not ctx.decide(ufun('id_is_valid', PyStr, z3.BoolSort())(t)):
            raise Raised(ExcObj(SystemExit, ("Invalid length of ID is provided!",)))
        return mkstr([Opq(ufun('id_normalised', PyStr, PyStr)(t))])


DECODER_CONTRACTS = [CParsePEL, CParsePELSummary, CGeneratePHcli, CGenerateUHcli, CConsiderPELcli, CPrintHex, CPrettyPrintCli]


def mk_config(S, **over):
    f = dict(allow_plugins=True, serviceable=False, non_serviceable=False, every_pel=False, critSysTerm=False, hidden=False,
             hex=S.bool("hex"), rev=S.bool("rev"), extension=None, severities=[], only=False, plid=None, src=None, bmcID=None,
             pelID=None, srcExcludeFile=None)
    f.update(over)
    # attributes the Config class of the tree under test declares beyond the ones above: a boolean switch we do not know may
    # be on or off (so that behaviour hidden behind a new flag is explored); anything else keeps its declared default
    for name, default in extra_config_attrs().items():
        if name not in f:
            f[name] = S.bool("cfg_" + name) if isinstance(default, bool) else default
    return S.obj(PT + "config.Config", **f)


def extra_config_attrs():
    import ast as _ast
    try:
        ci = lookup_qualname(PT + "config.Config")
        init = ci.find_method('__init__')
        out = {}
        for st in _ast.walk(init.node):
            if isinstance(st, _ast.Assign) and len(st.targets) == 1 and isinstance(st.targets[0], _ast.Attribute) and \
                    isinstance(st.targets[0].value, _ast.Name) and st.targets[0].value.id == 'self':
                v = st.value
                if isinstance(v, _ast.Constant):
                    out[st.targets[0].attr] = v.value
                elif isinstance(v, _ast.List) and not v.elts:
                    out[st.targets[0].attr] = []
        return out
    except Exception:
        return {}


class CGetFileList(Contract):
    """getFileList (proved in its own unit): the top-level file names that pass the extension filter, sorted"""
    target = PM + "getFileList"

    def model(self, it, path, extension, rev=False):
        ctx = it.ctx
        env = ctx.env
        ctx.emit('fs', ('walk', path))
        ctx.ghost.setdefault('gfl_args', []).append((path, extension, rev))
        return (path, list(env.d.names))



def check_file_list_args(unit, P):
    """every mode asks getFileList for the same list: this directory, Config.extension, Config.rev - so that count, list and
    display-all agree on the files and on their order"""
    inp = getattr(unit, '_last_inp', None)
    calls = P.ctx.ghost.get('gfl_args', [])
    if not calls or inp is None or 'config' not in inp:
        return
    P.prove(len(calls) == 1, "the file list is obtained once")
    path, ext, rev = calls[0]
    cfg = inp['config']
    e_ok = (ext is None and field(cfg, 'extension') is None) or (ext is not None and field(cfg, 'extension') is not None and
                                                                 Eq(ext, field(cfg, 'extension')) is not False and
                                                                 (Eq(ext, field(cfg, 'extension')) is True or
                                                                  P.ctx.is_true(Eq(ext, field(cfg, 'extension')))))
    r = rev if not isinstance(rev, bool) else z3.BoolVal(rev)
    c = field(cfg, 'rev')
    c = c if not isinstance(c, bool) else z3.BoolVal(c)
    r_ok = not isinstance(rev, (str, SStr)) and P.ctx.is_true(truth(r) == truth(c))
    P.prove(Eq(path, inp['path']) is True or P.ctx.is_true(Eq(path, inp['path'])), "the file list is that of the directory asked for")
    P.prove(bool(e_ok), "the file list is filtered with Config.extension (--extension)")
    if not unit.target.endswith("printPELCount"):        # a count does not depend on the order
        P.prove(bool(r_ok), "the file list is ordered with Config.rev (--reverse)")


class _ModeUnit(Unit):
    prop = "C09"
    io_faults = False
    NFILES = [0, 1, 2]
    contracts = DECODER_CONTRACTS + [CGetFileList]
    max_paths = 30000

    def inputs(self, S):
        n = S.choice("nfiles", self.NFILES)
        self._d = Dir(n)
        self.env = FsEnv(self._d)
        self._last_inp = self.mode_inputs(S)
        return self._last_inp

    def setup_ctx(self, ctx):
        ctx.stdout_faults = False

    def pure(self, P):
        ctx = P.ctx
        muts = [e for e in ctx.fs if e[0] not in ('open_r', 'walk')]
        P.prove(muts == [], "the directory tree is left untouched (no remove / write / rename)")
        check_file_list_args(self, P)

    def outcome_of(self, ctx, j):
        """what file j contributes, decided on this path: 'doc' | 'none' | 'error'"""
        k = key_of(self._d.contents[j])
        if ctx.is_true(z3.Not(hdr_ok(k))) or ctx.is_true(z3.And(hdr_ok(k), z3.Not(sel(k)))):
            return 'none', k
        if ctx.is_true(z3.And(hdr_ok(k), sel(k), decodes(k))):
            return 'doc', k
        if ctx.is_true(z3.And(hdr_ok(k), sel(k), z3.Not(decodes(k)))):
            return 'error', k
        return 'unknown', k


class AllPels(_ModeUnit):
    name = "extractAllPELsData (-a)"
    target = PM + "extractAllPELsData"

    def mode_inputs(self, S):
        return dict(path=ROOT, config=mk_config(S))

    def check(self, P, inp, old, out):
        if not P.symbolic:
            return
        ctx = P.ctx
        P.prove(out.returned, "the mode never fails, whatever the files contain")
        if not out.returned:
            return
        hexm = ctx.is_true(truth(field(inp['config'], 'hex')))
        want = [] if hexm else [("[", '\n')]
        first = True
        errs = 0
        for j in range(self._d.n):
            oc, k = self.outcome_of(ctx, j)
            if oc == 'doc':
                if hexm:
                    want.append(('hexdump-of', k))
                else:
                    if not first:
                        want.append((",", '\n'))
                    want.append((doc_text(k), ""))
                    first = False
            elif oc == 'error':
                errs += 1
        if not hexm:
            if not first:
                want.append(("", '\n'))
            want.append(("]", '\n'))
        P.prove(Eq(list(ctx.stdout), want),
                "stdout == '[' + the documents of the selected, decodable files in list order joined by ',' + ']' "
                "(with --hex: their delimited hex dumps); every other file contributes nothing")
        P.prove(len([e for e in ctx.stderr]) >= errs, "each undecodable file is reported on stderr")
        self.pure(P)


class ListOption(_ModeUnit):
    name = "listOption (-l)"
    target = PM + "listOption"
    contracts = DECODER_CONTRACTS + [CGetFileList]

    def mode_inputs(self, S):
        return dict(path=ROOT, config=mk_config(S))

    def summ_outcome(self, ctx, j):
        k = key_of(self._d.contents[j])
        sd = ufun('pel_summary_decodes', Val, z3.BoolSort())(k)
        if ctx.is_true(z3.And(hdr_ok(k), sel(k), sd)):
            return 'doc', k
        if ctx.is_true(z3.And(hdr_ok(k), sel(k), z3.Not(sd))):
            return 'error', k
        return 'none', k

    def pre(self, S, inp):
        # distinct entry ids (statement of C08)
        ks = [key_of(c) for c in self._d.contents]
        es = [ufun('pel_eid0x', Val, PyStr)(k) for k in ks]
        return z3.Distinct(*es) if len(es) > 1 else True

    def check(self, P, inp, old, out):
        if not P.symbolic:
            return
        ctx = P.ctx
        P.prove(out.returned, "the mode never fails, whatever the files contain")
        if not out.returned:
            return
        hexm = ctx.is_true(truth(field(inp['config'], 'hex')))
        from collections import OrderedDict
        summ = HDict()
        want_hex = []
        for j in range(self._d.n):
            oc, k = self.summ_outcome(ctx, j)
            if oc == 'doc':
                if hexm:
                    want_hex.append(('hexdump-of', k))
                else:
                    summ.sym.append([mkstr([Opq(ufun('pel_eid0x', Val, PyStr)(k))]), summary_of(k)])
        if hexm:
            P.prove(Eq(list(ctx.stdout), want_hex), "--hex: the delimited hex dumps of the selected files, in list order")
        else:
            P.prove(len(ctx.stdout) == 1, "one JSON document on stdout")
            if len(ctx.stdout) == 1:
                text, end = ctx.stdout[0]
                P.prove(isinstance(text, DumpedStr) and val_term(text.value) == val_term(summ),
                        "the document has exactly one entry per selected, decodable file, in list order, keyed by entry id")
        self.pure(P)


class Count(_ModeUnit):
    name = "printPELCount (-n)"
    target = PM + "printPELCount"

    def mode_inputs(self, S):
        return dict(path=ROOT, config=mk_config(S))

    def check(self, P, inp, old, out):
        if not P.symbolic:
            return
        ctx = P.ctx
        P.prove(out.returned, "the mode never fails, whatever the files contain")
        if not out.returned:
            return
        cnt = 0
        for j in range(self._d.n):
            k = key_of(self._d.contents[j])
            c = z3.And(ufun('pel_ph_readable', Val, z3.BoolSort())(k), ph_ok(k), ufun('pel_uh_readable', Val, z3.BoolSort())(k),
                       ufun('pel_uh_ok', Val, z3.BoolSort())(k), sel(k))
            if ctx.is_true(c):
                cnt += 1
            else:
                P.prove(ctx.is_true(z3.Not(c)), "each file is either counted or not on this path")
        P.prove(len(ctx.stdout) == 1 and Eq(ctx.stdout[0][0], '{\n    "Number of PELs found": %d\n}' % cnt),
                "stdout is one JSON object with the number of files whose two headers are valid and that are selected")
        self.pure(P)


UNITS_C09 = [AllPels, ListOption, Count]
UNITS = list(UNITS_C09)


# ------------------------------------------------------------------ look-ups (C10)
class PlidMode(_ModeUnit):
    prop = "C10"
    name = "parsePelFromPLID (--plid)"
    target = PM + "parsePelFromPLID"
    contracts = DECODER_CONTRACTS + [CGetFileList, CProcessId]

    def mode_inputs(self, S):
        return dict(path=ROOT, config=mk_config(S, plid=S.opaque_str("plid_arg")))

    def pre(self, S, inp):
        ks = [key_of(c) for c in self._d.contents]
        es = [ufun('pel_eid0x', Val, PyStr)(k) for k in ks]
        return z3.Distinct(*es) if len(es) > 1 else True

    def check(self, P, inp, old, out):
        if not P.symbolic:
            return
        ctx = P.ctx
        arg = str_term(field(inp['config'], 'plid'))
        if not out.returned:
            P.prove(out.exc_class is SystemExit and ctx.is_true(z3.Not(ufun('id_is_valid', PyStr, z3.BoolSort())(arg))),
                    "fails only with SystemExit for an id that is not 8 hex digits")
            P.prove(len(ctx.stdout) == 0, "and prints nothing")
            return
        want_id = mkstr([Opq(ufun('id_normalised', PyStr, PyStr)(arg))])
        hexm = ctx.is_true(truth(field(inp['config'], 'hex')))
        summ = HDict()
        want_hex = []
        for j in range(self._d.n):
            k = key_of(self._d.contents[j])
            sd = ufun('pel_summary_decodes', Val, z3.BoolSort())(k)
            match = _ops.str_contains(ctx, summary_of(k)["PLID"], want_id)
            c = z3.And(hdr_ok(k), sel(k), sd, match)
            if ctx.is_true(c):
                if hexm:
                    want_hex.append(('hexdump-of', k))
                else:
                    summ.sym.append([mkstr([Opq(ufun('pel_eid0x', Val, PyStr)(k))]), summary_of(k)])
            else:
                P.prove(ctx.is_true(z3.Not(c)), "each file is either listed or not on this path")
        if hexm:
            P.prove(Eq(list(ctx.stdout), want_hex), "--hex: exactly the matching files are dumped")
        else:
            P.prove(len(ctx.stdout) == 1 and isinstance(ctx.stdout[0][0], DumpedStr) and
                    val_term(ctx.stdout[0][0].value) == val_term(summ),
                    "listed == exactly the selected, decodable files whose displayed platform log id contains the normalised id")
        self.pure(P)


class SrcMode(_ModeUnit):
    prop = "C10"
    name = "parsePelFromSRCID (--src / --src-exclude)"
    target = PM + "parsePelFromSRCID"
    shards = 2

    def mode_inputs(self, S):
        if self.shard == 0:
            return dict(path=ROOT, config=mk_config(S, src=S.opaque_str("src_arg")))
        return dict(path=ROOT, config=mk_config(S, srcExcludeFile="/tmp/exclude.txt"))

    def pre(self, S, inp):
        ks = [key_of(c) for c in self._d.contents]
        es = [ufun('pel_eid0x', Val, PyStr)(k) for k in ks]
        a = True
        if self.shard == 0:
            a = ufun('slen', PyStr, z3.IntSort())(str_term(field(inp['config'], 'src'))) > 0
        return And(z3.Distinct(*es) if len(es) > 1 else True, a)

    def check(self, P, inp, old, out):
        if not P.symbolic:
            return
        ctx = P.ctx
        if not out.returned:
            P.prove(out.exc_class is SystemExit and self.shard == 0, "fails only with SystemExit for an SRC longer than 32 characters")
            return
        hexm = ctx.is_true(truth(field(inp['config'], 'hex')))
        summ = HDict()
        want_hex = []
        excl = mkstr([Opq(ufun('file_text', PyStr, PyStr)(lit("/tmp/exclude.txt")))])
        for j in range(self._d.n):
            k = key_of(self._d.contents[j])
            sd = ufun('pel_summary_decodes', Val, z3.BoolSort())(k)
            if self.shard == 0:
                match = _ops.str_contains(ctx, summary_of(k)["SRC"], field(inp['config'], 'src'))
            else:
                match = z3.Not(_ops.str_contains(ctx, excl, summary_of(k)["SRC"]))
            c = z3.And(hdr_ok(k), sel(k), sd, match)
            if ctx.is_true(c):
                if hexm:
                    want_hex.append(('hexdump-of', k))
                else:
                    summ.sym.append([mkstr([Opq(ufun('pel_eid0x', Val, PyStr)(k))]), summary_of(k)])
            else:
                P.prove(ctx.is_true(z3.Not(c)), "each file is either listed or not on this path")
        if hexm:
            P.prove(Eq(list(ctx.stdout), want_hex), "--hex: exactly the matching files are dumped")
        else:
            P.prove(len(ctx.stdout) == 1 and isinstance(ctx.stdout[0][0], DumpedStr) and
                    val_term(ctx.stdout[0][0].value) == val_term(summ),
                    "listed == exactly the selected files whose reference code contains S (resp. is not in the exclusion file)")
        self.pure(P)


class CPrintFile(Contract):
    """parseAndPrintPELFile (proved in its own unit): prints the document of that file, or nothing; never raises
    anything but SystemExit(1)"""
    target = PM + "parseAndPrintPELFile"

    def model(self, it, file_path, config, exit_on_error):
        it.ctx.emit('stdout', ('document-of-file', str_term(file_path)))
        return None


class IdMode(_ModeUnit):
    prop = "C10"
    name = "parsePelFromID (--id)"
    target = PM + "parsePelFromID"
    contracts = DECODER_CONTRACTS + [CProcessId, CPrintFile]

    def mode_inputs(self, S):
        return dict(path=ROOT, config=mk_config(S, pelID=S.opaque_str("id_arg")))

    def check(self, P, inp, old, out):
        if not P.symbolic:
            return
        ctx = P.ctx
        arg = str_term(field(inp['config'], 'pelID'))
        if not out.returned:
            P.prove(out.exc_class is SystemExit and ctx.is_true(z3.Not(ufun('id_is_valid', PyStr, z3.BoolSort())(arg))),
                    "fails only with SystemExit for an id that is not 8 hex digits")
            return
        want_id = mkstr([Opq(ufun('id_normalised', PyStr, PyStr)(arg))])
        first = None
        for j in range(self._d.n):
            c = _ops.str_contains(ctx, self._d.names[j], want_id)
            if ctx.is_true(c):
                first = j
                break
            P.prove(ctx.is_true(z3.Not(c)), "each name either contains the id or not on this path")
        if first is None:
            P.prove(Eq(list(ctx.stdout), [("PEL not found", '\n')]), "no top-level file name contains the id: 'PEL not found'")
        else:
            P.prove(Eq(list(ctx.stdout), [('document-of-file', str_term(self._d.path(first)))]),
                    "the first top-level file whose name contains the id is displayed - nothing else")
        self.pure(P)


class BmcIdMode(_ModeUnit):
    prop = "C10"
    name = "parsePelFromBmcID (--bmc-id)"
    target = PM + "parsePelFromBmcID"

    def mode_inputs(self, S):
        return dict(path=ROOT, config=mk_config(S, bmcID=S.opaque_str("bmc_arg")))

    def check(self, P, inp, old, out):
        if not P.symbolic:
            return
        ctx = P.ctx
        P.prove(out.returned, "the mode never fails, whatever the files contain")
        if not out.returned:
            return
        arg = field(inp['config'], 'bmcID')
        found = None
        for j in range(self._d.n):
            k = key_of(self._d.contents[j])
            idm = Eq(_ops.to_str(ctx, ufun('pel_obmc', Val, z3.IntSort())(k)), arg)
            c = z3.And(ufun('pel_ph_readable', Val, z3.BoolSort())(k), ph_ok(k), zbool2(idm))
            if ctx.is_true(c) and ctx.is_true(z3.Or(z3.Not(hdr_ok(k)), z3.Not(sel(k)), decodes(k))):
                found = j
                break
        if found is None:
            return
        k = key_of(self._d.contents[found])
        oc, _ = self.outcome_of(ctx, found)
        hexm = ctx.is_true(truth(field(inp['config'], 'hex')))
        P.prove(("PEL not found", '\n') not in list(ctx.stdout), "a PEL whose BMC event log id is N exists: not reported as missing")
        if oc == 'doc':
            want = [('hexdump-of', k)] if hexm else [(doc_text(k), '\n')]
            P.prove(Eq(list(ctx.stdout), want), "that PEL is displayed")
        self.pure(P)


def zbool2(x):
    return z3.BoolVal(x) if isinstance(x, bool) else x


class ProcessId(Unit):
    prop = "C10"
    name = "processId"
    target = PM + "processId"

    def inputs(self, S):
        n = S.choice("n", [8, 10, 7, 9, 0])
        pre = S.choice("prefix", ["", "0x", "0X"]) if n == 10 else ""
        t = S.text("id", n - len(pre)) if n - len(pre) > 0 else ""
        return dict(pid=cat(pre, t) if pre else t)

    def pre(self, S, inp):
        p = inp['pid']
        if isinstance(p, str):
            return True
        return And(*[c < 128 for c in p.segs if not isinstance(c, int)])

    def check(self, P, inp, old, out):
        p = inp['pid']
        chars = [ord(c) for c in p] if isinstance(p, str) else list(p.segs)

        def up(c):
            if isinstance(c, int):
                return ord(chr(c).upper())
            return z3.If(z3.And(c >= 97, c <= 122), c - 32, c)
        u = [up(c) for c in chars]
        has0x = len(u) >= 2 and And(Eq(u[0], 48), Eq(u[1], 88))
        rest = u[2:] if (has0x is True or (has0x is not False and branch(has0x))) else u
        if len(rest) == 8:
            P.prove(out.returned, "an id of 8 characters (after an optional 0x/0X) is accepted")
            if out.returned:
                P.prove(Eq(out.value, mkstr(rest)), "result == the id in upper case without the prefix")
        else:
            P.prove((not out.returned) and out.exc_class is SystemExit, "any other length exits with a message")


UNITS_C10 = [PlidMode, SrcMode, IdMode, BmcIdMode, ProcessId]
UNITS = UNITS_C09 + UNITS_C10


class PlidLemma(SectionUnit):
    """the platform log id string produced by the Private Header decoder contains the normalised 8-digit id X
    iff the 32-bit id equals X - for every id value (in particular ids below 0x10000000)"""
    prop = "C10"
    name = "PLID string vs --plid argument"
    target = PT + "private_header.PrivateHeader.toJSON"
    cls = PT + "private_header.PrivateHeader"
    with_creator = False

    def inputs(self, S):
        inp = SectionUnit.inputs(self, S)
        inp['_x'] = S.text("X", 8)
        return inp

    def ctor_args(self, inp):
        return SectionUnit.ctor_args(self, {k: v for k, v in inp.items() if k != '_x'})

    def pre(self, S, inp):
        s = inp['stream']
        d, o = field(s, 'data'), field(s, 'index')
        x = inp['_x']
        xs = [ord(c) for c in x] if isinstance(x, str) else list(x.segs)
        hexu = And(*[Or(And(c >= 48, c <= 57), And(c >= 65, c <= 70)) for c in xs])
        return And(ds_invariant(s), o + 40 <= field(s, 'size'), byte(d, o + 16) < 128, hexu)

    def check(self, P, inp, old, out):
        P.prove(out.returned, "PH decodes")
        if not out.returned:
            return
        ph, js = out.value
        d, o = old['stream'].data, old['stream'].index
        plid = be(d, o + 32, 4)
        x = inp['_x']
        shown = field(ph, 'pLID')
        if P.symbolic:
            chars = _ops.expand_str(P.ctx, shown)
            found = _ops.str_contains(P.ctx, mkstr(chars), x)
            t = I(0)
            for c in x.segs:
                t = t * 16 + _ops.hexval(c)
            if len(chars) == 10:
                # helper lemmas (proved, then available to the solver): base-16 expansion of the id and digit round trip
                ns = [simp((zint(plid) / I(16 ** (7 - i))) % 16) for i in range(8)]
                P.prove(Eq(plid, simp(sum((ns[i] * I(16 ** (7 - i)) for i in range(8)), I(0)))), "lemma: the id is the value of its eight hex digits")
                xs = list(x.segs)
                for i in range(8):
                    P.prove(Iff(Eq(xs[i], chars[2 + i]), Eq(_ops.hexval(xs[i]), ns[i])), "lemma: digit %d of X equals digit %d shown iff their values agree" % (i, i))
            P.prove(Iff(found, Eq(plid, simp(t))), "X is found in the displayed platform log id iff the 32-bit id equals X")
        else:
            P.prove((x in shown) == (plid == int(x, 16)), "X is found in the displayed platform log id iff the 32-bit id equals X")


UNITS_C10 = [PlidMode, SrcMode, IdMode, BmcIdMode, ProcessId, PlidLemma]
UNITS = UNITS_C09 + UNITS_C10


# ------------------------------------------------------------------ C08: file list
class GetFileList(_ModeUnit):
    prop = "C08"
    name = "getFileList"
    target = PM + "getFileList"
    contracts = []
    NFILES = [0, 1, 2, 3]

    def mode_inputs(self, S):
        self._ext = S.choice("ext", [None, ".pel"])
        return dict(path=ROOT, extension=self._ext, rev=S.bool("rev"))

    def check(self, P, inp, old, out):
        if not P.symbolic:
            return
        ctx = P.ctx
        P.prove(out.returned, "returns")
        if not out.returned:
            return
        root, lst = out.value
        P.prove(root == ROOT, "the directory returned is the one asked for (top level only)")
        keep = []
        for j, nm in enumerate(self._d.names):
            if self._ext is None:
                keep.append(nm)
            else:
                e = Eq(mkstr([Opq(ufun('splitext_ext', PyStr, PyStr)(str_term(nm)))]), self._ext)
                if ctx.is_true(e):
                    keep.append(nm)
                else:
                    P.prove(ctx.is_true(Not(e)), "each name either has the extension or not on this path")
        P.prove(len(lst) == len(keep), "exactly the top-level files that pass the extension filter (none from sub-directories)")
        if len(lst) != len(keep):
            return
        for x in lst:
            P.prove(Or(*[Eq(x, k) for k in keep]) if keep else False, "every listed name is one of them")
        for k in keep:
            P.prove(Or(*[Eq(x, k) for x in lst]), "every such file is listed")
        rev = ctx.is_true(truth(inp['rev']))
        for a, b in zip(lst, lst[1:]):
            lt = _ops.str_lt(ctx, a, b) if not rev else _ops.str_lt(ctx, b, a)
            P.prove(Or(lt, Eq(a, b)), "ascending file-name order (descending with reverse: exactly the reverse sequence)")
        self.pure(P)


# ------------------------------------------------------------------ C11: deletion
class DeleteAll(_ModeUnit):
    prop = "C11"
    name = "deleteAllPELs (--delete-all)"
    target = PM + "deleteAllPELs"
    contracts = []

    def mode_inputs(self, S):
        return dict(path=ROOT)

    def check(self, P, inp, old, out):
        if not P.symbolic:
            return
        ctx = P.ctx
        P.prove(out.returned, "returns")
        removed = [e[1] for e in ctx.fs if e[0] == 'remove']
        other = [e for e in ctx.fs if e[0] not in ('walk', 'remove', 'remove_ok')]
        P.prove(other == [], "nothing but removals happens")
        want = []
        for j in range(self._d.n):
            c = ufun('fs_isfile', PyStr, z3.BoolSort())(str_term(self._d.path(j)))
            if ctx.is_true(c):
                want.append(self._d.path(j))
            else:
                P.prove(ctx.is_true(z3.Not(c)), "each entry is a regular file or not on this path")
        P.prove(Eq(removed, want), "removed == all and only the regular files directly in the directory (never inside sub-directories)")


class DeleteOne(_ModeUnit):
    prop = "C11"
    name = "deletePELFromPELId (--delete)"
    target = PM + "deletePELFromPELId"
    contracts = [CProcessId]

    def mode_inputs(self, S):
        return dict(path=ROOT, pelID=S.opaque_str("id_arg"))

    def check(self, P, inp, old, out):
        if not P.symbolic:
            return
        ctx = P.ctx
        arg = str_term(inp['pelID'])
        removed = [e[1] for e in ctx.fs if e[0] == 'remove']
        if not out.returned:
            P.prove(out.exc_class is SystemExit and removed == [], "an invalid id exits without removing anything")
            return
        want_id = mkstr([Opq(ufun('id_normalised', PyStr, PyStr)(arg))])
        first = None
        for j in range(self._d.n):
            c = _ops.str_contains(ctx, self._d.names[j], want_id)
            if ctx.is_true(c):
                first = j
                break
        if first is None:
            P.prove(removed == [] and Eq(list(ctx.stdout), [("PEL not found", '\n')]), "no name contains the id: nothing removed, 'PEL not found'")
        else:
            P.prove(Eq(removed, [self._d.path(first)]) and len(ctx.stdout) == 0,
                    "exactly one file is removed: the first top-level file whose name contains the id")
        P.prove([e for e in ctx.fs if e[0] not in ('walk', 'remove', 'remove_ok')] == [], "nothing else is touched")


# ------------------------------------------------------------------ C12 / C11: --json [--clean]
class WriteOutput(Unit):
    """parseAndWriteOutput under every fault sequence of open / write / close / remove (each may raise OSError)"""
    prop = "C12"
    name = "parseAndWriteOutput (--json [--clean])"
    target = PM + "parseAndWriteOutput"
    contracts = [CParsePEL]
    io_faults = True
    max_paths = 5000

    def inputs(self, S):
        self._d = Dir(1)
        self.env = FsEnv(self._d)
        return dict(file=self._d.path(0), output_dir="/out", config=mk_config(S), delete_after_parsing=S.bool("clean"))

    def check(self, P, inp, old, out):
        if not P.symbolic:
            return
        ctx = P.ctx
        if not out.returned:
            P.prove(out.exc_class is OSError, "only an I/O error on the input file itself can escape")
        f = inp['file']
        k = key_of(self._d.contents[0])
        ev = list(ctx.fs)
        removes = [i for i, e in enumerate(ev) if e[0] == 'remove']
        writes_to = [e[1] for e in ev if e[0] in ('open_w',)]
        base = mkstr([Opq(ufun('path_basename', PyStr, PyStr)(str_term(f)))])
        want_out = mkstr([Opq(ufun('path_join', PyStr, PyStr, PyStr)(lit("/out"), str_term(cat(base, '.', eid_of(k), '.json'))))])
        for w in writes_to:
            P.prove(Eq(w, want_out), "the only file ever opened for writing is <output dir>/<pel file>.<entry id>.json")
        for i in removes:
            P.prove(Eq(ev[i][1], f), "only the input file itself is ever removed")
            P.prove(ctx.is_true(truth(inp['delete_after_parsing'])), "and only with --clean")
            closed_before = any(e[0] == 'close_ok' and Eq(e[1], want_out) is not False for e in ev[:i])
            wrote_before = any(e[0] == 'write_ok' for e in ev[:i])
            P.prove(closed_before and wrote_before,
                    "the input is removed only after its JSON output was written and closed successfully")
        if removes:
            oc = ctx.is_true(z3.And(hdr_ok(k), sel(k), decodes(k)))
            P.prove(oc, "a file that failed to decode or was filtered out is never removed")


class PrintFile(Unit):
    """parseAndPrintPELFile: contains every decode failure (C05), prints only the document (C09)"""
    prop = "C05"
    name = "parseAndPrintPELFile (-f)"
    target = PM + "parseAndPrintPELFile"
    contracts = [CParsePEL, CPrintHex]
    io_faults = False

    def inputs(self, S):
        self._d = Dir(1)
        self.env = FsEnv(self._d)
        return dict(file_path=self._d.path(0), config=mk_config(S), exit_on_error=S.bool("exit_on_error"))

    def check(self, P, inp, old, out):
        if not P.symbolic:
            return
        ctx = P.ctx
        k = key_of(self._d.contents[0])
        if not out.returned:
            P.prove(out.exc_class is SystemExit and out.exc.args == (1,), "the only way out other than returning is SystemExit(1)")
            P.prove(ctx.is_true(z3.And(z3.Not(hdr_ok(k)), zbool2(truth(inp['exit_on_error'])))), "and only for a wrong PH/UH id on the -f path")
            P.prove(len(ctx.stdout) == 0 and len(ctx.stderr) >= 1, "with a diagnostic on stderr and nothing on stdout")
            return
        doc = ctx.is_true(z3.And(hdr_ok(k), sel(k), decodes(k)))
        if doc:
            hexm = ctx.is_true(truth(field(inp['config'], 'hex')))
            P.prove(Eq(list(ctx.stdout), [('hexdump-of', k)] if hexm else [(doc_text(k), '\n')]), "a decodable, selected PEL: exactly its document on stdout")
        else:
            P.prove(len(ctx.stdout) == 0, "anything else: nothing on stdout")
            if ctx.is_true(z3.And(hdr_ok(k), sel(k), z3.Not(decodes(k)))):
                P.prove(len(ctx.stderr) == 1, "a decode failure is reported on stderr")
        P.prove([e for e in ctx.fs if e[0] not in ('open_r',)] == [], "no file-system change")


UNITS_C08 = [GetFileList]
UNITS_C11 = [DeleteAll, DeleteOne]
UNITS_C12 = [WriteOutput]
UNITS_C05 = [PrintFile]
UNITS = UNITS_C09 + UNITS_C10 + UNITS_C08 + UNITS_C11 + UNITS_C12 + UNITS_C05


# ------------------------------------------------------------------ main(): option mapping and mode dispatch (C07, C11, C12)
MODE_FUNCS = ["parsePelFromID", "parsePelFromBmcID", "parsePelFromPLID", "parsePelFromSRCID", "listOption", "printPELCount",
              "extractAllPELsData", "deletePELFromPELId", "deleteAllPELs", "parseAndWriteOutput"]


class CMode(Contract):
    def __init__(self, name):
        self.target = PM + name
        self.name = name

    def model(self, it, *args, **kw):
        it.ctx.ghost.setdefault('actions', []).append((self.name, args))
        return None


class CPrintFileMain(Contract):
    """parseAndPrintPELFile (proved above): True iff the document was displayed; may end with SystemExit(1)"""
    target = PM + "parseAndPrintPELFile"

    def model(self, it, file_path, config, exit_on_error):
        ctx = it.ctx
        ctx.ghost.setdefault('actions', []).append(("parseAndPrintPELFile", (file_path, config, exit_on_error)))
        oc = ufun('file_outcome', PyStr, z3.IntSort())(str_term(file_path))
        if ctx.decide(oc == 0):
            ctx.emit('stdout', ('document-of-file', str_term(file_path)))
            return True
        if ctx.decide(oc == 1):
            raise Raised(ExcObj(SystemExit, (1,)))
        return False


OPT_BOOLS = ['skip_plugins', 'list', 'all', 'show_pel_count', 'deleteAll', 'hex', 'reverse', 'every_pel', 'serviceable', 'non_serviceable',
             'hidden', 'critSysTerm', 'only', 'json', 'clean', 'archive']
OPT_STRS = ['file', 'IDToDelete', 'pelID', 'bmcID', 'plID', 'src', 'src_exclude_file', 'extension', 'output_dir', 'path']


class MainEnv(FsEnv):
    def __init__(self, d, ns):
        FsEnv.__init__(self, d)
        self.ns = ns

    def parse_args(self, it):
        return self.ns


class Main(Unit):
    prop = "C11"
    name = "main (option mapping, one action per invocation)"
    target = PM + "main"
    io_faults = False
    max_paths = 40000
    shards = 4

    @property
    def contracts(self):
        return [CMode(n) for n in MODE_FUNCS] + [CPrintFileMain]

    def inputs(self, S):
        ns = {}
        for b in OPT_BOOLS:
            ns[b] = S.bool("opt_" + b)
        # shard by which string options are present to keep the path count per task small
        present = {0: ['file'], 1: ['IDToDelete', 'pelID', 'bmcID'], 2: ['plID', 'src', 'src_exclude_file'], 3: []}[self.shard]
        for s_ in OPT_STRS:
            if s_ in ('extension', 'output_dir'):
                ns[s_] = S.choice("has_" + s_, [None, 'x'])
                if ns[s_] is not None:
                    ns[s_] = S.opaque_str("val_" + s_)
                    S.assume(ufun('slen', PyStr, z3.IntSort())(str_term(ns[s_])) > 0)
            elif s_ == 'path':
                ns[s_] = ROOT
            elif s_ in present:
                k = S.choice("has_" + s_, [None, 'x'])
                ns[s_] = None
                if k is not None:
                    ns[s_] = S.opaque_str("val_" + s_)
                    S.assume(ufun('slen', PyStr, z3.IntSort())(str_term(ns[s_])) > 0)
            else:
                ns[s_] = None
        sev = S.choice("severities", [None, ['Critical'], ['Informational', 'Symptom']])
        ns['severities'] = sev
        self._ns = ns
        self._d = Dir(S.choice("nfiles", [0, 2]))
        self.env = MainEnv(self._d, Obj(None, dict(ns)))
        return dict()

    def check(self, P, inp, old, out):
        if not P.symbolic:
            return
        ctx = P.ctx
        ns = self._ns
        acts = ctx.ghost.get('actions', [])
        T_ = lambda v: ctx.is_true(truth(v)) if is_z3(v) else bool(v)
        inbmc = ctx.is_true(ufun('fs_isdir', PyStr, z3.BoolSort())(lit("/var/lib/phosphor-logging/extensions/pels/logs/")))
        # which action is expected: the first option, in the documented order
        removes = [e for e in ctx.fs if e[0] == 'remove']
        if ns['file'] is not None:
            P.prove(len(acts) == 1 and acts[0][0] == "parseAndPrintPELFile" and Eq(acts[0][1][0], ns['file']) and acts[0][1][2] is True,
                    "-f: exactly that file is displayed (exit on header errors)")
            shown = ('document-of-file', str_term(ns['file'])) in [tuple(e) if isinstance(e, tuple) else e for e in ctx.stdout]
            if removes:
                P.prove(len(removes) == 1 and Eq(removes[0][1], ns['file']) and T_(ns['clean']) and shown,
                        "-f --clean: the file is removed only when --clean was given and its document was displayed")
            if out.exc is not None and out.exc_class is SystemExit and out.exc.args == (1,):
                P.prove(removes == [], "exit status 1: nothing is removed")
            cfg = acts[0][1][1] if acts else None
        else:
            P.prove(removes == [], "no file is removed outside -f --clean / --delete / --delete-all / --json --clean")
            cfg = None
            if not inbmc and False:
                pass
            want = None
            if T_(ns['json']):
                want = 'parseAndWriteOutput'
            elif ns['pelID'] is not None:
                want = 'parsePelFromID'
            elif ns['bmcID'] is not None:
                want = 'parsePelFromBmcID'
            elif ns['plID'] is not None:
                want = 'parsePelFromPLID'
            elif ns['src'] is not None:
                want = 'parsePelFromSRCID'
            elif ns['src_exclude_file'] is not None:
                want = 'parsePelFromSRCID'
            elif T_(ns['list']):
                want = 'listOption'
            elif T_(ns['show_pel_count']):
                want = 'printPELCount'
            elif T_(ns['all']):
                want = 'extractAllPELsData'
            elif ns['IDToDelete'] is not None:
                want = 'deletePELFromPELId'
            elif T_(ns['deleteAll']):
                want = 'deleteAllPELs'
            names = [a[0] for a in acts]
            if out.exc is not None and out.exc_class is SystemExit and out.exc.args and not isinstance(out.exc.args[0], int) and out.exc.args[0] is not None:
                P.prove(names == [], "a usage error (bad directory / missing file) exits before any action")
            elif want is None:
                P.prove(names == [], "no mode option: nothing is done")
            elif want == 'parseAndWriteOutput':
                P.prove(all(n == want for n in names) and len(names) <= self._d.n, "--json: one conversion per top-level file, nothing else")
                for a in acts:
                    P.prove(a[1][3] is ns['clean'] or Eq(a[1][3], ns['clean']), "--clean is passed through to the conversion")
            else:
                P.prove(names == [want], "exactly one action runs: the one selected by the options, in the documented precedence")
            cfg = acts[0][1][-1] if acts and acts[0][0] not in ('deletePELFromPELId', 'deleteAllPELs', 'parseAndWriteOutput') else \
                (acts[0][1][2] if acts and acts[0][0] == 'parseAndWriteOutput' else None)
        if cfg is not None and isinstance(cfg, Obj):
            for opt, fld, neg in (('skip_plugins', 'allow_plugins', True), ('serviceable', 'serviceable', False),
                                  ('non_serviceable', 'non_serviceable', False), ('critSysTerm', 'critSysTerm', False),
                                  ('hidden', 'hidden', False), ('only', 'only', False), ('every_pel', 'every_pel', False),
                                  ('hex', 'hex', False), ('reverse', 'rev', False)):
                P.prove(Iff(truth(field(cfg, fld)), Not(ns[opt]) if neg else ns[opt]),
                        "option --%s sets exactly Config.%s" % (opt.replace('_', '-'), fld))
            # look-up arguments reach the mode exactly as given (considerPEL tests their presence, the modes compare text)
            lookups = (('pelID', 'pelID'), ('bmcID', 'bmcID'), ('plID', 'plid'), ('src', 'src'), ('src_exclude_file', 'srcExcludeFile'))
            first = [o for o, _ in lookups if ns.get(o) is not None][:1]
            for opt, fld in lookups:
                if [opt] == first and acts and acts[0][0].startswith('parsePelFrom'):
                    got = field(cfg, fld)
                    P.prove((is_str(got) or isinstance(got, Choice)) and Eq(got, ns[opt]) is not False and
                            (Eq(got, ns[opt]) is True or P.ctx.is_true(Eq(got, ns[opt]))),
                            "look-up argument --%s reaches Config.%s unchanged (as text)" % (opt, fld))
            sev = ns['severities']
            wantsev = [T('severityGroupValues')[x] for x in (sev or [])]
            P.prove(isinstance(field(cfg, 'severities'), list), "Config.severities is a list (every PEL of the run is tested against it)")
            P.prove(list(field(cfg, 'severities')) == wantsev, "--severities maps the chosen group names to their digits")
        if out.returned:
            P.prove(acts == [] and ns['file'] is None, "main returns (instead of exiting) only when no mode was selected")
        else:
            P.prove(out.exc_class is SystemExit, "otherwise main ends with sys.exit")


UNITS_C11 = [DeleteAll, DeleteOne, Main]
UNITS = UNITS_C09 + UNITS_C10 + UNITS_C08 + UNITS_C11 + UNITS_C12 + UNITS_C05


# =================================================================== directories of ANY size: per-file loops by invariants
def dirn_fns():
    return (z3.Int('dir_n'), z3.Function('dir_fname', z3.IntSort(), PyStr), z3.Function('dir_fdata', z3.IntSort(), ByteArr),
            z3.Function('dir_flen', z3.IntSort(), z3.IntSort()))


class DirN:
    """a directory with a symbolic number n of top-level files (opaque names, arbitrary contents) + archive/ with a file"""

    def __init__(self, ctx):
        n, fname, fdata, flen = dirn_fns()
        ctx.assume(n >= 0)
        self.n = n
        from pyvc.models import LazySeq
        self.names = LazySeq(n, lambda j: mkstr([Opq(fname(zint(j)))]), 'dir_names')
        self.subname = mkstr([Opq(z3.Const('subfile', PyStr))])

    def content(self, j):
        n, fname, fdata, flen = dirn_fns()
        return SBytes(fdata(zint(j)), 0, flen(zint(j)), 'bytes')

    def key(self, j):
        return key_of(self.content(j))

    def index_of_path(self, path):
        return None

    def path(self, j, root=ROOT):
        n, fname, fdata, flen = dirn_fns()
        return mkstr([Opq(ufun('path_join', PyStr, PyStr, PyStr)(lit(root), fname(zint(j))))])


class FsEnvN(FsEnv):
    def os_walk(self, it, path):
        it.ctx.emit('fs', ('walk', path))
        sub = mkstr([Opq(ufun('path_join', PyStr, PyStr, PyStr)(str_term(path), lit('archive')))])
        return [(path, ['archive'], self.d.names), (sub, [], [self.d.subname])]

    def open_read(self, it, path, mode):
        ctx = it.ctx
        t = str_term(path)
        h = Handle(path, mode)
        if z3.is_app(t) and t.decl().name() == 'path_join' and t.num_args() == 2 and z3.is_app(t.arg(1)) and \
                t.arg(1).decl().name() == 'dir_fname':
            j = t.arg(1).arg(0)
            c = self.d.content(j)
            ctx.assume(zint(c.ln) >= 0)
            h.content = c
            return h
        return FsEnv.open_read(self, it, path, mode)


class CGetFileListN(Contract):
    """getFileList (proved in GetFileListN): the names that pass the filter, in sorted order - here the directory's own
    listing stands for that sorted list (names are opaque, their order arbitrary)"""
    target = PM + "getFileList"

    def model(self, it, path, extension, rev=False):
        it.ctx.emit('fs', ('walk', path))
        it.ctx.ghost.setdefault('gfl_args', []).append((path, extension, rev))
        return (path, it.ctx.env.d.names)


def no_mutation(ctx):
    return [e for e in ctx.fs if e[0] not in ('open_r', 'walk')] == []


class _ModeInv(LoopInv):
    """stdout == OUT(i): OUT(0) = what was printed before the loop; OUT(i+1) = OUT(i) ++ contribution of file i"""
    tag = None
    modifies_locals = ()

    def out_fn(self, ctx):
        return z3.Function('out_' + self.tag, z3.IntSort(), Val)

    def base(self, it, fr):
        ctx = it.ctx
        if not ctx.ghost.get('base_' + self.tag):
            ctx.ghost['base_' + self.tag] = True
            ctx.assume(self.out_fn(ctx)(0) == list_term(list(ctx.stdout)))
            self.base_extra(it, fr)

    def base_extra(self, it, fr):
        pass

    def heap_targets(self, it, fr):
        return []

    def havoc(self, it, fr, i):
        self.base(it, fr)
        ctx = it.ctx
        ctx.stdout[:] = [Chunk(self.out_fn(ctx)(zint(i)))]
        ctx.stderr[:] = []
        self.havoc_extra(it, fr, i)

    def havoc_extra(self, it, fr, i):
        pass

    def inv(self, it, fr, i):
        self.base(it, fr)
        ctx = it.ctx
        if not no_mutation(ctx):
            return False
        return And(list_term(list(ctx.stdout)) == self.out_fn(ctx)(zint(i)), self.inv_extra(it, fr, i))

    def inv_extra(self, it, fr, i):
        return True

    def unfold(self, it, fr, i):
        ctx = it.ctx
        OUT = self.out_fn(ctx)
        contrib = self.contribution(it, fr, i)
        t = OUT(zint(i))
        for ev in contrib:
            t = v_snoc(t, val_term(ev))
        ctx.assume(OUT(zint(i) + 1) == t)
        self.unfold_extra(it, fr, i)

    def unfold_extra(self, it, fr, i):
        pass


def file_outcome(ctx, k):
    """decided outcome of one file on this path: 'doc' | 'none' | 'error' (forks when undetermined)"""
    if not branch(hdr_ok(k)):
        return 'none'
    if not branch(sel(k)):
        return 'none'
    if not branch(decodes(k)):
        return 'error'
    return 'doc'


class _ModeUnitN(Unit):
    io_faults = False
    max_paths = 20000

    def inputs(self, S):
        self._S = S
        self._last_inp = self.mode_inputs(S)
        return self._last_inp

    def setup_ctx(self, ctx):
        d = DirN(ctx)
        ctx.env = FsEnvN(d)
        self._d = d

    env = None

    def pure(self, P):
        P.prove(no_mutation(P.ctx), "the directory tree is left untouched (no remove / write / rename)")
        check_file_list_args(self, P)


class CountInv(_ModeInv):
    func = PM + "printPELCount"
    loop = 0
    tag = 'count'
    modifies_locals = ('file', 'fd', 'data', 'stream', 'out', 'ret', 'ph', 'uh', 'count', 'e')

    def cnt(self):
        return z3.Function('count_upto', z3.IntSort(), z3.IntSort())

    def base_extra(self, it, fr):
        it.ctx.assume(self.cnt()(0) == 0)

    def havoc_extra(self, it, fr, i):
        fr.locals['count'] = self.cnt()(zint(i))

    def inv_extra(self, it, fr, i):
        return Eq(fr.locals['count'], self.cnt()(zint(i)))

    def contribution(self, it, fr, i):
        return []

    def unfold_extra(self, it, fr, i):
        k = it.ctx.env.d.key(i)
        c = z3.And(ufun('pel_ph_readable', Val, z3.BoolSort())(k), ph_ok(k), ufun('pel_uh_readable', Val, z3.BoolSort())(k),
                   ufun('pel_uh_ok', Val, z3.BoolSort())(k), sel(k))
        it.ctx.assume(self.cnt()(zint(i) + 1) == self.cnt()(zint(i)) + z3.If(c, 1, 0))


class CountN(_ModeUnitN):
    prop = "C08"
    name = "printPELCount (-n), any number of files"
    target = PM + "printPELCount"
    contracts = DECODER_CONTRACTS + [CGetFileListN]
    invariants = [CountInv]

    def mode_inputs(self, S):
        return dict(path=ROOT, config=mk_config(S))

    def check(self, P, inp, old, out):
        if not P.symbolic:
            return
        ctx = P.ctx
        P.prove(out.returned, "the mode never fails, whatever the files contain")
        if not out.returned:
            return
        n = dirn_fns()[0]
        cnt = z3.Function('count_upto', z3.IntSort(), z3.IntSort())(n)
        inv = list(ctx.invariants.values())[0]
        want = v_snoc(inv.out_fn(ctx)(n), val_term((cat('{\n    "Number of PELs found": ', fmt(cnt, 'd'), '\n}'), '\n')))
        P.prove(list_term(list(ctx.stdout)) == want,
                "stdout == one JSON object with count_upto(n): the number of files whose two headers are valid and that are selected")
        P.prove(inv.out_fn(ctx)(0) == v_nil(), "nothing is printed before the count")
        self.pure(P)


UNITS_N = [CountN]


class AllInv(_ModeInv):
    func = PM + "extractAllPELsData"
    loop = 0
    tag = 'all'
    modifies_locals = ('file', 'fd', 'data', 'stream', '_', 'json_string', 'firstPELPrinted', 'e')

    def fp(self):
        return z3.Function('first_printed', z3.IntSort(), z3.BoolSort())

    def base_extra(self, it, fr):
        it.ctx.assume(self.fp()(0) == z3.BoolVal(False))

    def havoc_extra(self, it, fr, i):
        fr.locals['firstPELPrinted'] = self.fp()(zint(i))

    def inv_extra(self, it, fr, i):
        return Iff(truth(fr.locals['firstPELPrinted']), self.fp()(zint(i)))

    def contribution(self, it, fr, i):
        ctx = it.ctx
        k = ctx.env.d.key(i)
        oc = file_outcome(ctx, k)
        hexm = branch(truth(field(fr.locals['config'], 'hex')))
        self._printed = False
        if oc != 'doc':
            return []
        if hexm:
            return [('hexdump-of', k)]
        self._printed = True
        ev = []
        if branch(self.fp()(zint(i))):
            ev.append((",", '\n'))
        ev.append((doc_text(k), ""))
        return ev

    def unfold_extra(self, it, fr, i):
        fp = self.fp()
        it.ctx.assume(fp(zint(i) + 1) == (z3.Or(fp(zint(i)), z3.BoolVal(True)) if self._printed else fp(zint(i))))


class AllPelsN(_ModeUnitN):
    prop = "C09"
    name = "extractAllPELsData (-a), any number of files"
    target = PM + "extractAllPELsData"
    contracts = DECODER_CONTRACTS + [CGetFileListN]
    invariants = [AllInv]

    def mode_inputs(self, S):
        return dict(path=ROOT, config=mk_config(S))

    def check(self, P, inp, old, out):
        if not P.symbolic:
            return
        ctx = P.ctx
        P.prove(out.returned, "the mode never fails, whatever the files contain")
        if not out.returned:
            return
        n = dirn_fns()[0]
        inv = list(ctx.invariants.values())[0]
        OUT, FP = inv.out_fn(ctx), inv.fp()
        hexm = branch(truth(field(inp['config'], 'hex')))
        t = OUT(n)
        if not hexm:
            if branch(FP(n)):
                t = v_snoc(t, val_term(("", '\n')))
            t = v_snoc(t, val_term(("]", '\n')))
        P.prove(list_term(list(ctx.stdout)) == t,
                "stdout == opening + OUT(n) + closing, where OUT adds for each selected, decodable file in list order its document "
                "(preceded by ',' iff a document was printed before) and nothing for any other file")
        P.prove(OUT(0) == (v_nil() if hexm else list_term([("[", '\n')])), "the array is opened before the first file")
        self.pure(P)


class _SummaryInv(_ModeInv):
    """modes that collect summaries into final_summary: dict == SUM(i)"""

    def sum_fn(self):
        return z3.Function('summ_' + self.tag, z3.IntSort(), Val)

    def base_extra(self, it, fr):
        from pyvc.seq import dict_term
        it.ctx.assume(self.sum_fn()(0) == dict_term(fr.locals['final_summary']))

    def havoc_extra(self, it, fr, i):
        d = fr.locals['final_summary']
        d.sym[:] = []
        d.base_term = self.sum_fn()(zint(i))

    def inv_extra(self, it, fr, i):
        from pyvc.seq import dict_term
        return dict_term(fr.locals['final_summary']) == self.sum_fn()(zint(i))

    def heap_targets(self, it, fr):
        return [fr.locals['final_summary']]

    def matches(self, it, fr, i, k):
        return True

    def contribution(self, it, fr, i):
        ctx = it.ctx
        k = ctx.env.d.key(i)
        self._add = None
        if not branch(hdr_ok(k)) or not branch(sel(k)) or not branch(ufun('pel_summary_decodes', Val, z3.BoolSort())(k)):
            return []
        if not self.matches(it, fr, i, k):
            return []
        if branch(truth(field(fr.locals['config'], 'hex'))):
            return [('hexdump-of', k)]
        self._add = k
        return []

    def unfold_extra(self, it, fr, i):
        S = self.sum_fn()
        t = S(zint(i))
        if self._add is not None:
            k = self._add
            t = ufun('v_dsnoc', Val, PyStr, Val, Val)(t, ufun('pel_eid0x', Val, PyStr)(k), val_term(summary_of(k)))
        it.ctx.assume(S(zint(i) + 1) == t)


class ListInv(_SummaryInv):
    func = PM + "listOption"
    loop = 0
    tag = 'list'
    modifies_locals = ('file', 'eid', 'summary')


class CExtractAndSummarize(Contract):
    """extractAndSummarizePEL: inlined in the bounded unit; here by contract: (eid, summary) for a selected, decodable
    file (hex dump printed instead when --hex), ('', '') otherwise; decode errors go to stderr"""
    target = PM + "extractAndSummarizePEL"

    def model(self, it, file, config):
        ctx = it.ctx
        h = ctx.env.open_read(it, file, 'rb')
        ctx.emit('fs', ('open_r', file))
        k = key_of(h.content)
        if not ctx.decide(hdr_ok(k)):
            return ("", "")
        if not ctx.decide(sel(k)):
            return ("", "")
        if not ctx.decide(ufun('pel_summary_decodes', Val, z3.BoolSort())(k)):
            ctx.emit('stderr', ('decode error', '\n'))
            return ("", "")
        if truthy_(ctx, field(config, 'hex')):
            ctx.emit('stdout', ('hexdump-of', k))
            return ("", "")
        e = mkstr([Opq(ufun('pel_eid0x', Val, PyStr)(k))])
        ctx.assume(ufun('slen', PyStr, z3.IntSort())(str_term(e)) > 0)
        return (e, summary_of(k))


class ListN(_ModeUnitN):
    prop = "C09"
    name = "listOption (-l), any number of files"
    target = PM + "listOption"
    contracts = DECODER_CONTRACTS + [CGetFileListN, CExtractAndSummarize]
    invariants = [ListInv]

    def mode_inputs(self, S):
        return dict(path=ROOT, config=mk_config(S))

    def check(self, P, inp, old, out):
        if not P.symbolic:
            return
        ctx = P.ctx
        P.prove(out.returned, "the mode never fails, whatever the files contain")
        if not out.returned:
            return
        n = dirn_fns()[0]
        inv = list(ctx.invariants.values())[0]
        OUT, SUM = inv.out_fn(ctx), inv.sum_fn()
        if branch(truth(field(inp['config'], 'hex'))):
            P.prove(list_term(list(ctx.stdout)) == OUT(n), "--hex: the delimited hex dumps of the selected files, in list order")
        else:
            evs = list(ctx.stdout)
            P.prove(len(evs) >= 1 and isinstance(evs[-1][0], DumpedStr), "the document is printed last")
            if evs and isinstance(evs[-1][0], DumpedStr):
                from pyvc.seq import dict_term
                P.prove(dict_term(evs[-1][0].value) == SUM(n),
                        "the document == SUM(n): one entry per selected, decodable file, in list order, keyed by entry id")
                P.prove(list_term(evs[:-1]) == OUT(n), "nothing else is printed (OUT adds nothing without --hex)")
        P.prove(OUT(0) == v_nil() and SUM(0) == ufun('v_dnil', Val)(), "nothing is printed or collected before the first file")
        self.pure(P)


class PlidInv(_SummaryInv):
    func = PM + "parsePelFromPLID"
    loop = 0
    tag = 'plid'
    modifies_locals = ('file', 'fd', 'data', 'stream', 'eid', 'summary', 'e')

    def matches(self, it, fr, i, k):
        return branch(_ops.str_contains(it.ctx, summary_of(k)["PLID"], fr.locals['plid']))


class PlidN(_ModeUnitN):
    prop = "C10"
    name = "parsePelFromPLID (--plid), any number of files"
    target = PM + "parsePelFromPLID"
    contracts = DECODER_CONTRACTS + [CGetFileListN, CProcessId]
    invariants = [PlidInv]

    def mode_inputs(self, S):
        return dict(path=ROOT, config=mk_config(S, plid=S.opaque_str("plid_arg")))

    def check(self, P, inp, old, out):
        if not P.symbolic:
            return
        ctx = P.ctx
        if not out.returned:
            P.prove(out.exc_class is SystemExit and len(ctx.stdout) == 0, "fails only with SystemExit for an invalid id, printing nothing")
            return
        n = dirn_fns()[0]
        inv = list(ctx.invariants.values())[0]
        OUT, SUM = inv.out_fn(ctx), inv.sum_fn()
        if branch(truth(field(inp['config'], 'hex'))):
            P.prove(list_term(list(ctx.stdout)) == OUT(n), "--hex: exactly the matching files are dumped, in list order")
        else:
            evs = list(ctx.stdout)
            P.prove(len(evs) >= 1 and isinstance(evs[-1][0], DumpedStr), "the document is printed last")
            if evs and isinstance(evs[-1][0], DumpedStr):
                from pyvc.seq import dict_term
                P.prove(dict_term(evs[-1][0].value) == SUM(n),
                        "listed == exactly the selected, decodable files whose displayed platform log id contains the normalised id")
        self.pure(P)


class SrcInv(_SummaryInv):
    func = PM + "parsePelFromSRCID"
    loop = 0
    tag = 'src'
    modifies_locals = ('file', 'fd', 'data', 'stream', 'eid', 'summary', 'e')

    def matches(self, it, fr, i, k):
        c = fr.locals['config']
        src = field(c, 'src')
        if src is not None:
            return branch(_ops.str_contains(it.ctx, summary_of(k)["SRC"], src))
        excl = fr.locals['src_exclude_file_data']
        return not branch(_ops.str_contains(it.ctx, excl, summary_of(k)["SRC"]))


class SrcN(_ModeUnitN):
    prop = "C10"
    name = "parsePelFromSRCID (--src / --src-exclude), any number of files"
    target = PM + "parsePelFromSRCID"
    contracts = DECODER_CONTRACTS + [CGetFileListN]
    invariants = [SrcInv]
    shards = 2

    def mode_inputs(self, S):
        if self.shard == 0:
            a = S.opaque_str("src_arg")
            S.assume(ufun('slen', PyStr, z3.IntSort())(str_term(a)) > 0)
            return dict(path=ROOT, config=mk_config(S, src=a))
        return dict(path=ROOT, config=mk_config(S, srcExcludeFile="/tmp/exclude.txt"))

    def check(self, P, inp, old, out):
        if not P.symbolic:
            return
        ctx = P.ctx
        if not out.returned:
            P.prove(out.exc_class is SystemExit and self.shard == 0, "fails only with SystemExit for an SRC longer than 32 characters")
            return
        n = dirn_fns()[0]
        inv = list(ctx.invariants.values())[0]
        OUT, SUM = inv.out_fn(ctx), inv.sum_fn()
        if branch(truth(field(inp['config'], 'hex'))):
            P.prove(list_term(list(ctx.stdout)) == OUT(n), "--hex: exactly the matching files are dumped, in list order")
        else:
            evs = list(ctx.stdout)
            P.prove(len(evs) >= 1 and isinstance(evs[-1][0], DumpedStr), "the document is printed last")
            if evs and isinstance(evs[-1][0], DumpedStr):
                from pyvc.seq import dict_term
                P.prove(dict_term(evs[-1][0].value) == SUM(n),
                        "listed == exactly the selected files whose reference code contains S (resp. is not in the exclusion file)")
        self.pure(P)


UNITS_N = [CountN, AllPelsN, ListN, PlidN, SrcN]


# ---- loops that stop at the first match (break): invariant "no earlier file matched"
class _FirstMatchInv(LoopInv):
    """for file in files: if not match: continue; <act>; break   -  invariant: nothing happened so far and no file
    before i matches"""
    tag = None
    modifies_locals = ()

    def m(self):
        return z3.Function('match_' + self.tag, z3.IntSort(), z3.BoolSort())

    def match_def(self, it, fr, i):
        raise NotImplementedError

    def heap_targets(self, it, fr):
        return []

    def havoc(self, it, fr, i):
        ctx = it.ctx
        # definitional: match(i) <=> the loop's own test on file i
        ctx.assume(self.m()(zint(i)) == zbool2(self.match_def(it, fr, i)))
        if 'foundID' in fr.locals:
            fr.locals['foundID'] = False

    def inv(self, it, fr, i):
        ctx = it.ctx
        k = z3.Int('k!fm')
        quiet = len(ctx.stdout) == 0 and [e for e in ctx.fs if e[0] not in ('open_r', 'walk')] == []
        if not quiet:
            return False
        fid = fr.locals.get('foundID', False)
        return And(Not(truth(fid)) if not isinstance(fid, bool) else (not fid),
                   z3.ForAll([k], z3.Implies(z3.And(k >= 0, k < zint(i)), z3.Not(self.m()(k)))))


class IdInv(_FirstMatchInv):
    func = PM + "parsePelFromID"
    loop = 1
    tag = 'id'
    modifies_locals = ('file', 'foundID')

    def match_def(self, it, fr, i):
        return _ops.str_contains(it.ctx, it.ctx.env.d.names.elem(i), fr.locals['pelID'])


class IdN(_ModeUnitN):
    prop = "C10"
    name = "parsePelFromID (--id), any number of files"
    target = PM + "parsePelFromID"
    contracts = DECODER_CONTRACTS + [CProcessId, CPrintFile]
    invariants = [IdInv]

    def mode_inputs(self, S):
        return dict(path=ROOT, config=mk_config(S, pelID=S.opaque_str("id_arg")))

    def check(self, P, inp, old, out):
        if not P.symbolic:
            return
        ctx = P.ctx
        if not out.returned:
            P.prove(out.exc_class is SystemExit and len(ctx.stdout) == 0, "fails only with SystemExit for an invalid id")
            return
        n = dirn_fns()[0]
        inv = list(ctx.invariants.values())[0]
        m = inv.m()
        k = z3.Int('k!idp')
        how = ctx.ghost.get(IdInv.func + '#loop1.exit')
        j = ctx.ghost.get(IdInv.func + '#loop1.exit_index')
        if how == 'exhausted':
            P.prove(Eq(list(ctx.stdout), [("PEL not found", '\n')]), "no top-level file name contains the id: 'PEL not found'")
            P.prove(z3.ForAll([k], z3.Implies(z3.And(k >= 0, k < n), z3.Not(m(k)))), "indeed no name contains the id")
        else:
            P.prove(Eq(list(ctx.stdout), [('document-of-file', str_term(ctx.env.d.path(j)))]),
                    "exactly one file is displayed: the first top-level file whose name contains the id")
            P.prove(z3.And(m(zint(j)), z3.ForAll([k], z3.Implies(z3.And(k >= 0, k < zint(j)), z3.Not(m(k))))), "it matches and no earlier file does")
        self.pure(P)


class DelOneInv(_FirstMatchInv):
    func = PM + "deletePELFromPELId"
    loop = 1
    tag = 'del'
    modifies_locals = ('file', 'foundID')

    def match_def(self, it, fr, i):
        return _ops.str_contains(it.ctx, it.ctx.env.d.names.elem(i), fr.locals['pelID'])


class DeleteOneN(_ModeUnitN):
    prop = "C11"
    name = "deletePELFromPELId (--delete), any number of files"
    target = PM + "deletePELFromPELId"
    contracts = [CProcessId]
    invariants = [DelOneInv]

    def mode_inputs(self, S):
        return dict(path=ROOT, pelID=S.opaque_str("id_arg"))

    def check(self, P, inp, old, out):
        if not P.symbolic:
            return
        ctx = P.ctx
        removed = [e[1] for e in ctx.fs if e[0] == 'remove']
        if not out.returned:
            P.prove(out.exc_class is SystemExit and removed == [], "an invalid id exits without removing anything")
            return
        n = dirn_fns()[0]
        inv = list(ctx.invariants.values())[0]
        m = inv.m()
        k = z3.Int('k!dp')
        how = ctx.ghost.get(DelOneInv.func + '#loop1.exit')
        j = ctx.ghost.get(DelOneInv.func + '#loop1.exit_index')
        if how == 'exhausted':
            P.prove(removed == [] and Eq(list(ctx.stdout), [("PEL not found", '\n')]), "no name contains the id: nothing removed, 'PEL not found'")
        else:
            P.prove(Eq(removed, [ctx.env.d.path(j)]) and len(ctx.stdout) == 0,
                    "exactly one file is removed: the first top-level file whose name contains the id")
            P.prove(z3.And(m(zint(j)), z3.ForAll([k], z3.Implies(z3.And(k >= 0, k < zint(j)), z3.Not(m(k))))), "it matches and no earlier file does")
        P.prove([e for e in ctx.fs if e[0] not in ('walk', 'remove', 'remove_ok')] == [], "nothing else is touched")


class DelAllInv(LoopInv):
    func = PM + "deleteAllPELs"
    loop = 1
    modifies_locals = ('file',)

    def rm(self):
        return z3.Function('removed_upto', z3.IntSort(), Val)

    def heap_targets(self, it, fr):
        return []

    def havoc(self, it, fr, i):
        ctx = it.ctx
        if not ctx.ghost.get('da_base'):
            ctx.ghost['da_base'] = True
            ctx.assume(self.rm()(0) == v_nil())
        ctx.fs[:] = [Chunk(self.rm()(zint(i)))]

    def removes(self, ctx):
        out = []
        for e in ctx.fs:
            if isinstance(e, Chunk):
                out.append(e)
            elif e[0] == 'remove':
                out.append(e[1])
            elif e[0] not in ('walk', 'remove_ok'):
                return None
        return out

    def inv(self, it, fr, i):
        ctx = it.ctx
        if not ctx.ghost.get('da_base'):
            ctx.ghost['da_base'] = True
            ctx.assume(self.rm()(0) == v_nil())
        r = self.removes(ctx)
        if r is None:
            return False
        return list_term(r) == self.rm()(zint(i))

    def unfold(self, it, fr, i):
        ctx = it.ctx
        p = ctx.env.d.path(i)
        isf = ufun('fs_isfile', PyStr, z3.BoolSort())(str_term(p))
        RM = self.rm()
        ctx.assume(RM(zint(i) + 1) == z3.If(isf, v_snoc(RM(zint(i)), val_term(p)), RM(zint(i))))


class DeleteAllN(_ModeUnitN):
    prop = "C11"
    name = "deleteAllPELs (--delete-all), any number of files"
    target = PM + "deleteAllPELs"
    contracts = []
    invariants = [DelAllInv]

    def mode_inputs(self, S):
        return dict(path=ROOT)

    def check(self, P, inp, old, out):
        if not P.symbolic:
            return
        ctx = P.ctx
        P.prove(out.returned, "returns")
        inv = list(ctx.invariants.values())[0]
        r = inv.removes(ctx)
        P.prove(r is not None, "nothing but removals happens")
        if r is not None:
            P.prove(list_term(r) == inv.rm()(dirn_fns()[0]),
                    "removed == REM(n): exactly the top-level entries that are regular files, in order; the sub-directory's file is never touched")


class GflInv(LoopInv):
    func = PM + "getFileList"
    loop = 1
    modifies_locals = ('file',)

    def fl(self):
        return z3.Function('filtered_upto', z3.IntSort(), Val)

    def heap_targets(self, it, fr):
        return [fr.locals['file_list']]

    def base(self, ctx):
        if not ctx.ghost.get('gfl_base'):
            ctx.ghost['gfl_base'] = True
            ctx.assume(self.fl()(0) == v_nil())

    def havoc(self, it, fr, i):
        self.base(it.ctx)
        fr.locals['file_list'][:] = [Chunk(self.fl()(zint(i)))]

    def inv(self, it, fr, i):
        self.base(it.ctx)
        return list_term(fr.locals['file_list']) == self.fl()(zint(i))

    def unfold(self, it, fr, i):
        ctx = it.ctx
        nm = ctx.env.d.names.elem(i)
        ext = fr.locals['extension']
        FL = self.fl()
        keep = True
        if ext is not None and not (isinstance(ext, str) and ext == ''):
            keep = Eq(mkstr([Opq(ufun('splitext_ext', PyStr, PyStr)(str_term(nm)))]), ext)
        if branch(keep):
            ctx.assume(FL(zint(i) + 1) == v_snoc(FL(zint(i)), val_term(nm)))
        else:
            ctx.assume(FL(zint(i) + 1) == FL(zint(i)))


class CListSort(Contract):
    """assumed (table B): list.sort(reverse=r) turns the list into sorted(list, reverse=r) - a function of the list"""
    target = "__list_sort__"


class GetFileListN(_ModeUnitN):
    prop = "C08"
    name = "getFileList, any number of files"
    target = PM + "getFileList"
    contracts = []
    invariants = [GflInv]

    def mode_inputs(self, S):
        ext = S.choice("ext", [None, 'x'])
        if ext is not None:
            ext = S.opaque_str("ext_arg")
            S.assume(ufun('slen', PyStr, z3.IntSort())(str_term(ext)) > 0)
        return dict(path=ROOT, extension=ext, rev=S.bool("rev"))

    def check(self, P, inp, old, out):
        if not P.symbolic:
            return
        ctx = P.ctx
        P.prove(out.returned, "returns")
        if not out.returned:
            return
        root, lst = out.value
        P.prove(root == ROOT, "the directory returned is the one asked for (top level only: the walk is left after its first step)")
        inv = list(ctx.invariants.values())[0]
        n = dirn_fns()[0]
        want = ufun('spec_sorted', Val, z3.BoolSort(), Val)(inv.fl()(n), zbool2(truth(inp['rev'])))
        P.prove(list_term(lst) == want,
                "result == sorted(FILT(n), reverse=rev) where FILT keeps exactly the top-level names with the requested extension")
        self.pure(P)


UNITS_N = [CountN, AllPelsN, ListN, PlidN, SrcN, IdN, DeleteOneN, DeleteAllN, GetFileListN]


class BmcInv(_FirstMatchInv):
    func = PM + "parsePelFromBmcID"
    loop = 1
    tag = 'bmc'
    modifies_locals = ('file', 'fd', 'data', 'stream', 'out', '_', 'ph', 'json_string', 'foundID', 'e')

    def match_def(self, it, fr, i):
        ctx = it.ctx
        k = ctx.env.d.key(i)
        idm = Eq(_ops.to_str(ctx, ufun('pel_obmc', Val, z3.IntSort())(k)), field(fr.locals['config'], 'bmcID'))
        return z3.And(ufun('pel_ph_readable', Val, z3.BoolSort())(k), ph_ok(k), zbool2(idm),
                      z3.Or(z3.Not(hdr_ok(k)), z3.Not(sel(k)), decodes(k)))


class BmcN(_ModeUnitN):
    prop = "C10"
    name = "parsePelFromBmcID (--bmc-id), any number of files"
    target = PM + "parsePelFromBmcID"
    contracts = DECODER_CONTRACTS
    invariants = [BmcInv]

    def mode_inputs(self, S):
        return dict(path=ROOT, config=mk_config(S, bmcID=S.opaque_str("bmc_arg")))

    def check(self, P, inp, old, out):
        if not P.symbolic:
            return
        ctx = P.ctx
        P.prove(out.returned, "the mode never fails, whatever the files contain")
        if not out.returned:
            return
        n = dirn_fns()[0]
        inv = list(ctx.invariants.values())[0]
        m = inv.m()
        kk = z3.Int('k!bp')
        how = ctx.ghost.get(BmcInv.func + '#loop1.exit')
        j = ctx.ghost.get(BmcInv.func + '#loop1.exit_index')
        if how == 'exhausted':
            P.prove(Eq(list(ctx.stdout), [("PEL not found", '\n')]), "no file has that BMC event log id (or none of them can be decoded): 'PEL not found'")
            P.prove(z3.ForAll([kk], z3.Implies(z3.And(kk >= 0, kk < n), z3.Not(m(kk)))), "indeed none matches")
        else:
            k = ctx.env.d.key(j)
            hexm = branch(truth(field(inp['config'], 'hex')))
            oc = file_outcome(ctx, k)
            want = [] if oc != 'doc' else ([('hexdump-of', k)] if hexm else [(doc_text(k), '\n')])
            P.prove(Eq(list(ctx.stdout), want), "the first file whose BMC event log id is N is displayed (if it is selected) - nothing else, never 'PEL not found'")
            P.prove(z3.And(m(zint(j)), z3.ForAll([kk], z3.Implies(z3.And(kk >= 0, kk < zint(j)), z3.Not(m(kk))))), "it matches and no earlier file does")
        self.pure(P)


UNITS_N = [CountN, AllPelsN, ListN, PlidN, SrcN, IdN, BmcN, DeleteOneN, DeleteAllN, GetFileListN]



# ------------------------------------------------------------------ C12: -f --hex --clean with a failing stdout
class CHexdumpTwoLines(Contract):
    """hexdump through its contract, with two representative lines (every line is printed by the same statement)"""
    target = "pel.hexdump.hexdump"

    def model(self, it, data, bytes_per_line=16, bytes_per_chunk=4):
        return [mkstr([Opq(ufun('hex_line', z3.IntSort(), PyStr)(I(0)))]), mkstr([Opq(ufun('hex_line', z3.IntSort(), PyStr)(I(1)))])]


class PrintFileFaults(Unit):
    """parseAndPrintPELFile with a stdout that may fail at any print (EPIPE/ENOSPC): it reports 'displayed' only if
    every print of the document / of the hex display succeeded"""
    prop = "C12"
    name = "parseAndPrintPELFile with failing stdout"
    target = PM + "parseAndPrintPELFile"
    contracts = [CParsePEL, CHexdumpTwoLines]
    io_faults = False

    def setup_ctx(self, ctx):
        ctx.stdout_faults = True

    def inputs(self, S):
        self._d = Dir(1)
        self.env = FsEnv(self._d)
        return dict(file_path=self._d.path(0), config=mk_config(S), exit_on_error=S.bool("exit_on_error"))

    def check(self, P, inp, old, out):
        if not P.symbolic:
            return
        ctx = P.ctx
        if not out.returned:
            P.prove(out.exc_class is SystemExit, "the only way out other than returning is SystemExit")
            return
        failed = any(e == ('fail',) for e in ctx.stdout)
        if failed:
            P.prove(out.value is False or out.value is None, "a failed print means 'not displayed' (so --clean keeps the file)")
        k = key_of(self._d.contents[0])
        if out.value is True:
            P.prove(ctx.is_true(z3.And(hdr_ok(k), sel(k), decodes(k))) and not failed,
                    "'displayed' is reported only for a decoded, selected PEL whose output was written completely")


UNITS_C12 = [WriteOutput, PrintFileFaults]


# ------------------------------------------------------------------ main --json over a directory of ANY size
class CWriteOutputN(Contract):
    """parseAndWriteOutput (proved in WriteOutput): here only recorded - which file, which output directory, --clean"""
    target = PM + "parseAndWriteOutput"

    def model(self, it, file_path, output_dir, config, clean):
        g = it.ctx.ghost
        g.setdefault('jactions', []).append((file_path, output_dir, clean))
        g.setdefault('jconfigs', []).append(config)
        return None


BMC_DIR = "/var/lib/phosphor-logging/extensions/pels/logs/"
BMC_ARCHIVE = "/var/lib/phosphor-logging/extensions/pels/logs/archive"


def spec_pels_dir(ctx, args):
    """the documented rule: outside a BMC the directory is -p's argument; on a BMC the log directory, or its archive with -A"""
    if branch(ufun('fs_isdir', PyStr, z3.BoolSort())(lit(BMC_DIR))):
        return BMC_ARCHIVE if branch(truth(field(args, 'archive'))) else BMC_DIR
    return field(args, 'path')


def spec_out_dir(ctx, args):
    o = field(args, 'output_dir')
    return o if o is not None else spec_pels_dir(ctx, args)


def join_dir(d, nm):
    return mkstr([Opq(ufun('path_join', PyStr, PyStr, PyStr)(str_term(d), str_term(nm)))])


class MainJsonInv(LoopInv):
    """conversions so far == ACT(i): ACT(i+1) = ACT(i) ++ [(join(dir, name_i), outdir, clean)] iff name_i passes the
    extension filter"""
    func = PM + "main"
    loop = 1
    modifies_locals = ('file',)

    def act(self):
        return z3.Function('json_actions_upto', z3.IntSort(), Val)

    def heap_targets(self, it, fr):
        return []

    def base(self, ctx):
        if not ctx.ghost.get('mj_base'):
            ctx.ghost['mj_base'] = True
            ctx.assume(self.act()(0) == list_term(ctx.ghost.setdefault('jactions', [])))

    def havoc(self, it, fr, i):
        self.base(it.ctx)
        it.ctx.ghost['jactions'][:] = [Chunk(self.act()(zint(i)))]

    def inv(self, it, fr, i):
        self.base(it.ctx)
        ctx = it.ctx
        if not no_mutation(ctx):
            return False
        return list_term(ctx.ghost['jactions']) == self.act()(zint(i))

    def variant(self, it, fr, i):
        return None

    def unfold(self, it, fr, i):
        ctx = it.ctx
        nm = ctx.env.d.names.elem(i)
        ext = field(fr.locals['config'], 'extension')
        A = self.act()
        keep = True
        if ext is not None and not (isinstance(ext, str) and ext == ''):
            keep = Eq(mkstr([Opq(ufun('splitext_ext', PyStr, PyStr)(str_term(nm)))]), ext)
        if branch(keep):
            ev = (join_dir(spec_pels_dir(ctx, fr.locals['args']), nm), spec_out_dir(ctx, fr.locals['args']),
                  field(fr.locals['args'], 'clean'))
            ctx.assume(A(zint(i) + 1) == v_snoc(A(zint(i)), val_term(ev)))
        else:
            ctx.assume(A(zint(i) + 1) == A(zint(i)))


class MainEnvN(FsEnvN):
    def __init__(self, d, ns):
        FsEnvN.__init__(self, d)
        self.ns = ns

    def parse_args(self, it):
        return self.ns


class MainJsonN(Unit):
    prop = "C11"
    name = "main --json, any number of files"
    target = PM + "main"
    io_faults = False
    max_paths = 20000
    invariants = [MainJsonInv]
    contracts = [CWriteOutputN]
    env = None

    def inputs(self, S):
        ns = {}
        for b in OPT_BOOLS:
            ns[b] = S.bool("opt_" + b)
        ns['json'] = True
        for s_ in OPT_STRS:
            ns[s_] = None
        for s_ in ('extension', 'output_dir'):
            if S.choice("has_" + s_, [None, 'x']) is not None:
                ns[s_] = S.opaque_str("val_" + s_)
                S.assume(ufun('slen', PyStr, z3.IntSort())(str_term(ns[s_])) > 0)
        ns['path'] = ROOT
        ns['severities'] = None
        self._ns = ns
        return dict()

    def setup_ctx(self, ctx):
        d = DirN(ctx)
        self._d = d
        self._nsobj = None

    def call(self, it, inp):
        ctx = it.ctx
        ctx.env = MainEnvN(self._d, Obj(None, dict(self._ns)))
        return it.call(lookup_qualname(self.target), [])

    def check(self, P, inp, old, out):
        if not P.symbolic:
            return
        ctx = P.ctx
        ns = self._ns
        P.prove(not out.returned and out.exc_class is SystemExit, "main ends with sys.exit")
        acts = ctx.ghost.get('jactions', [])
        usage = out.exc is not None and out.exc.args and not isinstance(out.exc.args[0], int) and out.exc.args[0] is not None
        if usage:
            P.prove(acts == [], "a usage error (bad directory) exits before any conversion")
            return
        P.prove(out.exc is not None and out.exc.args in ((0,), ()), "exit status 0")
        inv = list(ctx.invariants.values())[0] if ctx.invariants else None
        P.prove(inv is not None, "the per-file loop was entered through its invariant")
        if inv is None:
            return
        n = dirn_fns()[0]
        P.prove(list_term(acts) == inv.act()(n),
                "conversions == ACT(n): one parseAndWriteOutput per top-level name that passes the extension filter, in listing order, "
                "with the output directory (given or the PEL directory) and --clean passed through; nothing for the sub-directory")
        P.prove(inv.act()(0) == v_nil(), "no conversion before the first file")
        P.prove([e for e in ctx.fs if e[0] not in ('open_r', 'walk')] == [], "main itself touches no file")
        cfgs = ctx.ghost.get('jconfigs', [])
        P.prove(all(c is cfgs[0] for c in cfgs), "every conversion gets the one Config of this run")


# ------------------------------------------------------------------ extractAndSummarizePEL: the body behind the contract used by -l
class ExtractAndSummarize(Unit):
    """one file of --list: (entry id, summary) for a selected PEL whose summary decodes; its hex dump instead with --hex;
    ('', '') for anything else, with decode failures reported on stderr only"""
    prop = "C08"
    name = "extractAndSummarizePEL"
    target = PM + "extractAndSummarizePEL"
    contracts = [CParsePELSummary, CPrintHex]
    io_faults = False

    def inputs(self, S):
        self._d = Dir(1)
        self.env = FsEnv(self._d)
        return dict(file=self._d.path(0), config=mk_config(S))

    def check(self, P, inp, old, out):
        if not P.symbolic:
            return
        ctx = P.ctx
        k = key_of(self._d.contents[0])
        P.prove(out.returned, "never raises, whatever the file contains")
        if not out.returned:
            return
        sd = ufun('pel_summary_decodes', Val, z3.BoolSort())(k)
        hexm = ctx.is_true(truth(field(inp['config'], 'hex')))
        if ctx.is_true(z3.And(hdr_ok(k), sel(k), sd)):
            if hexm:
                P.prove(Eq(list(ctx.stdout), [('hexdump-of', k)]) and out.value == ("", ""),
                        "--hex: the delimited hex dump of exactly this file, no list entry")
            else:
                e, sm = out.value
                P.prove(Eq(e, mkstr([Opq(ufun('pel_eid0x', Val, PyStr)(k))])) and val_term(sm) == val_term(summary_of(k)) and
                        len(ctx.stdout) == 0, "the entry of a selected, decodable PEL: (entry id, summary), nothing printed")
        else:
            P.prove(out.value == ("", "") and len(ctx.stdout) == 0, "anything else: no entry, nothing on stdout")
            if ctx.is_true(z3.And(hdr_ok(k), sel(k), z3.Not(sd))):
                P.prove(len(ctx.stderr) == 1, "a decode failure is reported on stderr")
        P.prove([e_ for e_ in ctx.fs if e_[0] not in ('open_r',)] == [], "no file-system change")


# ------------------------------------------------------------------ bounded companion of getFileList: real directories, awkward names
class GetFileListNative(Unit):
    """real temporary directories whose file names are prefixes of one another, contain characters that sort below '.',
    several dots, no extension, leading dots; a sub-directory with files; against sorted() of the filtered top-level names"""
    prop = "C08"
    name = "getFileList on generated directories (bounded)"
    target = PM + "getFileList"
    kind = 'B'
    modes = ('assert',)

    def inputs(self, S):
        if hasattr(S, 'rng'):
            r = S.rng
            stems = ["pel1", "pel1-copy", "pel1 (2)", "pel1.old", "pel10", "PEL1", "a", "a-b", "a.b", "a+b", ".hidden", "x.", "_x", "Z", "0"]
            exts = [".pel", ".bin", "", ".PEL", ".pel.bak"]
            names = sorted({r.choice(stems) + r.choice(exts) for _ in range(r.randrange(0, 7))})
            sub = sorted({r.choice(stems) + r.choice(exts) for _ in range(r.randrange(0, 3))})
            ext = r.choice([None, "", ".pel", ".bin", ".old"])
            rev = r.random() < 0.5
            S.log.update(names=names, sub=sub, ext=ext, rev=rev)
        else:
            v = S.values
            names, sub, ext, rev = v['names'], v['sub'], v['ext'], v['rev']
        return dict(names=names, sub=sub, extension=ext, rev=rev)

    def call_native(self, inp):
        import tempfile, shutil, os
        from pel.peltool import peltool
        d = tempfile.mkdtemp(prefix="pyvc_gfl_")
        try:
            for n in inp['names']:
                open(os.path.join(d, n), 'wb').close()
            os.mkdir(os.path.join(d, "archive"))
            for n in inp['sub']:
                open(os.path.join(d, "archive", n), 'wb').close()
            root, lst = peltool.getFileList(d, inp['extension'], inp['rev'])
            return (root == d, list(lst))
        finally:
            shutil.rmtree(d, ignore_errors=True)

    def check(self, P, inp, old, out):
        import os
        P.prove(out.returned, "returns")
        if not out.returned:
            return
        same_root, lst = out.value
        ext = inp['extension']
        want = sorted([n for n in inp['names'] if not ext or os.path.splitext(n)[1] == ext], reverse=inp['rev'])
        P.prove(same_root, "the directory returned is the one asked for")
        P.prove(lst == want, "the top-level names with the requested extension, in file-name order (reversed with --reverse); "
                "nothing from sub-directories")
