"""C07: PEL selection rules (considerPEL, severity groups, hidden / serviceable)."""
from contracts.common import *
from pyvc.unit import Unit

PT = "pel.peltool."
GROUPS = sorted(T('severityGroupValues').values())      # [0, 1, 2, 4, 5, 6, 7]


def spec_hidden(flags):
    return bit(flags, 0x4000)


def spec_serviceable(sev, flags):
    """non-informational, reportable and not hidden - or informational with service action required"""
    return Or(And(sev != 0, bit(flags, 0x2000), Not(spec_hidden(flags))),
              And(sev == 0, bit(flags, 0x8000)))


def spec_sevmatch(sev, groups):
    """the high hex digit of the severity byte is the digit of one of the chosen groups"""
    return Or(*[Eq(shr(sev, 4), g) for g in groups])


def spec_select(sev, flags, c, groups):
    svc, hid = spec_serviceable(sev, flags), spec_hidden(flags)
    term = And(c['critSysTerm'], sev == 0x51)
    any_sev = len(groups) > 0
    any_class = Or(c['serviceable'], c['non_serviceable'], c['hidden'])
    in_class = Or(And(c['serviceable'], svc), And(c['non_serviceable'], Not(svc)), And(c['hidden'], hid))
    sevm = spec_sevmatch(sev, groups)
    default = And(svc, Not(hid))
    without_only = Or(default, in_class, term, And(any_sev, sevm))
    with_only = Or(term, And(Or(any_class, any_sev), Implies(any_class, in_class), Implies(any_sev, sevm)))
    return Or(c['every_pel'], And(Not(c['only']), without_only), And(c['only'], with_only))


def mk_uh(S):
    return S.obj(PT + "user_header.UserHeader", eventSeverity=S.int("sev", 0, 255), actionFlags=S.int("flags", 0, 0xFFFF))


class IsHidden(Unit):
    prop = "C07"
    name = "UserHeader.isHidden"
    target = PT + "user_header.UserHeader.isHidden"

    def inputs(self, S):
        return dict(self=mk_uh(S))

    def check(self, P, inp, old, out):
        P.prove(out.returned, "returns")
        if out.returned:
            P.prove(Iff(truth(out.value), spec_hidden(field(inp['self'], 'actionFlags'))),
                    "hidden iff the not-customer-viewable action flag (0x4000) is set")


class IsServiceable(Unit):
    prop = "C07"
    name = "UserHeader.isServiceable"
    target = PT + "user_header.UserHeader.isServiceable"

    def inputs(self, S):
        return dict(self=mk_uh(S))

    def check(self, P, inp, old, out):
        P.prove(out.returned, "returns")
        if out.returned:
            u = inp['self']
            P.prove(Iff(truth(out.value), spec_serviceable(field(u, 'eventSeverity'), field(u, 'actionFlags'))),
                    "serviceable iff (non-informational, reportable, not hidden) or (informational, service action)")


def mk_groups(S):
    """the chosen severity groups: empty, or 7 arbitrary members of the published group digits (duplicates
    allowed - this represents every non-empty subset in every order)"""
    n = S.choice("ngroups", [0, 7])
    gs = []
    for k in range(n):
        g = S.int("g%d" % k, 0, 7)
        S.assume(g != 3)
        gs.append(g)
    return gs


def mk_config(S, groups, lookups=False):
    f = dict(allow_plugins=True, serviceable=S.bool("serviceable"), non_serviceable=S.bool("non_serviceable"),
             every_pel=S.bool("every_pel"), critSysTerm=S.bool("critSysTerm"), hidden=S.bool("hidden"),
             hex=False, rev=False, extension=None, severities=groups, only=S.bool("only"),
             plid=None, src=None, bmcID=None, pelID=None, srcExcludeFile=None)
    if lookups:
        which = S.choice("lookup", ['plid', 'src', 'bmcID', 'pelID'])
        f[which] = "50001234" if which != 'bmcID' else "17"
    return S.obj(PT + "config.Config", **f)


class SeverityMatches(Unit):
    prop = "C07"
    name = "considerPELIfSeverityMatches"
    target = PT + "peltool.considerPELIfSeverityMatches"

    def inputs(self, S):
        gs = mk_groups(S)
        return dict(uh=mk_uh(S), config=mk_config(S, gs))

    def check(self, P, inp, old, out):
        P.prove(out.returned, "returns")
        if out.returned:
            sev = field(inp['uh'], 'eventSeverity')
            P.prove(Iff(truth(out.value), spec_sevmatch(sev, field(inp['config'], 'severities'))),
                    "matches iff the high hex digit of the severity byte is a chosen group's digit")


class ConsiderPEL(Unit):
    prop = "C07"
    name = "considerPEL"
    target = PT + "peltool.considerPEL"

    def inputs(self, S):
        gs = mk_groups(S)
        return dict(uh=mk_uh(S), config=mk_config(S, gs))

    def check(self, P, inp, old, out):
        P.prove(out.returned, "returns")
        if out.returned:
            u, c = inp['uh'], inp['config']
            cf = {k: field(c, k) for k in ('serviceable', 'non_serviceable', 'every_pel', 'critSysTerm', 'hidden', 'only')}
            want = spec_select(field(u, 'eventSeverity'), field(u, 'actionFlags'), cf, field(c, 'severities'))
            P.prove(Iff(truth(out.value), want), "selected iff the documented class/severity/--only rule says so")


class ConsiderPELLookup(Unit):
    """an id / SRC look-up with no selection option considers every PEL"""
    prop = "C07"
    name = "considerPEL(look-up, no selection option)"
    target = PT + "peltool.considerPEL"

    def inputs(self, S):
        c = mk_config(S, [], lookups=True)
        return dict(uh=mk_uh(S), config=c)

    def pre(self, S, inp):
        c = inp['config']
        return Not(Or(*[field(c, k) for k in ('serviceable', 'non_serviceable', 'every_pel', 'critSysTerm', 'hidden', 'only')]))

    def check(self, P, inp, old, out):
        P.prove(out.returned, "returns")
        if out.returned:
            P.prove(truth(out.value), "every PEL (hidden and non-serviceable included) is considered")


UNITS = [IsHidden, IsServiceable, SeverityMatches, ConsiderPEL, ConsiderPELLookup]
