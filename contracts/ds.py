"""pel.datastream.DataStream - the bounds-checked cursor every decoder reads through (C05, C01)."""
from pyvc.unit import Unit, Contract
from pyvc.dsl import *
from pyvc.values import SBytes, Raised, ExcObj, simp, zint
import z3

DS = "pel.datastream.DataStream"


def mk_stream(S, name="s", byte_order='big', is_signed=False, index=None):
    data = S.bytes(name + "_data", kind='bytes')
    idx = S.int(name + "_index") if index is None else index
    return S.obj(DS, data=data, size=blen(data), index=idx, byte_order=byte_order, is_signed=is_signed)


def ds_invariant(s):
    return And(0 <= field(s, 'index'), field(s, 'index') <= field(s, 'size'), Eq(field(s, 'size'), blen(field(s, 'data'))))


def in_range(old, n):
    return And(n > 0, old.index + n <= old.size)


class _DSUnit(Unit):
    prop = "C05"
    modes = ('assert', 'O')

    def pre(self, S, inp):
        return ds_invariant(inp['self'])

    def unchanged(self, P, inp, old, what="state"):
        s = inp['self']
        P.prove(And(Eq(field(s, 'index'), old['self'].index), Eq(field(s, 'size'), old['self'].size)),
                "exceptional exit leaves the cursor unchanged")


class CheckRange(_DSUnit):
    name = "DataStream.check_range"
    target = DS + ".check_range"

    def inputs(self, S):
        return dict(self=mk_stream(S), num_bytes=S.int("num_bytes"))

    def check(self, P, inp, old, out):
        n = inp['num_bytes']
        o = old['self']
        if out.returned:
            P.prove(n > 0, "returns only for a positive byte count")
            P.prove(Iff(truth(out.value), o.index + n <= o.size), "result == (index + n <= size)")
        else:
            P.prove(out.exc_class is AssertionError, "only AssertionError may be raised")
            P.prove(Not(n > 0), "raises only for a non-positive byte count")
        self.unchanged(P, inp, old)


class IncIndex(_DSUnit):
    name = "DataStream.inc_index"
    target = DS + ".inc_index"

    def inputs(self, S):
        return dict(self=mk_stream(S), num_bytes=S.int("num_bytes"))

    def check(self, P, inp, old, out):
        n = inp['num_bytes']
        o = old['self']
        s = inp['self']
        if out.returned:
            P.prove(in_range(o, n), "returns only when the skip is in range")
            P.prove(Eq(field(s, 'index'), o.index + n), "cursor advanced by exactly n")
            P.prove(ds_invariant(s), "class invariant index <= size preserved")
        else:
            P.prove(out.exc_class is AssertionError, "only AssertionError may be raised")
            P.prove(Not(in_range(o, n)), "raises only when out of range")
            self.unchanged(P, inp, old)


class GetMem(_DSUnit):
    name = "DataStream.get_mem"
    target = DS + ".get_mem"

    def inputs(self, S):
        return dict(self=mk_stream(S), num_bytes=S.int("num_bytes"))

    def check(self, P, inp, old, out):
        n = inp['num_bytes']
        o = old['self']
        s = inp['self']
        if out.returned:
            P.prove(in_range(o, n), "returns only when the read is in range")
            P.prove(Eq(blen(out.value), n), "result has exactly n bytes")
            P.prove(same_view(out.value, view(o.data, o.index, n)), "result is data[index:index+n]")
            P.prove(Eq(field(s, 'index'), o.index + n), "cursor advanced by exactly n")
            P.prove(ds_invariant(s), "class invariant index <= size preserved")
        else:
            P.prove(out.exc_class is AssertionError, "only AssertionError may be raised")
            P.prove(Not(in_range(o, n)), "raises only when out of range")
            self.unchanged(P, inp, old)


class GetInt(_DSUnit):
    name = "DataStream.get_int"
    target = DS + ".get_int"

    def inputs(self, S):
        n = S.choice("num_bytes_k", [1, 2, 3, 4, 8, None])
        if n is None:
            n = S.int("num_bytes")
        return dict(self=mk_stream(S), num_bytes=n)

    def check(self, P, inp, old, out):
        n = inp['num_bytes']
        o = old['self']
        s = inp['self']
        if out.returned:
            P.prove(in_range(o, n), "returns only when the read is in range")
            if isinstance(n, int):
                P.prove(Eq(out.value, be(o.data, o.index, n)), "result is the big-endian value of data[index:index+n]")
            P.prove(Eq(field(s, 'index'), o.index + n), "cursor advanced by exactly n")
            P.prove(ds_invariant(s), "class invariant index <= size preserved")
        else:
            P.prove(out.exc_class is AssertionError, "only AssertionError may be raised")
            P.prove(Not(in_range(o, n)), "raises only when out of range")
            self.unchanged(P, inp, old)


class GetIntUnset(_DSUnit):
    """byte order / signedness never specified: AssertionError, cursor unchanged"""
    name = "DataStream.get_int(unset byte order)"
    target = DS + ".get_int"

    def inputs(self, S):
        which = S.choice("unset", ['byte_order', 'is_signed'])
        s = mk_stream(S, byte_order=None if which == 'byte_order' else 'big',
                      is_signed=None if which == 'is_signed' else False)
        return dict(self=s, num_bytes=S.int("num_bytes"))

    def check(self, P, inp, old, out):
        P.prove(not out.returned, "does not return a value")
        if not out.returned:
            P.prove(out.exc_class is AssertionError, "only AssertionError may be raised")
            self.unchanged(P, inp, old)


class Init(Unit):
    prop = "C05"
    name = "DataStream.__init__"
    target = DS
    modes = ('assert', 'O')

    def inputs(self, S):
        return dict(data=S.bytes("data"), byte_order='big', is_signed=False)

    def check(self, P, inp, old, out):
        P.prove(out.returned, "constructor returns")
        if out.returned:
            s = out.value
            P.prove(And(Eq(field(s, 'index'), 0), Eq(field(s, 'size'), blen(inp['data']))), "index == 0 and size == len(data)")
            P.prove(ds_invariant(s), "class invariant established")


UNITS = [Init, CheckRange, IncIndex, GetMem, GetInt, GetIntUnset]


# ------------------------------------------------------------------ contracts for callers
class CGetMem(Contract):
    target = DS + ".get_mem"

    def model(self, it, s, num_bytes):
        ctx = it.ctx
        idx, size = field(s, 'index'), field(s, 'size')
        num_bytes = ctx.concretize(num_bytes)
        if not ctx.decide(And(num_bytes > 0, zint(idx) + zint(num_bytes) <= zint(size))):
            raise Raised(ExcObj(AssertionError, ("range check failure",)))
        data = field(s, 'data')
        v = view(data, idx, num_bytes)
        s.index = simp(zint(idx) + zint(num_bytes))
        return v


class CGetInt(Contract):
    target = DS + ".get_int"

    def model(self, it, s, num_bytes, byte_order=None, is_signed=None):
        ctx = it.ctx
        if byte_order is None:
            byte_order = field(s, 'byte_order')
        if is_signed is None:
            is_signed = field(s, 'is_signed')
        if byte_order is None or is_signed is None:
            raise Raised(ExcObj(AssertionError, ("byte_order not defined",)))
        num_bytes = ctx.concretize(num_bytes)
        if not isinstance(num_bytes, int) and ctx.is_true(And(num_bytes >= 1, num_bytes <= 8)):
            # small symbolic width (e.g. a 1- or 2-byte table field): case split
            for k in range(1, 9):
                if ctx.decide(num_bytes == k):
                    num_bytes = k
                    break
        v = CGetMem().model(it, s, num_bytes)
        from pyvc import ops
        r = ops.int_from_bytes(ctx, v, byte_order, is_signed)
        if isinstance(num_bytes, int) and num_bytes <= 2:
            # small fields (sizes, counts, flags) are often fixed by the caller's precondition
            r = ctx.concretize(r)
        return r


class CCheckRange(Contract):
    target = DS + ".check_range"

    def model(self, it, s, num_bytes):
        ctx = it.ctx
        if not ctx.decide(num_bytes > 0):
            raise Raised(ExcObj(AssertionError, ("must provide a positive, non-zero integer",)))
        return simp(zint(field(s, 'index')) + zint(num_bytes) <= zint(field(s, 'size')))


class CIncIndex(Contract):
    target = DS + ".inc_index"

    def model(self, it, s, num_bytes):
        ctx = it.ctx
        idx, size = field(s, 'index'), field(s, 'size')
        if not ctx.decide(And(num_bytes > 0, zint(idx) + zint(num_bytes) <= zint(size))):
            raise Raised(ExcObj(AssertionError, ("range check failure",)))
        s.index = simp(zint(idx) + zint(num_bytes))
        return None


class CInit(Contract):
    target = DS

    def model(self, it, data, byte_order=None, is_signed=None):
        from pyvc.interp import lookup_qualname
        from pyvc.values import Obj
        from pyvc.models import b_len
        o = Obj(lookup_qualname(DS), dict(data=data, size=b_len(it, data), index=0, byte_order=byte_order,
                                           is_signed=is_signed))
        it.ctx.new_ids.add(id(o))
        return o


DS_CONTRACTS = [CGetMem, CGetInt, CCheckRange, CIncIndex, CInit]


# ------------------------------------------------------------------ the value half of the contracts, for in-range reads only
# (used by the display properties: what a decoder shows is what these return; how out-of-range reads are refused is C05's)
class _InRange:
    modes = ('assert',)
    prop = "C02"

    def pre(self, S, inp):
        return And(ds_invariant(inp['self']), in_range(inp['self'], inp['num_bytes']))


class GetMemValue(_InRange, GetMem):
    name = "DataStream.get_mem (in-range reads: exact bytes, cursor)"

    def check(self, P, inp, old, out):
        n, o, s = inp['num_bytes'], old['self'], inp['self']
        P.prove(out.returned, "an in-range read returns")
        if out.returned:
            P.prove(Eq(blen(out.value), n), "result has exactly n bytes")
            P.prove(same_view(out.value, view(o.data, o.index, n)), "result is data[index:index+n]")
            P.prove(Eq(field(s, 'index'), o.index + n), "cursor advanced by exactly n")


class GetIntValue(_InRange, GetInt):
    name = "DataStream.get_int (in-range reads: big-endian value, cursor)"
    WIDTHS = [1, 2, 3, 4, 8]

    def inputs(self, S):
        return dict(self=mk_stream(S), num_bytes=S.choice("num_bytes_k", self.WIDTHS))

    def check(self, P, inp, old, out):
        n, o, s = inp['num_bytes'], old['self'], inp['self']
        P.prove(out.returned, "an in-range read returns")
        if out.returned:
            if isinstance(n, int):
                P.prove(Eq(out.value, be(o.data, o.index, n)), "result is the big-endian value of data[index:index+n]")
            P.prove(Eq(field(s, 'index'), o.index + n), "cursor advanced by exactly n")


class IncIndexValue(_InRange, IncIndex):
    name = "DataStream.inc_index (in-range skips: cursor)"

    def check(self, P, inp, old, out):
        n, o, s = inp['num_bytes'], old['self'], inp['self']
        P.prove(out.returned, "an in-range skip returns")
        if out.returned:
            P.prove(Eq(field(s, 'index'), o.index + n), "cursor advanced by exactly n")


class InitValue(Init):
    prop = "C02"
    modes = ('assert',)
    name = "DataStream.__init__ (cursor at 0, size of the data)"


class GetIntValue1248(GetIntValue):
    name = "DataStream.get_int (in-range reads of 1, 2, 4, 8 bytes: big-endian value, cursor)"
    WIDTHS = [1, 2, 4, 8]


class GetIntValue124(GetIntValue):
    name = "DataStream.get_int (in-range reads of 1, 2, 4 bytes: big-endian value, cursor)"
    WIDTHS = [1, 2, 4]


class GetIntValue12(GetIntValue):
    name = "DataStream.get_int (in-range reads of 1, 2 bytes: big-endian value, cursor)"
    WIDTHS = [1, 2]


class GetIntValue24(GetIntValue):
    name = "DataStream.get_int (in-range reads of 2, 4 bytes: big-endian value, cursor)"
    WIDTHS = [2, 4]


def value_units(widths):
    """the in-range halves of the DataStream contracts for a decoder that reads integers of these widths"""
    g = {(1, 2, 4, 8): GetIntValue1248, (1, 2, 4): GetIntValue124, (1, 2): GetIntValue12, (2, 4): GetIntValue24, (): None}[tuple(widths)]
    return [GetMemValue, IncIndexValue, InitValue] + ([g] if g else [])


VALUE_UNITS = [GetMemValue, GetIntValue, IncIndexValue, InitValue]
