"""property id -> units / extra back ends / evidence text"""
from contracts import ds

PROPS = {}

from contracts import pelcore as _pc
PROPS['C05'] = dict(
    units=list(ds.UNITS) + list(_pc.C05_UNITS),
    level='proof',
    min_obligations=20,
    assumptions=[],
    explanation="",
)

from contracts import headers
PROPS['C02'] = dict(
    units=list(headers.UNITS),
    level='proof',
    min_obligations=100,
    assumptions=[],
    explanation="",
)

from contracts import select
PROPS['C07'] = dict(
    units=list(select.UNITS),
    level='proof',
    min_obligations=50,
    assumptions=[],
    explanation="",
)

from contracts import iodrawer
PROPS['C16'] = dict(
    units=list(iodrawer.HLOG_UNITS),
    extra=[iodrawer.hlog_grammar_bounded, iodrawer.hlog_history_bounded],
    level='proof',
    min_obligations=15,
    assumptions=[],
    explanation="",
)

PROPS['C14'] = dict(
    units=list(iodrawer.ILOG_UNITS),
    extra=[iodrawer.ilog_grammar_bounded, iodrawer.table_history_bounded],
    level='proof',
    min_obligations=100,
    assumptions=[],
    explanation="",
)

PROPS['C15'] = dict(
    units=list(iodrawer.TRACE_UNITS),
    extra=[iodrawer.trace_grammar_bounded, iodrawer.table_history_bounded],
    level='proof',
    min_obligations=100,
    assumptions=[],
    explanation="",
)

from contracts import hexd
PROPS['C13'] = dict(
    units=list(hexd.UNITS),
    extra=[hexd.parse_independence, hexd.layout_enum],
    level='proof',
    min_obligations=100,
    assumptions=[],
    explanation="",
)

from contracts import dumpc
PROPS['C17'] = dict(
    units=list(dumpc.UNITS),
    level='proof',
    min_obligations=100,
    assumptions=[],
    explanation="",
)

from contracts import hwdiags
PROPS['C20'] = dict(
    units=list(hwdiags.UNITS),
    level='proof',
    min_obligations=60,
    assumptions=[],
    explanation="",
)

from contracts import srcsec
PROPS['C03'] = dict(
    units=list(srcsec.UNITS),
    level='proof',
    min_obligations=100,
    assumptions=[],
    explanation="",
)

from contracts import pelcore
from contracts import headers as _h, srcsec as _s
PROPS['C01'] = dict(
    units=list(pelcore.UNITS) + [_h.EH, _h.MT, _h.LP, _s.SrcToJSON, _s.CalloutU, pelcore.BuildOutputAny],
    extra=[pelcore.build_output_enum, pelcore.bo_lemmas],
    level='proof',
    min_obligations=100,
    assumptions=[],
    explanation="",
)

from contracts import pretty
PROPS['C06'] = dict(
    units=[],
    extra=[pretty.pretty_backend, pretty.pretty_bounded],
    level='proof',
    min_obligations=6,
    assumptions=[],
    explanation="",
)

from contracts import plugins
PROPS['C18'] = dict(
    units=list(plugins.UNITS_C18) + [plugins.Parse, _s.SrcToJSON, _s.GetCallouts],
    level='proof',
    min_obligations=20,
    assumptions=[],
    explanation="",
)
PROPS['C04'] = dict(
    units=list(plugins.UNITS_C04) + [plugins.ParseCustom, pelcore.DefaultSec],
    level='proof',
    min_obligations=20,
    assumptions=[],
    explanation="",
)

PROPS['C19'] = dict(
    units=list(plugins.UNITS_C19) + [_s.SrcToJSON, _h.LP, _h.DisplayCompID, pelcore.ParsePELAny],
    level='proof',
    min_obligations=100,
    assumptions=[],
    explanation="",
)

from contracts import cli
PROPS['C10'] = dict(
    units=list(cli.UNITS_C10),
    level='proof',
    min_obligations=50,
    assumptions=[],
    explanation="",
)

from contracts import cliharness as _ch
PROPS['C09'] = dict(units=list(cli.UNITS_C09) + [cli.PlidMode, cli.SrcMode, cli.IdMode, cli.BmcIdMode, cli.PrintFile, _ch.H09],
                    level='other', min_obligations=50, assumptions=[], explanation="")
PROPS['C08'] = dict(units=list(cli.UNITS_C08) + [cli.AllPels, cli.ListOption, cli.Count, _ch.H08],
                    level='other', min_obligations=50, assumptions=[], explanation="")
PROPS['C11'] = dict(units=list(cli.UNITS_C11) + [cli.WriteOutput, cli.AllPels, cli.ListOption, cli.Count, cli.PlidMode, cli.SrcMode,
                                                  cli.IdMode, cli.BmcIdMode, cli.PrintFile, _ch.H11],
                    level='other', min_obligations=50, assumptions=[], explanation="")
PROPS['C12'] = dict(units=list(cli.UNITS_C12) + [cli.Main, cli.PrintFile, _ch.H12],
                    level='other', min_obligations=20, assumptions=[], explanation="")
PROPS['C10']['units'] = PROPS['C10']['units'] + [_ch.H10]
PROPS['C05']['units'] = PROPS['C05']['units'] + list(cli.UNITS_C05) + [cli.Main, _ch.H05]
PROPS['C06']['units'] = [cli.AllPels, cli.ListOption, cli.Count]

from contracts import meta as _meta
_meta.apply(PROPS)

# directory modes for directories of ANY size (per-file loops cut by invariants) - in addition to the <=2-file units
PROPS['C08']['units'] = [cli.GetFileListN, cli.CountN, cli.AllPelsN, cli.ListN] + PROPS['C08']['units']
PROPS['C09']['units'] = [cli.CountN, cli.AllPelsN, cli.ListN, cli.PlidN, cli.SrcN, cli.IdN, cli.BmcN] + PROPS['C09']['units']
PROPS['C10']['units'] = [cli.PlidN, cli.SrcN, cli.IdN, cli.BmcN] + PROPS['C10']['units']
PROPS['C11']['units'] = [cli.DeleteAllN, cli.DeleteOneN, cli.CountN, cli.AllPelsN, cli.ListN, cli.PlidN, cli.SrcN, cli.IdN, cli.BmcN] + PROPS['C11']['units']
PROPS['C06']['units'] = [cli.AllPelsN, cli.ListN, cli.CountN] + PROPS['C06']['units']
_meta.apply(PROPS)

# C09: the diagnostics of the header / section decoders themselves go to stderr only (real bodies, not contracts)
PROPS['C09']['units'] = PROPS['C09']['units'] + [pelcore.GeneratePH, pelcore.ParsePELAny, _s.PCE, _s.PCEMalformed]

PROPS['C05']['units'] = PROPS['C05']['units'] + list(_h.C05_SECTION_UNITS)
PROPS['C07']['units'] = PROPS['C07']['units'] + [cli.Main, _ch.H07]
PROPS['C12']['units'] = [cli.WriteOutput, cli.PrintFileFaults, cli.Main, cli.PrintFile, _ch.H12]

# C13: the --hex display goes through these modes: each hands printPELInHexFormat exactly the file's bytes
PROPS['C13']['units'] = PROPS['C13']['units'] + [cli.AllPelsN, cli.ListN, cli.PlidN, cli.SrcN, cli.BmcN, cli.PrintFile]
PROPS['C13']['units'] = PROPS['C13']['units'] + [_ch.H13]
PROPS['C05']['units'] = PROPS['C05']['units'] + list(_s.C05_UNITS)
# C05: "the command line reports it on stderr, no traceback" for the directory modes too: the per-file barrier of every mode
PROPS['C05']['units'] = PROPS['C05']['units'] + [cli.CountN, cli.AllPelsN, cli.ListN, cli.PlidN, cli.SrcN, cli.IdN, cli.BmcN]
# main --json over a directory of any size: which files are converted, where to, and --clean passed through
PROPS['C11']['units'] = PROPS['C11']['units'] + [cli.MainJsonN]
PROPS['C12']['units'] = PROPS['C12']['units'] + [cli.MainJsonN]
# C08: each --list entry's fields equal the corresponding fields of the full decode (real body of parsePELSummary)
PROPS['C08']['units'] = PROPS['C08']['units'] + list(pelcore.C08_UNITS)
# C09 anchors the top-level-only walks too: getFileList and main's --json loop (sub-directories contribute nothing)
PROPS['C09']['units'] = PROPS['C09']['units'] + [cli.GetFileListN, cli.GetFileList, cli.MainJsonN]
# C04: what is shown for a text / JSON payload goes through the column alignment: string values are never altered by it
PROPS['C04']['extra'] = list(PROPS['C04'].get('extra', [])) + [pretty.pretty_backend]
# C11: deletePELFromPELId relies on processId's contract (a wrong-length id never reaches the name match)
PROPS['C11']['units'] = PROPS['C11']['units'] + [cli.ProcessId]


# ------------------------------------------------------------------ callee contracts a property leans on are proved in that property too
# (only the part of the callee's behaviour the property depends on, so that a change elsewhere in the callee does not raise
# an alarm for a property that still holds)
from contracts import hexd as _hx, select as _sel
# what an in-range DataStream read returns / where it leaves the cursor, for the integer widths the property's decoders read
for _p, _w in (('C01', (1, 2, 4)), ('C02', (1, 2, 4, 8)), ('C03', (1, 2, 4)), ('C04', (1, 2)), ('C14', (2, 4)), ('C15', (1, 2, 4)),
               ('C16', (1, 2)), ('C18', ()), ('C20', (1, 2, 4))):
    PROPS[_p]['units'] = PROPS[_p]['units'] + [u for u in ds.value_units(_w) if u not in PROPS[_p]['units']]
for _p in ('C01', 'C04', 'C15', 'C16'):     # "shown / preserved as a hex dump": the dump itself
    PROPS[_p]['units'] = PROPS[_p]['units'] + [u for u in (_hx.HexdumpDefault,) if u not in PROPS[_p]['units']]
for _p in ('C03', 'C04'):                  # the 'Created by' value these sections display
    PROPS[_p]['units'] = PROPS[_p]['units'] + [u for u in (_h.DisplayCompID,) if u not in PROPS[_p]['units']]
# C10: look-ups find hidden / non-serviceable PELs without extra options: considerPEL's look-up exemption
PROPS['C10']['units'] = PROPS['C10']['units'] + [u for u in (_sel.ConsiderPELLookup,) if u not in PROPS['C10']['units']]
_meta.apply(PROPS)
# the body behind the per-file contract used by the any-size --list unit
for _p in ('C08', 'C09'):
    PROPS[_p]['units'] = PROPS[_p]['units'] + [cli.ExtractAndSummarize]
PROPS['C03']['units'] = PROPS['C03']['units'] + [_s.SrcCalloutsNative]
for _p in ('C08', 'C09'):
    PROPS[_p]['units'] = PROPS[_p]['units'] + [cli.GetFileListNative]
PROPS['C04']['units'] = PROPS['C04']['units'] + [plugins.PluginWorldNative]
# C06: what a decoder prints on stdout would precede the document: the user-data decoders (where arbitrary text flows) are silent
PROPS['C06']['units'] = PROPS['C06']['units'] + [plugins.UDToJSON, plugins.Parse, pelcore.ParsePELAny]
