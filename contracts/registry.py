"""property id -> units / extra back ends / evidence text"""
from contracts import ds

PROPS = {}

PROPS['C05'] = dict(
    units=list(ds.UNITS),
    level='proof',
    min_obligations=20,
    assumptions=[],
    explanation="",
)
