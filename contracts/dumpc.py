"""C17: an I/O drawer dump is split into ILOG and trace regions that partition it."""
import z3

from contracts.common import *
from pyvc.unit import Unit, Contract, LoopInv
from pyvc.seq import Chunk, list_term, val_term, Val, v_snoc, v_nil, v_cat
from pyvc.values import Opq, I, SBytes, SStr, is_z3, ByteArr, lit
from pyvc.models import Handle, LazySeq
from contracts.hexd import BMC, PREBMC, render_line, nib

DM = "io_drawer.dump."
NAMES = ['IICS', 'IICM', 'POWR', 'FANS', 'INFO', 'ERRL']
HDR = bytes([0x02, 0x20, 0x01, 0x42])
DIVIDER = '-------------------------------------------------------------------------'


def spec_ilog_lines(data, header_file):
    """opaque: what the stand-alone ILOG decoder returns for these bytes (C14)"""
    return ufun('spec_parse_ilog', Val, PyStr, Val)(val_term(data), str_term(header_file))


def spec_trace_lines(data, string_file):
    """opaque: what the stand-alone trace decoder returns for these bytes (C15)"""
    return ufun('spec_parse_trace', Val, PyStr, Val)(val_term(data), str_term(string_file))


class CParseIlog(Contract):
    target = "io_drawer.ilog.parse_ilog_data"

    def model(self, it, data, header_file_path):
        l = [Chunk(spec_ilog_lines(data, header_file_path))]
        it.ctx.new_ids.add(id(l))
        return l


class CParseTrace(Contract):
    target = "io_drawer.trace.parse_trace_data"

    def model(self, it, data, string_file_path):
        l = [Chunk(spec_trace_lines(data, string_file_path))]
        it.ctx.new_ids.add(id(l))
        return l


def header_at(d, p, name):
    pat = HDR + name.encode()
    return And(*[Eq(byte(d, p + j), pat[j]) for j in range(8)])


class ParseDumpData(Unit):
    prop = "C17"
    name = "parse_dump_data"
    target = DM + "parse_dump_data"
    contracts = [CParseIlog, CParseTrace]
    max_paths = 3000

    shards = 8          # the outcomes (found / not found) of the first three header searches; together they cover every input

    def setup_ctx(self, ctx):
        # bytes.find with its full contract: the LEAST offset of an occurrence, -1 iff there is none (quantified)
        ctx.find_minimality = True
        sh = getattr(self, 'shard', 0)
        ctx.find_shard = [bool(sh & 1), bool(sh & 2), bool(sh & 4)]

    def inputs(self, S):
        if S.symbolic:
            return dict(data=S.bytes("data", kind='memoryview'), header_file="h.h", string_file="strings")
        import io_drawer, os
        base = os.path.dirname(io_drawer.__file__)
        if hasattr(S, 'rng'):
            rng = S.rng
            n = rng.randrange(0, 200)
            data = bytearray(rng.randrange(256) for _ in range(n))
            for _ in range(rng.randrange(0, 5)):
                nm = rng.choice(NAMES)
                pos = rng.choice([0, rng.randrange(0, max(1, n)), max(0, n - 8), max(0, n - 9)])
                data[pos:pos + 8] = HDR + nm.encode()
            data = bytes(data)
            S.log['data'] = data.hex()
        else:
            data = S.bytes("data")
        return dict(data=memoryview(data), header_file=os.path.join(base, "mex_pte.h"), string_file=os.path.join(base, "mexStringFile"))

    def check(self, P, inp, old, out):
        P.prove(out.returned, "returns for every byte string")
        if not out.returned:
            return
        d = inp['data']
        if not P.symbolic:
            P.prove(list(out.value) == spec_dump_native(bytes(d), inp['header_file'], inp['string_file']),
                    "ILOG block of the bytes before the earliest header, then one Trace block per header region in address order")
            return
        ctx = P.ctx
        n = blen(d)
        if branch(Eq(n, 0)):
            P.prove(Eq(out.value, []), "empty input gives no output")
            return
        # which headers were recognised on this path: the engine's finds, in BUFFER_NAMES order
        finds = getattr(ctx, 'finds', [])
        P.prove(len(finds) == 6 and [f[1] for f in finds] == [HDR + nm.encode() for nm in NAMES],
                "the six buffer headers (4-byte start + name) are searched")
        if len(finds) != 6:
            return
        offs = [f[2] for f in finds if not ctx.is_true(f[2] == -1)]
        for r in offs:
            P.prove(And(r >= 0, r + 8 <= n), "a recognised header lies inside the dump")
        # ascending order of the recognised offsets (spec-side sort by case analysis on the path)
        from pyvc.models import sort_symbolic
        order = sort_symbolic(P.it, list(offs), False) if offs else []
        if order is None:
            P.fail("recognised header offsets are totally ordered on this path", "could not order offsets")
            return
        ends = order[1:] + [n]
        want = ['ILOG', '', Chunk(spec_ilog_lines(view(d, 0, order[0] if order else n), inp['header_file'])), '', DIVIDER, '']
        for b, e in zip(order, ends):
            want += ['Trace', '', Chunk(spec_trace_lines(view(d, b, e - b), inp['string_file'])), '', DIVIDER, '']
        P.prove(Eq(out.value, want),
                "ILOG block decoded from data[0:first header], then one Trace block per region [header, next header or end) "
                "in address order, each decoded by the stand-alone decoder on exactly those bytes")
        # partition: regions are consecutive, non-empty for traces, and cover [0, n)
        bounds = [0] + order + [n]
        P.prove(And(*[bounds[k] <= bounds[k + 1] for k in range(len(bounds) - 1)]),
                "the regions are consecutive and cover every byte exactly once")
        P.prove(And(*[order[k] < order[k + 1] for k in range(len(order) - 1)]), "trace regions are reported in strictly ascending address order")
        # "earliest recognised header": stated on the bytes, independently of how the code searched
        q = z3.Int('q!c17')
        first = zint(order[0]) if order else zint(n)
        for nm in NAMES:
            P.prove(z3.ForAll([q], z3.Implies(z3.And(q >= 0, q < first, q + 8 <= zint(n)), z3.Not(zbool(header_at(d, q, nm))))),
                    "no %s header starts before the end of the ILOG region (the ILOG region ends at the earliest recognised header)" % nm)
        for b in order:
            P.prove(Or(*[header_at(d, b, nm) for nm in NAMES]), "every trace region starts at a recognised header")
        for (_b, pat, r), nm in zip(finds, NAMES):
            if ctx.is_true(r == -1):
                P.prove(z3.ForAll([q], z3.Implies(z3.And(q >= 0, q + 8 <= zint(n)), z3.Not(zbool(header_at(d, q, nm))))),
                        "a buffer name without a region has no header anywhere in the dump")
            else:
                P.prove(Or(*[Eq(r, b) for b in order]), "the first header of each buffer name that occurs starts a region")


def spec_sorted(xs):
    """ascending order of a few symbolic ints, by case analysis (forks)"""
    out = []
    for x in xs:
        pos = len(out)
        for k in range(len(out)):
            if branch(x < out[k]):
                pos = k
                break
        out.insert(pos, x)
    return out


def spec_dump_native(data, header_file, string_file):
    from io_drawer.ilog import parse_ilog_data
    from io_drawer.trace import parse_trace_data
    if not data:
        return []
    offs = sorted(o for o in (data.find(HDR + nm.encode()) for nm in NAMES) if o != -1)
    lines = ['ILOG', ''] + parse_ilog_data(memoryview(data[0:offs[0] if offs else len(data)]), header_file) + ['', DIVIDER, '']
    for i, b in enumerate(offs):
        e = offs[i + 1] if i + 1 < len(offs) else len(data)
        lines += ['Trace', ''] + parse_trace_data(memoryview(data[b:e]), string_file) + ['', DIVIDER, '']
    return lines


# ------------------------------------------------------------------ parse_dump_file
class DumpEnv:
    """environment for parse_dump_file: the dump file's lines are arbitrary (opaque list of strings)"""

    def open_read(self, it, path, mode):
        h = Handle(path, mode)
        h.content = [Chunk(ufun('file_lines', PyStr, Val)(str_term(path)))]
        return h


def parsed_bytes(lines_term, fmt):
    arr = ufun('parsed_arr', Val, PyStr, ByteArr)(lines_term, lit(fmt))
    ln = ufun('parsed_len', Val, PyStr, z3.IntSort())(lines_term, lit(fmt))
    return arr, ln


class CHexParse(Contract):
    """hexdump.parse(lines, template): a function of (lines, template) (its per-line semantics is proved in C13)"""
    target = "pel.hexdump.parse"

    def model(self, it, lines, line_format):
        ctx = it.ctx
        arr, ln = parsed_bytes(list_term(lines), line_format)
        ctx.assume(ln >= 0)
        return SBytes(arr, 0, ln, 'bytearray')


def spec_dump_lines(data, header_file, string_file):
    return ufun('spec_parse_dump', Val, PyStr, PyStr, Val)(val_term(data), str_term(header_file), str_term(string_file))


class CParseDumpData(Contract):
    target = DM + "parse_dump_data"

    def model(self, it, data, header_file, string_file):
        l = [Chunk(spec_dump_lines(data, header_file, string_file))]
        it.ctx.new_ids.add(id(l))
        return l


class ParseDumpFile(Unit):
    prop = "C17"
    name = "parse_dump_file"
    target = DM + "parse_dump_file"
    contracts = [CHexParse, CParseDumpData]
    env = DumpEnv
    io_faults = False

    def inputs(self, S):
        if S.symbolic:
            return dict(dump_file="dump.txt", header_file="h.h", string_file="strings")
        return native_dump_file_inputs(S)

    def call(self, it, inp):
        from pyvc.interp import lookup_qualname
        return it.call(lookup_qualname(self.target), [inp['dump_file'], inp['header_file'], inp['string_file']])

    def call_native(self, inp):
        import tempfile, os
        from io_drawer.dump import parse_dump_file
        d = tempfile.mkdtemp(prefix="pyvc_dump_")
        try:
            p = os.path.join(d, "dump.txt")
            with open(p, "w") as f:
                f.write(inp['_text'])
            return parse_dump_file(p, inp['header_file'], inp['string_file'])
        finally:
            import shutil
            shutil.rmtree(d, ignore_errors=True)

    def check(self, P, inp, old, out):
        P.prove(out.returned, "returns")
        if not out.returned:
            return
        if not P.symbolic:
            P.prove(list(out.value) == spec_dump_native(inp['_bytes'], inp['header_file'], inp['string_file']),
                    "decoding the dump file gives the same result as decoding its raw bytes")
            return
        ctx = P.ctx
        lt = list_term([Chunk(ufun('file_lines', PyStr, Val)(str_term(inp['dump_file'])))])
        a0, n0 = parsed_bytes(lt, BMC)
        a1, n1 = parsed_bytes(lt, PREBMC)
        if branch(n0 != 0):
            want = [Chunk(spec_dump_lines(SBytes(a0, 0, n0, 'memoryview'), inp['header_file'], inp['string_file']))]
        elif branch(n1 != 0):
            want = [Chunk(spec_dump_lines(SBytes(a1, 0, n1, 'memoryview'), inp['header_file'], inp['string_file']))]
        else:
            want = []
        P.prove(Eq(out.value, want),
                "result == parse_dump_data(bytes parsed with the BMC template if any, else with the pre-BMC template); [] if neither yields bytes")
        P.prove(len(ctx.stdout) == 0 and len(ctx.stderr) == 0, "prints nothing")
        P.prove([e for e in ctx.fs if e[0] != 'open_r'] == [], "only reads the dump file")


def native_dump_file_inputs(S):
    import io_drawer, os
    base = os.path.dirname(io_drawer.__file__)
    rng = getattr(S, 'rng', None)
    if rng is None:
        txt = S.opaque_str("_text")
        b = bytes.fromhex(S.values.get("_bytes", ""))
    else:
        n = rng.choice([0, 1, 15, 16, 17, 40, rng.randrange(0, 120)])
        data = bytearray(rng.randrange(256) for _ in range(n))
        if n >= 48 and rng.random() < 0.7:
            pos = rng.randrange(8, n - 8)
            data[pos:pos + 8] = HDR + rng.choice(NAMES).encode()
        b = bytes(data)
        tmpl = rng.choice([BMC, PREBMC])
        cut = rng.random() < 0.5
        lines = []
        if rng.random() < 0.3:
            lines.append("# IO drawer dump\n")
        for t in range((n + 15) // 16):
            k = min(16, n - 16 * t)
            addr = [ord(c) for c in "%04X" % (16 * t)]
            text = [x if 0x20 <= x < 0x7f and x not in (0x3c, 0x3e) else 46 for x in b[16 * t:16 * t + k]]
            lines.append(render_line(tmpl, addr, list(b[16 * t:16 * t + k]), [rng.random() < 0.3] * k, text, k, cut and k < 16) + "\n")
            if rng.random() < 0.1:
                lines.append("\n")
        txt = ''.join(lines)
        S.log['_text'] = txt
        S.log['_bytes'] = b.hex()
    return dict(dump_file="dump.txt", header_file=os.path.join(base, "mex_pte.h"), string_file=os.path.join(base, "mexStringFile"),
                _text=txt, _bytes=b)


class CrossTemplate(Unit):
    """a line rendered in the pre-BMC format contributes no bytes under the BMC template (so auto-detection falls
    through to the right template), for every byte count 1..16"""
    prop = "C17"
    name = "hexdump.parse (pre-BMC line under the BMC template)"
    target = "pel.hexdump.parse"
    max_unroll = 100

    def inputs(self, S):
        k = S.choice("k", list(range(1, 17)))
        cut = S.choice("cut", [False, True])
        data = [S.int("b%d" % j, 0, 255) for j in range(k)]
        lowers = [S.bool("low%d" % j) for j in range(k)]
        text = []
        for j in range(k):
            c = S.int("t%d" % j, 0, 0x10FFFF)
            S.assume(c != 10)
            text.append(c)
        line = render_line(PREBMC, [], data, lowers, text, k, cut)
        return dict(lines=[cat(line, "\n") if S.symbolic else line + "\n"], line_format=BMC)

    def check(self, P, inp, old, out):
        P.prove(out.returned, "returns")
        if out.returned:
            P.prove(Eq(blen(out.value), 0), "no bytes: position 2 is a blank where the BMC template needs an address digit")


UNITS = [ParseDumpData, ParseDumpFile, CrossTemplate]
