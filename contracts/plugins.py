"""C04 / C18 / C19: user-data rendering, parser-module selection and containment, import caches."""
import z3

from contracts.common import *
from pyvc.unit import Unit, Contract, LoopInv
from pyvc.seq import Chunk, list_term, val_term, Val, v_snoc, v_nil
from pyvc.values import Opq, I, SBytes, SStr, is_z3, OpaqueVal, Obj, lit, Raised, ExcObj, Choice, Unsupported
from pyvc import ops as _ops
from pyvc.interp import lookup_qualname, BoundMethod
from pyvc.models import DumpedStr
from contracts.iodrawer import CHexdump, spec_hexdump_term

PT = "pel.peltool."
PUD = PT + "parse_user_data."
ModSort = z3.DeclareSort('Module')

RAISES = [(Exception, ("boom",)), (ImportError, ("lazy import failed",)), (AssertionError, ()), (KeyError, ("k",)),
          (ModuleNotFoundError, ("No module named 'optional_dependency'",))]


def mod_of(name):
    return ufun('module_named', PyStr, ModSort)(str_term(name))


def mod_absent(name):
    return ufun('module_absent', PyStr, z3.BoolSort())(str_term(name))


class PluginEnv:
    """the world outside the decoder: importlib.import_module is a function of the name for the life of the process
    (absent: ModuleNotFoundError, every time; present: the same module); parser modules are havocked - they return an
    arbitrary string, return None, or raise any exception"""

    def import_module(self, it, name):
        ctx = it.ctx
        if ctx.decide(mod_absent(name)):
            raise Raised(ExcObj(ModuleNotFoundError, ("No module named", name)))
        return OpaqueVal(mod_of(name), 'module')

    def opaque_method(self, it, v, name, args, kwargs):
        ctx = it.ctx
        if v.tag != 'module':
            raise Unsupported("method %s of opaque %s" % (name, v.tag))
        ctx.emit('plugin_calls', (v.term, name, tuple(args)))
        k = len(ctx.plugin_calls)
        key = ufun('call_key', ModSort, PyStr, z3.IntSort(), PyStr)(v.term, lit(name), I(k))
        for a in args:
            if is_intlike(a):
                key = ufun('ck_int', PyStr, z3.IntSort(), PyStr)(key, zint(a))
            elif is_str(a) or isinstance(a, Choice):
                key = ufun('ck_str', PyStr, PyStr, PyStr)(key, str_term(a))
            else:
                key = ufun('ck_val', PyStr, Val, PyStr)(key, val_term(a))
        ctx.ghost.setdefault('call_keys', []).append(key)
        outcome = ufun('plugin_outcome', PyStr, z3.IntSort())(key)
        forced = ctx.ghost.get('forced_outcome')
        if forced is not None and k == 1:
            ctx.assume(outcome == forced)       # the unit's explicit input for the first call (for counterexample replay)
        if ctx.decide(outcome == 0):
            return mkstr([Opq(ufun('plugin_result', PyStr, PyStr)(key))])
        if ctx.decide(outcome == 1):
            return None
        for j, (cls, eargs) in enumerate(RAISES[:-1]):
            if ctx.decide(outcome == 2 + j):
                raise Raised(ExcObj(cls, eargs))
        cls, eargs = RAISES[-1]
        raise Raised(ExcObj(cls, eargs))


def mk_pud(S, creator=None, comp=None):
    creator = S.text("creator", 1) if creator is None else creator
    data_kind = S.choice("has_data", ['data', 'empty'])
    data = S.bytes("payload", kind='bytes') if data_kind == 'data' else b''
    return S.obj(PUD + "ParseUserData", creatorID=creator, compID=S.int("compID", 0, 0xFFFF) if comp is None else comp,
                 subType=S.int("subType", 0, 255), version=S.int("version", 0, 255), data=data), data_kind


def spec_ud_module(creator, comp):
    n = cat(_lower(creator), fmt(comp, 'x', 4, '0'))
    return cat("udparsers.", n, ".", n)


def _lower(s):
    if isinstance(s, str):
        return s.lower()
    return _ops.str_map_case(cur(), s, False)


def hexdump_json(data):
    """json.dumps(hexdump(memoryview(data))) as the engine represents it"""
    return [Chunk(spec_hexdump_term(mv_(data)))]


def mv_(data):
    if isinstance(data, SBytes):
        return SBytes(data.arr, data.off, data.ln, 'memoryview', data.root)
    return memoryview(data)


CACHE_STATES = ['absent', 'module', 'none']


class ParseCustom(Unit):
    stdout_silent = True
    """udparsers.<creator><comp>: name, cache, arguments, containment (C04, C18, C19)"""
    prop = "C18"
    name = "ParseUserData.parseCustom"
    target = PUD + "ParseUserData.parseCustom"
    contracts = [CHexdump]
    env = PluginEnv

    def inputs(self, S):
        pud, kind = mk_pud(S)
        self._kind = kind
        self._cache = S.choice("cache", CACHE_STATES)
        self._absent = S.bool("module_absent")
        self._outcome = S.int("plugin_outcome", 0, 1 + len(RAISES))
        if S.symbolic:
            S.ctx.ghost['forced_outcome'] = self._outcome
        return dict(self=pud)

    def call_native(self, inp):
        return native_parse_custom(inp['self'], self._cache, self._absent, self._outcome)

    def pre(self, S, inp):
        p = inp['self']
        c = creator_char(field(p, 'creatorID'))
        name = spec_ud_module(field(p, 'creatorID'), field(p, 'compID'))
        if not S.symbolic:
            return c < 128 and c != 0 and not (self._cache == 'none' and not self._absent) and not (self._cache == 'module' and self._absent) \
                and (self._kind != 'data' or len(field(p, 'data')) > 0)
        S.assume(mod_absent(name) == self._absent)
        # cache invariant I (C19): a cached None means the import raises; a cached module is what the import returns
        inv = True
        if self._cache == 'none':
            inv = mod_absent(name)
        elif self._cache == 'module':
            inv = Not(mod_absent(name))
        return And(c < 128, blen(field(p, 'data')) >= 0, inv, Implies(self._kind == 'data', blen(field(p, 'data')) > 0))

    def globals_init(self, S):
        p = self._inp_self
        name = spec_ud_module(field(p, 'creatorID'), field(p, 'compID'))
        from pyvc.models import SymDict
        d = SymDict()
        if self._cache == 'module':
            d.items.append([name, OpaqueVal(mod_of(name), 'module')])
        elif self._cache == 'none':
            d.items.append([name, None])
        self._cache_dict = d
        return {(PUD[:-1], "userDataParsers"): d}

    def call(self, it, inp):
        return Unit.call(self, it, inp)

    def check(self, P, inp, old, out):
        if not P.symbolic:
            return self.check_native(P, inp, out)
        ctx = P.ctx
        p = inp['self']
        data = field(p, 'data')
        name = spec_ud_module(field(p, 'creatorID'), field(p, 'compID'))
        has_data = self._kind == 'data'
        P.prove(out.returned, "parseCustom never raises, whatever the parser module does")
        if not out.returned:
            return
        # C18: the only module ever imported is udparsers.<creator><comp 4 lower hex>.<same>
        P.prove(all(Eq(n, name) is not False for n in ctx.imports), "only the module named after creator and component is imported")
        for n in ctx.imports:
            P.prove(Eq(n, name), "imported module == 'udparsers.' + lower(creator) + 4 lower-case hex digits of the component id, twice")
        P.prove(len(ctx.imports) <= 1 and (self._cache == 'absent') == (len(ctx.imports) == 1), "the module is imported only when it is not cached")
        absent = ctx.is_true(mod_absent(name))
        calls = ctx.plugin_calls
        if absent:
            P.prove(len(calls) == 0, "no parser is run when the module does not exist")
            want = hexdump_json(data) if has_data else ""
            got = out.value.value if isinstance(out.value, DumpedStr) else (__import__('json').loads(out.value) if isinstance(out.value, str) else None)
            P.prove(got is not None and Eq(got, want), "no module: result == json.dumps(hexdump(payload))")
        else:
            if has_data:
                P.prove(len(calls) == 1, "the parser is called exactly once")
                if len(calls) == 1:
                    m, fn, args = calls[0]
                    P.prove(fn == 'parseUDToJson', "the call is parseUDToJson")
                    P.prove(m == mod_of(name), "of the module named after creator and component")
                    P.prove(len(args) == 3 and Eq(args[0], field(p, 'subType')) and Eq(args[1], field(p, 'version')),
                            "it receives the section's subtype and version")
                    if len(args) == 3:
                        P.prove(isinstance(args[2], SBytes) and args[2].kind == 'memoryview' and same_view(args[2], data),
                                "and a memoryview of exactly the section's payload")
                    key = ctx.ghost['call_keys'][0]
                    oc = ufun('plugin_outcome', PyStr, z3.IntSort())(key)
                    if ctx.is_true(oc == 0):
                        P.prove(Eq(out.value, mkstr([Opq(ufun('plugin_result', PyStr, PyStr)(key))])), "parser output is passed through")
                    elif ctx.is_true(oc == 1):
                        P.prove(out.value is None, "a parser that returns nothing yields None (handled by parse())")
                    else:
                        P.prove(isinstance(out.value, DumpedStr) and isinstance(out.value.value, dict) and
                                list(out.value.value.keys()) == ["Error", "Data"], "a raising parser yields an Error note plus Data")
                        if isinstance(out.value, DumpedStr) and isinstance(out.value.value, dict) and "Data" in out.value.value:
                            P.prove(Eq(out.value.value["Data"], hexdump_json(data)), "Data == hexdump(payload): the bytes are preserved")
            else:
                P.prove(len(calls) == 0, "no payload: the parser is not run")
        # C19: the cache invariant is preserved (whatever happened, including a raising parser)
        d = self._cache_dict
        for k, v in d.items:
            if v is None:
                P.prove(mod_absent(k), "cache invariant: a cached None only for a module whose import raises")
            else:
                P.prove(isinstance(v, OpaqueVal), "cache holds a module or None")
                if isinstance(v, OpaqueVal):
                    P.prove(And(v.term == mod_of(k), Not(mod_absent(k))), "cache invariant: a cached module is the module the import returns")
        P.prove(len(ctx.stdout) == 0, "nothing on stdout")
        P.prove(len(ctx.fs) == 0, "no file-system effect")


def native_parse_custom(p, cache, absent, outcome):
    """run the real parseCustom against a stub parser module with the chosen behaviour"""
    import sys, types, importlib, io, contextlib
    from pel.peltool import parse_user_data as pudm
    name = (p.creatorID.lower() + "%04X" % p.compID).lower()
    full = "udparsers." + name + "." + name
    calls = []

    def parseUDToJson(sub, ver, mv):
        calls.append((sub, ver, bytes(mv)))
        if outcome == 0:
            return '{"parsed": true}'
        if outcome == 1:
            return None
        cls, args = RAISES[outcome - 2]
        raise cls(*args)
    stub = types.ModuleType(full)
    stub.parseUDToJson = parseUDToJson
    saved_cache = dict(pudm.userDataParsers)
    real_import = importlib.import_module
    imports = []

    def fake_import(n, package=None):
        imports.append(n)
        if n == full:
            if absent:
                raise ModuleNotFoundError("No module named %r" % n)
            return stub
        return real_import(n, package)
    pudm.userDataParsers.clear()
    if cache == 'module':
        pudm.userDataParsers[full] = stub
    elif cache == 'none':
        pudm.userDataParsers[full] = None
    pudm.importlib.import_module = fake_import
    so, se = io.StringIO(), io.StringIO()
    try:
        with contextlib.redirect_stdout(so), contextlib.redirect_stderr(se):
            try:
                r = ('return', p.parseCustom())
            except Exception as e:
                r = ('raise', e)
        after = dict(pudm.userDataParsers)
    finally:
        pudm.importlib.import_module = real_import
        pudm.userDataParsers.clear()
        pudm.userDataParsers.update(saved_cache)
    return dict(result=r, calls=calls, imports=imports, cache_after=after, full=full, stub=stub, stdout=so.getvalue())


def _check_native_pc(self, P, inp, out):
    import json
    from pel.hexdump import hexdump
    p = inp['self']
    r = out.value
    kind, val = r['result']
    data = bytes(p.data)
    P.prove(kind == 'return', "parseCustom never raises, whatever the parser module does")
    if kind != 'return':
        return
    P.prove(all(n == r['full'] for n in r['imports']), "only the module named after creator and component is imported")
    hd = hexdump(memoryview(data)) if data else None
    if self._absent:
        P.prove(r['calls'] == [], "no parser is run when the module does not exist")
        P.prove(json.loads(val) == (hd if data else ""), "no module: result == json.dumps(hexdump(payload))")
    elif data:
        P.prove(r['calls'] == [(p.subType, p.version, data)], "the parser is called once with subtype, version and exactly the payload")
        if self._outcome == 0:
            P.prove(val == '{"parsed": true}', "parser output is passed through")
        elif self._outcome == 1:
            P.prove(val is None, "a parser that returns nothing yields None (handled by parse())")
        else:
            j = json.loads(val) if isinstance(val, str) else None
            P.prove(isinstance(j, dict) and list(j.keys()) == ["Error", "Data"], "a raising parser yields an Error note plus Data")
            if isinstance(j, dict) and "Data" in j:
                P.prove(j["Data"] == hd, "Data == hexdump(payload): the bytes are preserved")
    for k, v in r['cache_after'].items():
        if k == r['full']:
            P.prove((v is None) == bool(self._absent), "cache invariant: None iff the module's import raises; else the module itself")
            P.prove(v is None or v is r['stub'], "cache invariant: a cached module is the module the import returns")
    P.prove(r['stdout'] == '', "nothing on stdout")


ParseCustom.check_native = _check_native_pc


class _GlobalsMixin:
    def run_inputs_hook(self, inp):
        self._inp_self = inp['self']


# the engine calls inputs() before globals_init(); remember the object for the cache key
_orig_inputs = ParseCustom.inputs


def _inputs(self, S):
    d = _orig_inputs(self, S)
    self._inp_self = d['self']
    return d


ParseCustom.inputs = _inputs


class CParseCustom(Contract):
    """parseCustom as proved above (opaque result by case)"""
    target = PUD + "ParseUserData.parseCustom"

    def model(self, it, p):
        ctx = it.ctx
        t = ufun('spec_parse_custom_case', z3.IntSort())()
        ctx.ghost['pc_called'] = ctx.ghost.get('pc_called', 0) + 1
        for k in (0, 1, 3):
            if ctx.decide(t == k):
                break
        else:
            k = 2
        ctx.ghost['pc_case'] = k
        if k == 0:
            return mkstr([Opq(ufun('spec_plugin_text', PyStr)())])
        if k == 1:
            return None
        if k == 3:
            return 'null'            # a parser that "returns nothing" as JSON text
        return DumpedStr([Opq(ufun('spec_hexdump_json', PyStr)())], hexdump_json(field(p, 'data')), None)


class BuiltinFormat(Unit):
    stdout_silent = True
    prop = "C04"
    name = "ParseUserData.getBuiltinFormatJSON (json / cbor / custom / other)"
    target = PUD + "ParseUserData.getBuiltinFormatJSON"
    contracts = [CHexdump]

    def inputs(self, S):
        pud, kind = mk_pud(S, creator="O", comp=0x2000)
        self._kind = kind
        return dict(self=pud)

    def pre(self, S, inp):
        p = inp['self']
        return And(Not(Eq(field(p, 'subType'), 3)), Implies(self._kind == 'data', blen(field(p, 'data')) > 0))

    def check(self, P, inp, old, out):
        if not P.symbolic:
            return
        ctx = P.ctx
        p = inp['self']
        data = field(p, 'data')
        st = field(p, 'subType')
        if branch(Eq(st, 1)):
            if not out.returned:
                P.prove(out.exc_class is UnicodeDecodeError, "JSON format: the only failure is text that is not UTF-8")
                return
            if isinstance(data, SBytes):
                txt = _ops.bytes_decode(ctx, data)
                want = _ops.str_strip(ctx, _ops.str_strip(ctx, txt, None, 'b'), '\x00', 'r')
            else:
                want = ""
            P.prove(Eq(out.value, want), "JSON format: the same JSON text (without surrounding blanks / NUL padding)")
            return
        P.prove(out.returned, "other built-in subtypes always return")
        if out.returned:
            P.prove(isinstance(out.value, DumpedStr) and Eq(out.value.value, hexdump_json(data)),
                    "cbor / custom / unknown subtype: the payload is preserved as json.dumps(hexdump(payload))")


class BuiltinText(Unit):
    stdout_silent = True
    """text format: lines with only non-printable characters replaced (payloads of up to 4 characters symbolically -
    every combination of printable / non-printable / newline / blank / NUL; longer texts in the bounded companion)"""
    prop = "C04"
    name = "ParseUserData.getBuiltinFormatJSON (text)"
    target = PUD + "ParseUserData.getBuiltinFormatJSON"
    max_paths = 40000

    def inputs(self, S):
        n = S.choice("n", [0, 1, 2, 3, 4]) if S.symbolic else None
        if S.symbolic:
            data = S.bytes("payload", length=n, kind='bytes')
        elif hasattr(S, 'rng'):
            r = S.rng
            k = r.randrange(0, 40)
            data = bytes(r.choice([10, 32, 0, 126, 127, 31, 65, 97, 9, 34, 58]) if r.random() < 0.5 else r.randrange(0, 128) for _ in range(k))
            S.log['payload'] = data.hex()
        else:
            data = S.bytes("payload")
        return dict(self=S.obj(PUD + "ParseUserData", creatorID="O", compID=0x2000, subType=3, version=1, data=data))

    def setup_ctx(self, ctx):
        ctx.exact_strip = True

    def pre(self, S, inp):
        d = field(inp['self'], 'data')
        return is_ascii(d, 0, blen(d)) if isinstance(blen(d), int) else True

    def check(self, P, inp, old, out):
        P.prove(out.returned, "returns for every ASCII text payload")
        if not out.returned:
            return
        d = field(inp['self'], 'data')
        if not P.symbolic:
            import json
            text = bytes(d).decode().strip().rstrip('\x00')
            lines = []
            line = ''
            for ch in text:
                if ch != '\n':
                    line += ch if ' ' <= ch <= '~' else '.'
                else:
                    lines.append(line)
                    line = ''
            if line != '':
                lines.append(line)
            P.prove(json.loads(out.value) == lines, "the text's lines with only non-printable characters replaced by '.'")
            return
        ctx = P.ctx
        n = blen(d)
        chars = [byte(d, k) for k in range(n)]
        ws = [9, 10, 11, 12, 13, 28, 29, 30, 31, 32]
        while chars and branch(Or(*[Eq(chars[-1], w) for w in ws])):
            chars.pop()
        while chars and branch(Or(*[Eq(chars[0], w) for w in ws])):
            chars.pop(0)
        while chars and branch(Eq(chars[-1], 0)):
            chars.pop()
        lines = []
        cur_ = []
        for c in chars:
            if branch(Eq(c, 10)):
                lines.append(mkstr(cur_) if cur_ else '')
                cur_ = []
            else:
                cur_.append(c if branch(And(c >= 32, c <= 126)) else 46)
        if cur_:
            lines.append(mkstr(cur_))
        P.prove(isinstance(out.value, DumpedStr) or isinstance(out.value, str), "the result is json.dumps of the list of lines")
        got = out.value.value if isinstance(out.value, DumpedStr) else __import__('json').loads(out.value)
        P.prove(Eq(list(got), lines), "lines == the text split at newlines, printable characters kept, others replaced by '.'")


class Parse(Unit):
    stdout_silent = True
    """ParseUserData.parse: routing (built-in / plugin / plugins disabled) and the None guard"""
    prop = "C04"
    name = "ParseUserData.parse"
    target = PUD + "ParseUserData.parse"
    contracts = [CHexdump, CParseCustom]

    def inputs(self, S):
        pud, kind = mk_pud(S)
        self._kind = kind
        return dict(self=pud, config=S.obj(PT + "config.Config", allow_plugins=S.bool("allow_plugins")))

    def pre(self, S, inp):
        p = inp['self']
        c = creator_char(field(p, 'creatorID'))
        return And(c < 128, Not(And(Eq(c, ord('O')), Eq(field(p, 'compID'), 0x2000))),
                   Implies(self._kind == 'data', blen(field(p, 'data')) > 0))

    def check(self, P, inp, old, out):
        if not P.symbolic:
            return
        ctx = P.ctx
        p = inp['self']
        data = field(p, 'data')
        has_data = self._kind == 'data'
        P.prove(out.returned, "parse never raises")
        if not out.returned:
            return
        if not branch(truth(field(inp['config'], 'allow_plugins'))):
            P.prove(ctx.ghost.get('pc_called', 0) == 0 and len(ctx.imports) == 0 and len(ctx.plugin_calls) == 0,
                    "plugins disabled: no parser module is looked up, imported or run")
            want = {"Data": hexdump_json(data)} if has_data else {}
            got = out.value.value if isinstance(out.value, DumpedStr) else (__import__('json').loads(out.value) if isinstance(out.value, str) else None)
            P.prove(got is not None and Eq(got, want), "plugins disabled: the payload is preserved under 'Data'")
            return
        P.prove(ctx.ghost.get('pc_called', 0) == 1, "the component's parser is consulted exactly once")
        k = ctx.ghost.get('pc_case')
        if k in (1, 3):
            P.prove(isinstance(out.value, DumpedStr) and isinstance(out.value.value, dict) and
                    list(out.value.value.keys()) == (["Error", "Data"] if has_data else ["Error"]),
                    "a parser that returns nothing: error note plus the payload under 'Data'")
            if has_data and isinstance(out.value, DumpedStr) and "Data" in out.value.value:
                P.prove(Eq(out.value.value["Data"], hexdump_json(data)), "Data == hexdump(payload)")
        else:
            P.prove(out.value is not None, "otherwise the parser's (or the hex-dump fallback's) text is returned")


class UDToJSON(SectionUnit):
    """UserData.toJSON / ExtUserData.toJSON: the section always appears; dict results are merged, others go under Data"""
    prop = "C04"
    name = "UserData.toJSON / ExtUserData.toJSON"
    target = PT + "user_data.UserData.toJSON"
    cls = PT + "user_data.UserData"
    with_config = True
    shards = 2

    @property
    def contracts(self):
        return DS_CONTRACTS + [CDisplayCompID, CHexdump, CParseResult]

    def inputs(self, S):
        if self.shard == 1:
            self.cls = PT + "ext_user_data.ExtUserData"
            self.with_creator = False
        else:
            self.cls = PT + "user_data.UserData"
            self.with_creator = True
        return SectionUnit.inputs(self, S)

    def pre(self, S, inp):
        s = inp['stream']
        d, o = field(s, 'data'), field(s, 'index')
        lo = 12 if self.shard == 1 else 8
        return And(ds_invariant(s), inp['sectionLen'] >= lo, o + inp['sectionLen'] - 8 <= field(s, 'size'),
                   byte(d, o) < 128 if self.shard == 1 else self.creator_ascii(inp))

    def check(self, P, inp, old, out):
        if not P.symbolic:
            return
        ctx = P.ctx
        d, o = old['stream'].data, old['stream'].index
        P.prove(out.returned, "the section always appears (never raises for any parser outcome)")
        if not out.returned:
            return
        obj, js = out.value
        creator = ascii_text(d, o, 1) if self.shard == 1 else inp['creatorID']
        base = [("Section Version", inp['versionID']), ("Sub-section type", inp['subType']),
                ("Created by", spec_display_comp(inp['componentID'], creator))]
        keys = list(js.keys())
        P.prove(keys[:3] == [k for k, _ in base], "starts with version, subtype, creator")
        for k, v in base:
            if k in js:
                check_value(P, js[k], v, "UD[%r]" % k)
        t = str_term(mkstr([Opq(ufun('spec_parse_text', PyStr)())]))
        from pyvc.models import JsonSort
        valid = ufun('json_valid', PyStr, z3.BoolSort())(t)
        isdict = ufun('json_is_dict', JsonSort, z3.BoolSort())(ufun('json_loads', PyStr, JsonSort)(t))
        case = 'notjson' if ctx.is_true(z3.Not(valid)) else ('dict' if ctx.is_true(isdict) else 'other')
        rest = keys[3:]
        if case == 'dict':
            P.prove(len(rest) == 1 and rest[0].startswith('__opaque_update__'), "a JSON object result is merged into the section")
        elif case == 'other':
            P.prove(rest == ["Data"], "any other JSON value is shown under 'Data'")
        else:
            P.prove(rest == ["Data"], "text that is not JSON is hex-dumped under 'Data'")


class CParseResult(Contract):
    """ParseUserData.parse (proved above): returns a string, by case: JSON object / other JSON / not JSON"""
    target = PUD + "ParseUserData.parse"

    def model(self, it, p, config):
        ctx = it.ctx
        t = mkstr([Opq(ufun('spec_parse_text', PyStr)())])
        return t


class _PRHook:
    pass


# ------------------------------------------------------------------ text format for texts of ANY length (loop invariant)
def _LINES():
    return z3.Function('text_lines_upto', z3.IntSort(), Val)


def _LINE():
    return z3.Function('text_line_upto', z3.IntSort(), PyStr)


class TextInv(LoopInv):
    """after i characters: lines == LINES(i), line == LINE(i), where
       LINE(i+1)  = ''                       if c_i is a newline, else LINE(i) + (c_i if ' ' <= c_i <= '~' else '.')
       LINES(i+1) = LINES(i) ++ [LINE(i)]    if c_i is a newline, else LINES(i)"""
    func = PUD + "ParseUserData.getBuiltinFormatJSON"
    loop = 0
    modifies_locals = ('ch', 'line')

    def heap_targets(self, it, fr):
        return [fr.locals['lines']]

    def base(self, ctx):
        if not ctx.ghost.get('text_base'):
            ctx.ghost['text_base'] = True
            ctx.assume(z3.And(_LINES()(0) == v_nil(), _LINE()(0) == lit('')))

    def havoc(self, it, fr, i):
        self.base(it.ctx)
        fr.locals['lines'][:] = [Chunk(_LINES()(zint(i)))]
        fr.locals['line'] = mkstr([Opq(_LINE()(zint(i)))])

    def inv(self, it, fr, i):
        self.base(it.ctx)
        ln = fr.locals['line']
        return And(list_term(fr.locals['lines']) == _LINES()(zint(i)), str_term(ln) == _LINE()(zint(i)))

    def variant(self, it, fr, i):
        return None

    def unfold(self, it, fr, i):
        ctx = it.ctx
        text = spec_text_of(field(fr.locals['self'], 'data'))
        c = ufun('str_cp_at', PyStr, z3.IntSort(), z3.IntSort())(text, zint(i))
        L, LS = _LINE(), _LINES()
        cur = mkstr([Opq(L(zint(i)))])
        if branch(Eq(c, 10)):
            ctx.assume(z3.And(L(zint(i) + 1) == lit(''), LS(zint(i) + 1) == v_snoc(LS(zint(i)), val_term(cur))))
        else:
            keep = branch(And(c >= 32, c <= 126))
            ctx.assume(z3.And(L(zint(i) + 1) == str_term(mkstr([Opq(L(zint(i))), c if keep else 46])),
                              LS(zint(i) + 1) == LS(zint(i))))


def spec_text_of(data):
    """the payload as text: UTF-8 decoded, surrounding white space stripped, then trailing NULs stripped"""
    b = _ops.as_sbytes(data)
    t = ufun('decode_utf8', b.arr.sort(), z3.IntSort(), z3.IntSort(), PyStr)(b.arr, zint(b.off), zint(b.ln))
    t = ufun('strip_ws', PyStr, PyStr)(t)
    return ufun('rstrip_00', PyStr, PyStr)(t)


class BuiltinTextAny(Unit):
    stdout_silent = True
    """text format, payload of ANY length: the result is json.dumps of the payload text split at newlines with exactly the
    characters outside ' '..'~' replaced by '.', a trailing unterminated line kept when non-empty"""
    prop = "C04"
    name = "ParseUserData.getBuiltinFormatJSON (text, any length)"
    target = PUD + "ParseUserData.getBuiltinFormatJSON"
    invariants = [TextInv]

    def inputs(self, S):
        if not S.symbolic and hasattr(S, 'rng'):
            r = S.rng
            data = bytes(r.choice([10, 32, 0, 126, 127, 31, 65, 97, 9, 34, 58, 200]) if r.random() < 0.5 else r.randrange(0, 128)
                         for _ in range(r.randrange(0, 60)))
            S.log['payload'] = data.hex()
        else:
            data = S.bytes("payload", kind='bytes')
        return dict(self=S.obj(PUD + "ParseUserData", creatorID="O", compID=0x2000, subType=3, version=1, data=data))

    def check(self, P, inp, old, out):
        if not P.symbolic:
            import json
            try:
                text = bytes(field(inp['self'], 'data')).decode().strip().rstrip('\x00')
            except UnicodeDecodeError:
                P.prove(not out.returned and out.exc_class is UnicodeDecodeError, "fails only when the payload is not UTF-8")
                return
            lines = [''.join(c if ' ' <= c <= '~' else '.' for c in ln) for ln in text.split('\n')]
            if lines and lines[-1] == '':
                lines.pop()
            P.prove(out.returned and json.loads(out.value) == lines,
                    "lines == the text split at newlines, characters outside ' '..'~' replaced by '.'")
            return
        ctx = P.ctx
        d = field(inp['self'], 'data')
        b = _ops.as_sbytes(d)
        if not out.returned:
            P.prove(out.exc_class is UnicodeDecodeError, "fails only when the payload is not UTF-8 (contained by the caller)")
            P.prove(Not(ufun('utf8_valid', b.arr.sort(), z3.IntSort(), z3.IntSort(), z3.BoolSort())(b.arr, zint(b.off), zint(b.ln))),
                    "and only then")
            return
        text = spec_text_of(d)
        n = ufun('slen', PyStr, z3.IntSort())(text)
        name = self.target + "#loop0"
        P.prove(ctx.ghost.get(name + '.exit') == 'exhausted' and Eq(ctx.ghost.get(name + '.exit_index'), n),
                "every character of the stripped text is visited, in order")
        P.prove(isinstance(out.value, DumpedStr), "the result is json.dumps of the list of lines")
        if not isinstance(out.value, DumpedStr):
            return
        L, LS = _LINE()(n), _LINES()(n)
        last = mkstr([Opq(L)])
        want = v_snoc(LS, val_term(last)) if branch(L != lit('')) else LS
        P.prove(list_term(out.value.value) == want,
                "lines == LINES(len) plus the unterminated last line when it is non-empty (LINES/LINE: split at newlines, "
                "characters outside ' '..'~' replaced by '.')")


UNITS_C04 = [BuiltinFormat, BuiltinText, BuiltinTextAny, Parse, UDToJSON]
UNITS_C18 = [ParseCustom]


class UDSectionNative(Unit):
    """bounded companion (C04): a whole user-data section through the real pipeline with the shipped parser modules,
    absent modules and plugins disabled: whenever the section is not rendered from its content it must carry a hex
    dump from which exactly the payload bytes are recovered"""
    prop = "C04"
    name = "user-data section through the real pipeline (bounded)"
    target = PT + "peltool.sectionFun"
    kind = 'B'

    def inputs(self, S):
        creator = S.choice("creator", ["O", "H", "B", "M", "Z"])
        comp = S.choice("comp", [0xE500, 0x2C00, 0x2000, 0x1234, 0x9999])
        sub = S.choice("sub", [0, 1, 2, 3, 4, 5, 72, 73, 84, 99])
        ver = S.choice("ver", [1, 2, 3])
        plugins = S.bool("allow_plugins")
        payload = S.bytes("payload")
        return dict(creator=creator, comp=comp, sub=sub, ver=ver, plugins=plugins, payload=payload)

    def pre(self, S, inp):
        return len(inp['payload']) >= 1

    def call_native(self, inp):
        import io, contextlib
        from collections import OrderedDict
        from pel.peltool import peltool
        from pel.peltool.config import Config
        from pel.datastream import DataStream
        pay = inp['payload']
        sec = b'UD' + (8 + len(pay)).to_bytes(2, 'big') + bytes([inp['ver'], inp['sub']]) + inp['comp'].to_bytes(2, 'big') + pay
        st = DataStream(sec, byte_order='big', is_signed=False)
        c = Config()
        c.allow_plugins = inp['plugins']
        out = OrderedDict()
        so = io.StringIO()
        with contextlib.redirect_stdout(so), contextlib.redirect_stderr(io.StringIO()):
            try:
                h = peltool.parseHeader(st)
                peltool.sectionFun(st, out, *h, inp['creator'], c)
                return ('ok', out, so.getvalue())
            except Exception as e:
                return ('raise', e, so.getvalue())

    def check(self, P, inp, old, out):
        from pel.hexdump import parse
        kind, js, so = out.value
        builtin_text = inp['creator'] == 'O' and inp['comp'] == 0x2000 and inp['sub'] in (1, 3)
        if kind == 'raise':
            P.prove(builtin_text and isinstance(js, (UnicodeDecodeError,)), "only a built-in text/JSON section with non-UTF-8 text may fail")
            return
        sec = js.get("User Data")
        P.prove(isinstance(sec, dict), "the section appears")
        if not isinstance(sec, dict) or builtin_text:
            return
        rendered = set(sec.keys()) - {"Section Version", "Sub-section type", "Created by", "Data", "Error"}
        if rendered:
            return       # rendered from its content by a parser
        dump = sec.get("Data")
        ok = isinstance(dump, list) and all(isinstance(l, str) for l in dump) and bytes(parse(dump)) == bytes(inp['payload'])
        P.prove(ok, "no decoder for this section: it carries a hex dump from which exactly the payload is recovered")


UNITS_C04 = [BuiltinFormat, BuiltinText, BuiltinTextAny, Parse, UDToJSON, UDSectionNative]


# ------------------------------------------------------------------ SRC parser selection (C18) and caches (C19)
SRCC = PT + "src.SRC"


class _CacheUnit(Unit):
    env = PluginEnv
    cache_global = None        # (module, name)

    def mod_name(self, inp):
        raise NotImplementedError

    def mk_cache(self, S, inp):
        from pyvc.models import SymDict
        self._cache = S.choice("cache", CACHE_STATES)
        self._absent = S.bool("module_absent")
        self._outcome = S.int("plugin_outcome", 0, 1 + len(RAISES))
        if S.symbolic:
            S.ctx.ghost['forced_outcome'] = self._outcome
        name = self.mod_name(inp)
        d = SymDict()
        # the cache may also hold an entry for any OTHER module name (left there by an earlier decode): a correct look-up
        # never uses it
        self._other = S.choice("other_cached_entry", ['no', 'module', 'none']) if S.symbolic else 'no'
        if self._other != 'no':
            other = S.opaque_str("other_cached_name")
            S.assume(Not(Eq(other, name)))
            if self._other == 'module':
                S.assume(Not(mod_absent(other)))
                d.items.append([other, OpaqueVal(mod_of(other), 'module')])
            else:
                S.assume(mod_absent(other))
                d.items.append([other, None])
        if self._cache == 'module':
            d.items.append([name, OpaqueVal(mod_of(name), 'module')])
        elif self._cache == 'none':
            d.items.append([name, None])
        self._cache_dict = d
        if S.symbolic:
            S.assume(mod_absent(name) == self._absent)
            if self._cache == 'none':
                S.assume(self._absent)
            if self._cache == 'module':
                S.assume(Not(self._absent))
        return d

    def globals_init(self, S):
        return {self.cache_global: self._cache_dict}

    def check_cache(self, P):
        ctx = P.ctx
        for k, v in self._cache_dict.items:
            if v is None:
                P.prove(mod_absent(k), "cache invariant: a cached None only for a module whose import raises")
            else:
                P.prove(isinstance(v, OpaqueVal), "cache holds a module or None")
                if isinstance(v, OpaqueVal):
                    P.prove(And(v.term == mod_of(k), Not(mod_absent(k))), "cache invariant: a cached module is what the import returns")


class SrcParse(_CacheUnit):
    stdout_silent = True
    prop = "C18"
    name = "SRC.parse"
    target = SRCC + ".parse"
    cache_global = (PT + "src", "srcParsers")

    def mod_name(self, inp):
        n = cat(_lower(field(inp['self'], 'creatorID')), "src")
        return cat("srcparsers.", n, ".", n)

    def inputs(self, S):
        src = S.obj(SRCC, creatorID=S.text("creator", 1), asciiString=S.text("ascii", 32))
        words = [S.text("w%d" % k, 8) for k in range(8)]
        inp = dict(self=src, hexwords=words)
        self.mk_cache(S, inp)
        return inp

    def pre(self, S, inp):
        return creator_char(field(inp['self'], 'creatorID')) < 128

    def check(self, P, inp, old, out):
        if not P.symbolic:
            return
        ctx = P.ctx
        name = self.mod_name(inp)
        P.prove(out.returned, "SRC.parse never raises (8 hex words are always supplied)")
        if not out.returned:
            return
        for n in ctx.imports:
            P.prove(Eq(n, name), "imported module == 'srcparsers.' + lower(creator) + 'src', twice")
        P.prove((self._cache == 'absent') == (len(ctx.imports) == 1), "imported only when not cached")
        calls = ctx.plugin_calls
        if ctx.is_true(mod_absent(name)):
            P.prove(len(calls) == 0 and out.value == "", "no parser module: no SRC details")
        else:
            P.prove(len(calls) == 1, "the parser is called exactly once")
            if len(calls) == 1:
                m, fn, args = calls[0]
                P.prove(fn == 'parseSRCToJson', "the call is parseSRCToJson")
                P.prove(m == mod_of(name), "of the module named after the creator")
                want = (field(inp['self'], 'asciiString'),) + tuple(inp['hexwords'])
                P.prove(len(args) == 9 and Eq(tuple(args), want), "it receives the reference code and hex words 2..9 in order")
                key = ctx.ghost['call_keys'][0]
                oc = ufun('plugin_outcome', PyStr, z3.IntSort())(key)
                if ctx.is_true(oc == 0):
                    P.prove(Eq(out.value, mkstr([Opq(ufun('plugin_result', PyStr, PyStr)(key))])), "parser output is passed through")
                elif ctx.is_true(oc == 1):
                    P.prove(out.value is None, "a parser returning None is passed through (handled by the caller)")
                else:
                    P.prove(out.value == '', "a raising parser yields no SRC details")
                    P.prove(len(ctx.stderr) == 1 and len(ctx.stdout) == 0, "its error is reported on stderr only")
        self.check_cache(P)
        P.prove(len(ctx.stdout) == 0, "nothing on stdout")


class ProcDesc(_CacheUnit):
    stdout_silent = True
    prop = "C18"
    name = "SRC.getProcedureDesc"
    target = SRCC + ".getProcedureDesc"
    cache_global = (PT + "src", "calloutParsers")

    def mod_name(self, inp):
        n = cat(_lower(field(inp['self'], 'creatorID')), "callouts")
        return cat("calloutparsers.", n, ".", n)

    def inputs(self, S):
        from collections import OrderedDict
        src = S.obj(SRCC, creatorID=S.text("creator", 1))
        inp = dict(self=src, procName=S.opaque_str("proc"), out=OrderedDict())
        self.mk_cache(S, inp)
        return inp

    def pre(self, S, inp):
        return creator_char(field(inp['self'], 'creatorID')) < 128

    def check(self, P, inp, old, out):
        if not P.symbolic:
            return
        ctx = P.ctx
        name = self.mod_name(inp)
        P.prove(out.returned, "getProcedureDesc never raises")
        if not out.returned:
            return
        for n in ctx.imports:
            P.prove(Eq(n, name), "imported module == 'calloutparsers.' + lower(creator) + 'callouts', twice")
        calls = ctx.plugin_calls
        if ctx.is_true(mod_absent(name)):
            P.prove(len(calls) == 0 and len(inp['out']) == 0, "no callout module: no description")
        else:
            P.prove(len(calls) == 1 and calls[0][1] == 'getMaintProcDesc' and len(calls[0][2]) == 1 and
                    Eq(calls[0][2][0], inp['procName']) is not False, "the module is asked for exactly that procedure name")
            if len(calls) == 1:
                P.prove(Eq(calls[0][2][0], inp['procName']), "procedure name passed unchanged")
        self.check_cache(P)
        P.prove(len(ctx.stdout) == 0, "nothing on stdout")


class Osrc(_CacheUnit):
    prop = "C18"
    name = "srcparsers.osrc.parseSRCToJson"
    target = "srcparsers.osrc.osrc.parseSRCToJson"
    cache_global = ("srcparsers.osrc.osrc", "osrcParsers")

    def mod_name(self, inp):
        rc = inp['refcode']
        if branch(Eq(sub_(rc, 0, 2), "BC")):
            return "srcparsers.bsrc.bsrc"
        comp = cat("o", _lower(sub_(rc, 4, 6)), "00")
        return cat("srcparsers.", comp, ".", comp)

    def inputs(self, S):
        inp = dict(refcode=S.text("refcode", 32))
        for k in range(2, 10):
            inp["word%d" % k] = S.text("w%d" % k, 8)
        self.mk_cache(S, inp)
        return inp

    def check(self, P, inp, old, out):
        if not P.symbolic:
            return
        ctx = P.ctx
        name = self.mod_name(inp)
        calls = ctx.plugin_calls
        for n in ctx.imports:
            P.prove(Eq(n, name), "module == srcparsers.o<refcode[4:6] lower>00 (twice), or srcparsers.bsrc.bsrc for BC codes")
        if not out.returned:
            P.prove(len(calls) == 1, "only the component parser itself can make it fail (contained by SRC.parse)")
            self.check_cache(P)
            return
        if ctx.is_true(mod_absent(name)):
            P.prove(len(calls) == 0 and out.value == 'null', "no component parser: JSON null")
        else:
            P.prove(len(calls) == 1, "the component parser is called exactly once")
            if len(calls) == 1:
                m, fn, args = calls[0]
                P.prove(fn == 'parseSRCToJson', "the call is parseSRCToJson")
                P.prove(m == mod_of(name), "of the component's module")
                P.prove(len(args) == 9 and Eq(tuple(args), tuple(inp.values())), "refcode and words 2..9 passed through unchanged, in order")
        self.check_cache(P)


def sub_(s, a, b):
    if isinstance(s, str):
        return s[a:b]
    return mkstr(list(s.segs[a:b]))


class CParseHlog(Contract):
    target = "io_drawer.hlog.parse_hlog_data"

    def model(self, it, data, path):
        it.ctx.ghost['routed'] = ('hlog', data, path)
        return [Chunk(ufun('spec_hlog_lines', Val, PyStr, Val)(val_term(data), str_term(path)))]


class CParseIlog2(Contract):
    target = "io_drawer.ilog.parse_ilog_data"

    def model(self, it, data, path):
        it.ctx.ghost['routed'] = ('ilog', data, path)
        return [Chunk(ufun('spec_ilog_lines2', Val, PyStr, Val)(val_term(data), str_term(path)))]


class CParseTrace2(Contract):
    target = "io_drawer.trace.parse_trace_data"

    def model(self, it, data, path):
        it.ctx.ghost['routed'] = ('trace', data, path)
        return [Chunk(ufun('spec_trace_lines2', Val, PyStr, Val)(val_term(data), str_term(path)))]


class M2c00(Unit):
    prop = "C18"
    name = "udparsers.m2c00.parseUDToJson"
    target = "udparsers.m2c00.m2c00.parseUDToJson"
    contracts = [CHexdump, CParseHlog, CParseIlog2, CParseTrace2]

    def inputs(self, S):
        kind = S.choice("has_data", ['data', 'empty'])
        data = S.bytes("payload", kind='memoryview') if kind == 'data' else memoryview(b'')
        self._kind = kind
        return dict(sub_type=S.int("sub_type", 0, 255), version=S.int("version", 0, 255), data=data)

    def pre(self, S, inp):
        return Implies(self._kind == 'data', blen(inp['data']) > 0)

    def check(self, P, inp, old, out):
        if not P.symbolic:
            return
        ctx = P.ctx
        import os
        import io_drawer
        base = os.path.dirname(io_drawer.__file__)
        P.prove(out.returned, "always returns")
        if not out.returned:
            return
        has = self._kind == 'data'
        got = out.value.value if isinstance(out.value, DumpedStr) else (__import__('json').loads(out.value) if isinstance(out.value, str) else None)
        P.prove(isinstance(got, dict), "always a JSON object")
        if not isinstance(got, dict):
            return
        st, ver = inp['sub_type'], inp['version']
        route = None
        for code, nm, key in ((72, 'hlog', 'History Log'), (73, 'ilog', 'ILOG'), (84, 'trace', 'Trace')):
            if branch(Eq(st, code)):
                route = (nm, key)
                break
        r = ctx.ghost.get('routed')
        if route is None:
            P.prove(r is None, "other subtypes are not routed to a decoder")
            P.prove(Eq(got, {"Data": [Chunk(spec_hexdump_term(inp['data']))] if has else []}), "other subtypes: hex dump of the data")
            return
        if not has:
            P.prove(r is None and Eq(got, {route[1]: []}), "no data: empty listing")
            return
        files = {1: ('mex_pte.h', 'mexStringFile'), 2: ('nimitz_pte.h', 'nimitzStringFile')}
        drawer = None
        for v, fs in files.items():
            if branch(Eq(ver, v)):
                drawer = fs
        if drawer is None:
            P.prove(r is None and list(got.keys()) == ["Error", "Data"], "unknown drawer version: Error plus Data")
            if "Data" in got:
                P.prove(Eq(got["Data"], [Chunk(spec_hexdump_term(inp['data']))]), "Data == hexdump(payload)")
            return
        P.prove(r is not None and r[0] == route[0], "subtype 72/73/84 goes to the history-log / ILOG / trace decoder")
        if r is not None:
            want_file = os.path.join(base, drawer[1] if route[0] == 'trace' else drawer[0])
            P.prove(r[2] == want_file, "with the header / string file of the drawer type given by the version")
            P.prove(r[1] is inp['data'] or same_view(r[1], inp['data']), "and exactly the section's data")
            P.prove(list(got.keys()) == [route[1]], "the object has the decoder's single key")


class OCallouts(Unit):
    """the shipped BMC callout plug-in: a description (JSON list of lines) for the eight published procedures, the empty
    string for any other name; never raises, keeps no state"""
    prop = "C18"
    name = "calloutparsers.ocallouts.getMaintProcDesc"
    target = "calloutparsers.ocallouts.ocallouts.getMaintProcDesc"
    shards = 2
    PUBLISHED = ["BMC0001", "BMC0002", "BMC0003", "BMC0004", "BMC0005", "BMC0006", "BMC0007", "BMC0008"]

    def inputs(self, S):
        if S.symbolic and self.shard == 1:
            p = S.opaque_str("procedure")       # any text that is not one of the published names
            S.assume(Not(Or(*[Eq(p, k) for k in self.PUBLISHED])))
        else:
            p = S.choice("procedure", self.PUBLISHED + ["BMC0009", "bmc0001", "", "BMC00010"])
        return dict(procedure=p)

    def check(self, P, inp, old, out):
        import json as _json
        P.prove(out.returned, "never raises")
        if not out.returned:
            return
        v = out.value
        known = Or(*[Eq(inp['procedure'], k) for k in self.PUBLISHED])
        if isinstance(v, str) and v == '':
            P.prove(Not(known), "the empty string only for a name that is not published")
            return
        text = v.value if isinstance(v, DumpedStr) else (_json.loads(v) if isinstance(v, str) else None)
        P.prove(isinstance(text, list) and len(text) >= 1 and all(isinstance(t, str) and t for t in text),
                "a published procedure gives a JSON list of non-empty lines")
        P.prove(known, "a description only for a published name")


UNITS_C18 = [ParseCustom, SrcParse, ProcDesc, Osrc, M2c00, OCallouts]


def _native_procdesc(self, inp):
    """real getProcedureDesc against a stub callout module with the chosen behaviour"""
    import types, importlib
    from pel.peltool import src as srcm
    s = inp['self']
    name = s.creatorID.lower() + "callouts"
    full = "calloutparsers." + name + "." + name
    calls = []
    outcome, absent, cache = self._outcome, self._absent, self._cache

    def getMaintProcDesc(proc):
        calls.append(proc)
        if outcome == 0:
            return '["a description"]'
        if outcome == 1:
            return None
        cls, args = RAISES[outcome - 2]
        raise cls(*args)
    stub = types.ModuleType(full)
    stub.getMaintProcDesc = getMaintProcDesc
    saved = dict(srcm.calloutParsers)
    real_import = importlib.import_module

    def fake_import(n, package=None):
        if n == full:
            if absent:
                raise ModuleNotFoundError(n)
            return stub
        return real_import(n, package)
    srcm.calloutParsers.clear()
    if cache == 'module':
        srcm.calloutParsers[full] = stub
    elif cache == 'none':
        srcm.calloutParsers[full] = None
    srcm.importlib.import_module = fake_import
    try:
        try:
            srcm.SRC.getProcedureDesc(s, inp['procName'], inp['out'])
            r = 'return'
        except BaseException as e:
            r = e
        after = dict(srcm.calloutParsers)
    finally:
        srcm.importlib.import_module = real_import
        srcm.calloutParsers.clear()
        srcm.calloutParsers.update(saved)
    return dict(r=r, calls=calls, after=after, full=full, stub=stub)


def _check_procdesc(self, P, inp, old, out):
    if P.symbolic:
        return _orig_pd_check(self, P, inp, old, out)
    r = out.value
    P.prove(r['r'] == 'return', "getProcedureDesc never raises")
    v = r['after'].get(r['full'], 'missing')
    if v != 'missing':
        P.prove((v is None) == bool(self._absent), "cache invariant: None iff the module's import raises")
        P.prove(v is None or v is r['stub'], "cache invariant: a cached module is what the import returns")
    if not self._absent:
        P.prove(r['calls'] == [inp['procName']], "the module is asked for exactly that procedure name")


def _pre_procdesc(self, S, inp):
    c = creator_char(field(inp['self'], 'creatorID'))
    if not S.symbolic:
        return c < 128 and c != 0 and not (self._cache == 'none' and not self._absent) and not (self._cache == 'module' and self._absent)
    return c < 128


_orig_pd_check = ProcDesc.check
ProcDesc.check = _check_procdesc
ProcDesc.call_native = _native_procdesc
ProcDesc.pre = _pre_procdesc
UNITS = UNITS_C04 + UNITS_C18


# ------------------------------------------------------------------ C19: history independence (bounded companion)
HIST_HELPER = r'''
import sys, json, io, contextlib
from pel.peltool import peltool
from pel.peltool.config import Config
from pel.datastream import DataStream
out = []
for path in sys.argv[1:]:
    data = open(path, 'rb').read()
    c = Config(); c.every_pel = True
    so, se = io.StringIO(), io.StringIO()
    with contextlib.redirect_stdout(so), contextlib.redirect_stderr(se):
        try:
            r = peltool.parsePEL(DataStream(data, byte_order='big', is_signed=False), c, False)
            out.append(['ok', r[0], r[1], so.getvalue()])
        except Exception as e:
            out.append(['raise', type(e).__name__, '', so.getvalue()])
print(json.dumps(out))
'''


class HistoryNative(Unit):
    """bounded companion (C19): each PEL decoded after an arbitrary history (other PELs, damaged PELs, repeats, either
    order) gives exactly the output it gives in a fresh process"""
    prop = "C19"
    name = "decode after arbitrary histories == decode in a fresh process (bounded)"
    target = PT + "peltool.parsePEL"
    kind = 'B'

    def inputs(self, S):
        from contracts.pelgen import gen_pel
        if hasattr(S, 'rng'):
            rng = S.rng
            pels = []
            for _ in range(rng.randrange(2, 6)):
                d, parts = gen_pel(rng)
                r = rng.random()
                if r < 0.25:
                    d = d[:rng.randrange(0, len(d))]
                elif r < 0.4:
                    b = bytearray(d)
                    b[rng.randrange(len(b))] ^= 1 << rng.randrange(8)
                    d = bytes(b)
                pels.append(d.hex())
            order = [rng.randrange(len(pels)) for _ in range(rng.randrange(len(pels), 2 * len(pels) + 1))]
            S.log['pels'] = pels
            S.log['order'] = order
        else:
            pels, order = S.values['pels'], S.values['order']
        return dict(pels=pels, order=order)

    def call_native(self, inp):
        import subprocess, sys, tempfile, os, json, shutil
        d = tempfile.mkdtemp(prefix="pyvc_hist_")
        try:
            paths = []
            for k, h in enumerate(inp['pels']):
                p = os.path.join(d, "p%d" % k)
                with open(p, 'wb') as f:
                    f.write(bytes.fromhex(h))
                paths.append(p)
            env = dict(os.environ)

            def run(ps):
                r = subprocess.run([sys.executable, '-c', HIST_HELPER] + ps, capture_output=True, text=True, env=env, timeout=120)
                return json.loads(r.stdout.strip().splitlines()[-1])
            fresh = [run([p])[0] for p in paths]
            hist = run([paths[k] for k in inp['order']])
            rev = run([paths[k] for k in reversed(inp['order'])])
            return dict(fresh=fresh, hist=hist, rev=rev)
        finally:
            shutil.rmtree(d, ignore_errors=True)

    def check(self, P, inp, old, out):
        r = out.value
        order = inp['order']
        ok1 = all(r['hist'][i] == r['fresh'][k] for i, k in enumerate(order))
        ok2 = all(r['rev'][i] == r['fresh'][k] for i, k in enumerate(reversed(order)))
        P.prove(ok1, "every decode in the sequence equals the fresh-process decode of the same PEL")
        P.prove(ok2, "also in the reverse order")


UNITS_C19 = [ParseCustom, SrcParse, ProcDesc, Osrc, HistoryNative]


# ------------------------------------------------------------------ bounded companion (C18 / C19): a world of fake parser modules
FAKE_PARSERS = {            # module short name -> behaviour
    'b0100': 'echo', 'b0200': 'raise', 'b0300': 'lazy-import-fails', 'b0400': 'null', 'b0500': 'import-raises', 'b00ab': 'echo',
}
FAKE_SRC = {
    'echo': "import json\ndef parseUDToJson(subtype, version, data):\n    return json.dumps({'fake': __name__.split('.')[-1], 'subtype': subtype, 'version': version, 'data': bytes(data).hex()})\n",
    'raise': "def parseUDToJson(subtype, version, data):\n    raise RuntimeError('parser bug')\n",
    'lazy-import-fails': "def parseUDToJson(subtype, version, data):\n    import optional_dependency_that_is_not_installed\n",
    'null': "import json\ndef parseUDToJson(subtype, version, data):\n    return json.dumps(None)\n",
    'import-raises': "raise ValueError('broken at import time')\n",
}
PLUGIN_WORLD_HELPER = r'''
import sys, os, json, io, contextlib
fake_root, spec = sys.argv[1], json.loads(sys.argv[2])
import udparsers
udparsers.__path__.append(fake_root)
from pel.peltool.user_data import UserData
from pel.peltool.config import Config
from pel.datastream import DataStream
out = []
for sec in spec:
    data = bytes.fromhex(sec['data'])
    c = Config()
    c.allow_plugins = sec['plugins']
    st = DataStream(data, byte_order='big', is_signed=False)
    buf, err = io.StringIO(), io.StringIO()
    try:
        with contextlib.redirect_stdout(buf), contextlib.redirect_stderr(err):
            ud = UserData(st, 0x5544, 8 + len(data), sec['ver'], sec['sub'], sec['comp'], sec['creator'])
            j = ud.toJSON(c)
        out.append(['ok', json.loads(json.dumps(j)), buf.getvalue()])
    except BaseException as e:
        out.append(['raise', type(e).__name__ + ': ' + str(e), buf.getvalue()])
print(json.dumps(out))
'''


class PluginWorldNative(Unit):
    """bounded companion (C18, C19): user-data sections decoded in one process against fake parser modules that echo their
    arguments, raise, fail a lazy import, return null, break at import time, or do not exist - each section must show what
    its own module produces (or the error note + full hex dump), whatever was decoded before it"""
    prop = "C18"
    name = "user-data sections against a world of fake parser modules (bounded)"
    target = PUD + "ParseUserData.parseCustom"
    kind = 'B'
    modes = ('assert',)

    def inputs(self, S):
        if hasattr(S, 'rng'):
            r = S.rng
            secs = []
            for _ in range(r.randrange(1, 7)):
                comp = r.choice([0x0100, 0x0200, 0x0300, 0x0400, 0x0500, 0x0600, 0x00AB, 0x1000])
                secs.append(dict(creator=r.choice(['B', 'B', 'B', 'H']), comp=comp, sub=r.randrange(256), ver=r.randrange(256),
                                 data=bytes(r.randrange(256) for _k in range(r.choice([1, 2, 5, 16, 17, 40]))).hex(),
                                 plugins=r.random() < 0.85))
            S.log['secs'] = secs
        else:
            secs = S.values['secs']
        return dict(secs=secs)

    def call_native(self, inp):
        import subprocess, sys, tempfile, os, json, shutil
        d = tempfile.mkdtemp(prefix="pyvc_plug_")
        try:
            for name, beh in FAKE_PARSERS.items():
                os.makedirs(os.path.join(d, name))
                open(os.path.join(d, name, "__init__.py"), 'w').close()
                with open(os.path.join(d, name, name + ".py"), 'w') as f:
                    f.write(FAKE_SRC[beh])
            r = subprocess.run([sys.executable] + (['-O'] if sys.flags.optimize else []) + ['-c', PLUGIN_WORLD_HELPER, d, json.dumps(inp['secs'])],
                               capture_output=True, text=True, env=dict(os.environ, PYTHONDONTWRITEBYTECODE='1'), timeout=120)
            return json.loads(r.stdout.strip().splitlines()[-1]) if r.stdout.strip() else [['crash', r.stderr[-400:], '']] * len(inp['secs'])
        finally:
            shutil.rmtree(d, ignore_errors=True)

    def check(self, P, inp, old, out):
        from pel.hexdump import hexdump
        P.prove(out.returned, "the helper process runs")
        if not out.returned:
            return
        ok_all, why = True, None
        for sec, res in zip(inp['secs'], out.value):
            data = bytes.fromhex(sec['data'])
            name = (sec['creator'].lower() + "%04X" % sec['comp']).lower()
            beh = FAKE_PARSERS.get(name, 'absent')
            dump = hexdump(memoryview(data)) if data else None
            if res[0] != 'ok':
                ok, exp = False, 'no exception may escape a user-data section'
            else:
                j = {k: v for k, v in res[1].items() if k != "Created by"}
                base = {"Section Version": sec['ver'], "Sub-section type": sec['sub']}
                if not sec['plugins']:
                    exp = dict(base, **({"Data": dump} if data else {}))
                    ok = j == exp
                elif not data and beh != 'import-raises':
                    # nothing to hand to a parser: an empty string is shown
                    exp = dict(base, Data="")
                    ok = j == exp
                elif beh == 'echo':
                    exp = dict(base, fake=name, subtype=sec['sub'], version=sec['ver'], data=sec['data'])
                    ok = j == exp
                elif beh == 'absent':
                    exp = dict(base, Data=dump)
                    ok = j == exp
                elif beh == 'null':
                    exp = dict(base, Error='Parser returned a value of None ...', Data=dump)
                    ok = set(j) == set(exp) and j.get("Data") == dump and str(j.get("Error", "")).startswith("Parser returned a value of None")
                else:       # raise / lazy-import-fails / import-raises: contained, reported, payload preserved
                    exp = dict(base, Error='Failed parsing user data ...', **({"Data": dump} if data else {}))
                    ok = set(j) == set(exp) and (not data or j.get("Data") == dump) and \
                        str(j.get("Error", "")).startswith("Failed parsing user data") and \
                        all(j.get(k) == base[k] for k in base)
                ok = ok and res[2] == ""
            if not ok and why is None:
                ok_all, why = False, dict(section=sec, module=name, behaviour=beh, got=res, expected=exp)
        P.prove(ok_all, "every section shows what its own parser module produces for exactly its sub-type, version and payload - or the "
                "error note with the full hex dump - whatever was decoded before it, and prints nothing on stdout" + ("" if ok_all else " :: %r" % (why,)))


UNITS_C18 = UNITS_C18 + [PluginWorldNative]
UNITS_C19 = UNITS_C19 + [PluginWorldNative]


# ------------------------------------------------------------------ bounded companion (C18 / C19): a world of fake SRC parser modules
FAKE_SRC_PARSERS = {'o1000': 'echo', 'o2000': 'raise', 'o3000': 'none', 'oab00': 'echo', 'bsrc': 'echo'}
FAKE_SRC_SRC = {
    'echo': "import json\ndef parseSRCToJson(refcode, w2, w3, w4, w5, w6, w7, w8, w9):\n    return json.dumps({'fake': __name__.split('.')[-1], 'refcode': refcode, 'words': [w2, w3, w4, w5, w6, w7, w8, w9]})\n",
    'raise': "def parseSRCToJson(refcode, w2, w3, w4, w5, w6, w7, w8, w9):\n    raise RuntimeError('parser bug')\n",
    'none': "def parseSRCToJson(refcode, w2, w3, w4, w5, w6, w7, w8, w9):\n    return None\n",
}
SRC_WORLD_HELPER = r"""
import sys, os, json, io, contextlib
fake_root, with_bsrc, calls = sys.argv[1], sys.argv[2] == '1', json.loads(sys.argv[3])
import srcparsers
srcparsers.__path__.append(fake_root)
from srcparsers.osrc.osrc import parseSRCToJson
out = []
for c in calls:
    buf = io.StringIO()
    try:
        with contextlib.redirect_stdout(buf):
            r = parseSRCToJson(c['refcode'], *c['words'])
        out.append(['ok', r, buf.getvalue()])
    except BaseException as e:
        out.append(['raise', type(e).__name__, buf.getvalue()])
print(json.dumps(out))
"""


class SrcWorldNative(Unit):
    """bounded companion (C18, C19): a sequence of BMC SRCs handed to the shipped srcparsers.osrc wrapper in one process, against
    fake component parsers that echo their arguments, raise, return None or do not exist (with and without a hostboot parser):
    each SRC must reach the parser of its own component (BC codes: the hostboot parser) with its own reference code and words,
    whatever was decoded before it"""
    prop = "C18"
    name = "BMC SRCs against a world of fake SRC parser modules (bounded)"
    target = "srcparsers.osrc.osrc.parseSRCToJson"
    kind = 'B'
    modes = ('assert',)

    def inputs(self, S):
        if hasattr(S, 'rng'):
            r = S.rng
            calls = []
            for _ in range(r.randrange(1, 7)):
                comp = r.choice(['10', '20', '30', 'AB', 'ab', 'E5', '77', '10'])
                head = r.choice(['BD', 'BD', 'BC', 'BC', '11'])
                refcode = (head + r.choice(['8A', '20', '00']) + comp + '%02X' % r.randrange(256)).ljust(32)
                calls.append(dict(refcode=refcode, words=['%08X' % r.getrandbits(32) for _k in range(8)]))
            S.log['calls'] = calls
            S.log['with_bsrc'] = with_bsrc = r.random() < 0.5
        else:
            calls, with_bsrc = S.values['calls'], S.values.get('with_bsrc', False)
        return dict(calls=calls, with_bsrc=with_bsrc)

    def call_native(self, inp):
        import subprocess, sys, tempfile, os, json, shutil
        d = tempfile.mkdtemp(prefix="pyvc_srcw_")
        try:
            for name, beh in FAKE_SRC_PARSERS.items():
                if name == 'bsrc' and not inp['with_bsrc']:
                    continue
                os.makedirs(os.path.join(d, name))
                open(os.path.join(d, name, "__init__.py"), 'w').close()
                with open(os.path.join(d, name, name + ".py"), 'w') as f:
                    f.write(FAKE_SRC_SRC[beh])
            r = subprocess.run([sys.executable] + (['-O'] if sys.flags.optimize else []) +
                               ['-c', SRC_WORLD_HELPER, d, '1' if inp['with_bsrc'] else '0', json.dumps(inp['calls'])],
                               capture_output=True, text=True, env=dict(os.environ, PYTHONDONTWRITEBYTECODE='1'), timeout=120)
            return json.loads(r.stdout.strip().splitlines()[-1]) if r.stdout.strip() else [['crash', r.stderr[-400:], '']] * len(inp['calls'])
        finally:
            shutil.rmtree(d, ignore_errors=True)

    def check(self, P, inp, old, out):
        import json
        P.prove(out.returned, "the helper process runs")
        if not out.returned:
            return
        ok_all, why = True, None
        for c, res in zip(inp['calls'], out.value):
            rc = c['refcode']
            name = 'bsrc' if rc[:2] == 'BC' else 'o' + rc[4:6].lower() + '00'
            beh = FAKE_SRC_PARSERS.get(name, 'absent')
            if name == 'bsrc' and not inp['with_bsrc']:
                beh = 'absent'
            if name == 'oe500':
                beh = 'shipped'
            if beh == 'raise':
                ok, exp = res[0] == 'raise' and res[1] == 'RuntimeError', "the component parser's own exception (contained by SRC.parse)"
            elif res[0] != 'ok':
                ok, exp = False, "no exception of the wrapper's own"
            elif beh == 'absent':
                ok, exp = res[1] == 'null', 'null'
            elif beh == 'none':
                ok, exp = res[1] is None, None
            elif beh == 'echo':
                exp = dict(fake=name, refcode=rc, words=c['words'])
                try:
                    ok = json.loads(res[1]) == exp
                except Exception:
                    ok = False
            else:       # the shipped oe500 parser: a JSON document
                exp = 'a JSON document from srcparsers.oe500'
                try:
                    ok = isinstance(json.loads(res[1]), (dict, type(None)))
                except Exception:
                    ok = False
            ok = ok and res[2] == ""
            if not ok and why is None:
                ok_all, why = False, dict(call=c, module=name, behaviour=beh, got=res, expected=exp, with_bsrc=inp['with_bsrc'])
        P.prove(ok_all, "every SRC reaches the parser module of its own component (BC codes: the hostboot parser) with its own reference code "
                "and words - or JSON null when there is none - whatever was decoded before it" + ("" if ok_all else " :: %r" % (why,)))


UNITS_C18 = UNITS_C18 + [SrcWorldNative]
UNITS_C19 = UNITS_C19 + [SrcWorldNative]
