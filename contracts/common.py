"""Shared pieces of the section contracts: pinned tables, spec functions, section unit base class."""
import json
import os

from pyvc.unit import Unit, Contract
from pyvc.dsl import *
from pyvc import dsl
from pyvc.values import SBytes, SStr, Opq, Raised, ExcObj, simp, zint, ufun, PyStr, str_term, mkstr, Obj, is_z3
from contracts.ds import mk_stream, ds_invariant, DS_CONTRACTS
import z3

_HERE = os.path.dirname(os.path.abspath(__file__))
with open(os.path.join(_HERE, "tables.json")) as _f:
    _T = json.load(_f)
TABLES = {k: {(kk if not isinstance(kk, list) else tuple(kk)): vv for kk, vv in v} for k, v in _T.items()}


def T(name):
    """pinned snapshot of a published name table (contracts/tables.json)"""
    return TABLES[name]


# ------------------------------------------------------------------ spec functions (from the statements)
def spec_timestamp(d, o):
    """BCD timestamp at d[o:o+8] rendered MM/DD/YYYY HH:MM:SS"""
    return cat(hexstr(d, o + 2, 1), "/", hexstr(d, o + 3, 1), "/", hexstr(d, o, 2), " ",
               hexstr(d, o + 4, 1), ":", hexstr(d, o + 5, 1), ":", hexstr(d, o + 6, 1))


def creator_char(creator):
    """code point of a one-character creator id"""
    if isinstance(creator, str):
        return ord(creator) if len(creator) == 1 else None
    segs = creator.segs
    return segs[0] if len(segs) == 1 else None


def spec_display_comp(comp, creator, reveal=False):
    """C02: component id display: PHYP ('H') with both bytes non-zero -> the two ASCII characters; otherwise
    four upper-case hex digits, or the registry name for (creator, hex) when the component-id files define one"""
    if not reveal and (is_z3(comp) or isinstance(creator, SStr)):
        f = ufun('spec_display_comp', z3.IntSort(), PyStr, PyStr)
        return mkstr([Opq(f(zint(comp), str_term(creator)))])
    is_phyp = Eq(creator, "H")
    hi, lo = band(shr(comp, 8), 0xFF), band(comp, 0xFF)
    if branch(is_phyp):
        if branch(And(hi != 0, lo != 0)):
            if is_z3(hi) or is_z3(lo):
                return mkstr([hi, lo])
            return chr(hi) + chr(lo)
        return fmt(comp, 'X', 4, '0')
    name = registry_comp_name(creator, comp)
    if name is not None:
        return name
    return fmt(comp, 'X', 4, '0')


def registry_comp_name(creator, comp):
    """name from the component-id files (environment, A3). None when there is none.  In this sandbox the
    files are absent; the contract for a populated environment is checked in the getDisplayCompID unit."""
    env = dsl.cur().env_compids if (dsl.cur() is not None and hasattr(dsl.cur(), 'env_compids')) else None
    if env is None:
        if dsl.cur() is None:
            try:
                from pel.peltool import comp_id
                env = comp_id.componentIDs
            except Exception:
                env = {}
        else:
            env = {}
    for cr, names in env.items():
        for key, nm in names.items():
            c = And(Eq(creator, cr), Eq(fmt(comp, 'X', 4, '0'), key))
            if c is False:
                continue
            if branch(c):
                return nm
    return None


class CDisplayCompID(Contract):
    """getDisplayCompID(componentID, creatorID) == spec_display_comp(...) (opaque at call sites; the
    definition is proved against the body in its own unit)"""
    target = "pel.peltool.comp_id.getDisplayCompID"

    def model(self, it, componentID, creatorID):
        return spec_display_comp(componentID, creatorID)


class Num:
    """expected: the displayed string denotes exactly this integer (any zero padding, optional 0x)"""

    def __init__(self, value, base=16):
        self.value = value
        self.base = base


def check_value(P, shown, expected, name):
    if isinstance(expected, Num):
        n = as_number(shown, expected.base)
        if n is None:
            P.fail(name, "displayed value is not a base-%d rendering of an integer: %r" % (expected.base, shown))
            return
        P.prove(Eq(n, expected.value), name)
    else:
        P.prove(Eq(shown, expected), name)


def check_dict(P, d, items, what):
    """d must be a dict with exactly the keys of items, in order, each value as specified"""
    keys = list(d.keys()) if isinstance(d, dict) else None
    if keys is None:
        P.fail(what + ": result is a dict", "got %r" % (type(d),))
        return
    want = [k for k, _ in items]
    if keys != want:
        P.fail(what + ": exactly the documented keys, in order", "keys %r != %r" % (keys, want))
        return
    P.prove(True, what + ": exactly the documented keys, in order")
    for k, exp in items:
        check_value(P, d[k], exp, "%s[%r]" % (what, k))


class SectionUnit(Unit):
    """construct the section object on a stream positioned at the section body, then toJSON()"""
    cls = None
    with_creator = True
    with_config = False
    stdout_silent = True          # a section decoder never prints on stdout (generic obligation, pyvc/unit.py)
    contracts = DS_CONTRACTS + [CDisplayCompID]

    def hdr(self, S):
        return dict(sectionID=S.int("sectionID", 0, 0xFFFF), sectionLen=S.int("sectionLen", 0, 0xFFFF),
                    versionID=S.int("versionID", 0, 255), subType=S.int("subType", 0, 255),
                    componentID=S.int("componentID", 0, 0xFFFF))

    def creator(self, S):
        c = S.text("creator", 1)
        return c

    def inputs(self, S):
        inp = dict(stream=mk_stream(S))
        inp.update(self.hdr(S))
        if self.with_creator:
            inp['creatorID'] = self.creator(S)
        if self.with_config:
            inp['config'] = self.mk_config(S)
        return inp

    def mk_config(self, S):
        return S.obj("pel.peltool.config.Config", allow_plugins=S.bool("allow_plugins"))

    def creator_ascii(self, inp):
        c = creator_char(inp['creatorID'])
        return c < 128

    def ctor_args(self, inp):
        a = [inp['stream'], inp['sectionID'], inp['sectionLen'], inp['versionID'], inp['subType'], inp['componentID']]
        if self.with_creator:
            a.append(inp['creatorID'])
        return a

    def call(self, it, inp):
        from pyvc.interp import lookup_qualname, BoundMethod
        ci = lookup_qualname(self.cls)
        it.ctx.target = self.cls + ".toJSON"
        o = it.call(ci, self.ctor_args(inp))
        m = ci.find_method('toJSON')
        js = it.call(BoundMethod(o, m), [inp['config']] if self.with_config else [])
        return (o, js)

    def call_native(self, inp):
        import importlib
        mod, cname = self.cls.rsplit('.', 1)
        cls = getattr(importlib.import_module(mod), cname)
        o = cls(*self.ctor_args(inp))
        js = o.toJSON(inp['config']) if self.with_config else o.toJSON()
        return (o, js)
