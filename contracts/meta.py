"""Per-property texts for MANIFEST.json and the evidence files: what the check proves, what is bounded, what is assumed."""

COMMON_ASSUMPTIONS = [
    "A1: CPython built-ins behave as pyvc models them (DESIGN 2.4); cross-checked by the native replays and bounded companions, not proved",
    "A2: module globals and functions are not rebound at run time",
    "A5: inputs fit in memory; lengths < 2^32",
]
PLUGIN_A = "A3: parser modules, the message registry, chip-data and component-id files are arbitrary but fixed for the life of the process"
FS_A = "A4: the file system is not changed by anyone else during one invocation"

META = {
 'C01': dict(
  level='proof',
  text="Proof by contracts: parseHeader, getSectionName, the length-driven sections, the dispatch (sectionFun), each content-driven section's "
       "consumption (EH/MT/LP/SRC/callout units) and the parsePEL section loop (inductive invariant: cursor == start of section k, "
       "section list == [name(id_j): value_j]) are discharged for all inputs. buildOutput for ANY number of sections and arbitrary names: "
       "two loop invariants over a map with unboundedly many keys (arrays name->count, quantified over all names) and a recursively defined "
       "document OUT(i); every key written is shown new, so entries are appended in log order: KEY(j) = name if it occurs once, else "
       "name + ' ' + (number of earlier sections with that name). Lemmas discharged separately: counting is monotone (induction, z3), "
       "a + ' ' + digits determines a and the digits (cvc5 strings), decimal numerals are injective (z3). Additionally all equality patterns of "
       "up to 9 sections (11 thorough) by enumeration on the real function.",
  note="Trusted: pyvc's models of Python; the opaque spec functions linking layers (section value == toJSON of the class) are by name. "
       "buildOutput's alphabet condition (no section name is another name + ' <number>'; the optional sections do not reuse the ids PH/UH) is a "
       "precondition: the first part is enumerated over the published table, the second is our reading of 'well-formed'.",
  assumptions=["well-formed = every section's content is decodable and consumes exactly sectionLen bytes (shape-from-code lengths pinned "
               "in contracts/pelcore.body_len); PH and UH ids occur only as the first two sections",
               "Python's str(m) for m >= 0 is the decimal numeral (non-empty, digits only) - links lemma L1 to the code's str(modifier)"]),
 'C02': dict(
  level='proof',
  text="Proof: one postcondition per displayed key of PH, UH, EH, MT, LP (offset, width, byte order, table, padding) and getDisplayCompID, "
       "all field values symbolic; UH over all 65536 action-flag words (16 shards); LP target lists for 0..7 targets (every count 0..255 in "
       "the thorough tier: complete) and EH symptom ids, each for ANY length 0..255 of the name / symptom field (symbolic length, text as an "
       "opaque function of exactly those bytes) plus representative concrete lengths with character-exact NUL stripping.",
  note="Name tables are compared with the pinned snapshot contracts/tables.json. Text fields are assumed ASCII (non-ASCII text raises or decodes "
       "differently: covered by C05). Component-id registry content is environment (A3): two sample environments.",
  assumptions=[PLUGIN_A]),
 'C03': dict(
  level='proof',
  text="Proof: FRU/PCE/MRU/Callout constructors against byte-exact specs incl. read footprint; getCallouts for ANY number of callouts by three "
       "loop invariants (walk, rendering, MRU-id string) sharded 16 ways over the FRU flags; SRC.toJSON for word counts 1..9, all SRC types, "
       "flags, plugins on/off, with two sample registries (empty / populated); Registry.getErrorMessage on its own for a registry of ANY number "
       "of arbitrary entries (the message is the first matching entry's, in registry order; entry type defaults to BD).",
  note="Registry content and callout-parser behaviour are environment (A3). Location code / PCE name lengths: location codes of 0,1,4,16,80 "
       "bytes in the Callout unit; arbitrary in getCallouts (opaque).",
  assumptions=[PLUGIN_A, "text fields of well-formed SRCs are ASCII"]),
 'C04': dict(
  level='proof',
  text="Proof over control flow with the parser module havocked (returns text / None / JSON null / raises any of 4 exception kinds incl. "
       "ImportError and argument-less exceptions): built-in json/cbor/custom formats, plugins disabled, parse(), parseCustom, Default, "
       "UserData/ExtUserData.toJSON. Built-in text format: payloads of ANY length by a loop invariant over the characters "
       "(LINES/LINE recursion: split at newlines, characters outside ' '..'~' replaced by '.'), plus every payload of up to 4 "
       "characters with exact white-space stripping.",
  note="Recovery of the bytes from a hex dump is the C13 lemma. The whole-section pipeline with the shipped parser modules is a bounded companion.",
  assumptions=[PLUGIN_A]),
 'C05': dict(
  level='proof',
  text="Proof in both assert modes (python / python -O): DataStream bounds contracts (returns => in range, else AssertionError and cursor "
       "unchanged); parsePEL for ANY byte string returns either ('',''), or a document containing every declared section read inside the input, "
       "or fails with an ordinary exception / SystemExit(1) only for a wrong PH/UH id on -f; parseAndPrintPELFile and main contain everything "
       "else. Termination: every data-driven loop is cut by an invariant or bounded by a byte-sized field.",
  note="'Promptly' (wall-clock) is not decidable by a contract - not claimed. Prefix/corruption sweeps of generated PELs under python and "
       "python -O are bounded companions.",
  assumptions=[]),
 'C06': dict(
  level='proof',
  text="Structure of prettyPrint (only U+0020 inserted at one index per line, line count/order unchanged) read off the AST; position lemma "
       "decided by the automata back end for lines of ANY length: over the line grammar of json.dumps(indent=4) the insertion point is exactly "
       "the gap after a key's colon, and lines without a key are never rewritten; call sites pass json.dumps(x, indent=4) only; the -a / -l / -n "
       "framing printed around the documents is proved in the mode units.",
  note="Assumed: the line grammar of json.dumps(indent=4) (validated on generated documents each run) and that whitespace between tokens is "
       "insignificant to json.loads. SMT string solvers time out on this lemma, hence automata.",
  assumptions=["json.dumps(indent=4) line grammar (bounded validation each run)"]),
 'C07': dict(
  level='proof',
  text="Proof: isHidden, isServiceable, severity-group membership and considerPEL against the selection formula written from the statement, for "
       "all 256 severities x 65536 flag words x 64 switch combinations x every non-empty set of severity groups (7 arbitrary members) at once; "
       "look-ups without selection options consider every PEL; main() maps each switch to exactly its Config field.",
  note="Look-up options combined with selection switches are not specified by the statement: no obligation.",
  assumptions=[]),
 'C08': dict(
  level='proof',
  text="Directories of ANY size: getFileList == sorted(FILT(n), reverse) with FILT the top-level names that pass the extension filter (loop "
       "invariant; top level only); -n, -l, -a by per-file loop invariants over recursively defined COUNT/SUM/OUT, all three built from one "
       "selection predicate and the same file list, so count == list entries == documents, same PELs, same order. Additionally getFileList for "
       "0..3 names with an abstract total order (ascending, exact reverse) and the modes over 0..2 files incl. stderr obligations. "
       "parsePELSummary (real body, section loop by invariant): key == PH entry id; SRC/Message from the FIRST primary SRC section's document; "
       "PLID, CreatorID, Subsystem, Commit Time, Sev, CompID are the same spec terms as the fields of the full decode (parsePEL unit).",
  note="list.sort on a symbolic-length list is an assumed contract (sorted rearrangement; exact reverse for distinct names). The key lists of "
       "the PH/UH/SRC documents read by the summary are preconditions here, proved in the C02/C03 units. Options through the real CLI are a "
       "bounded companion.",
  assumptions=[FS_A, "distinct entry ids"]),
 'C09': dict(
  level='proof',
  text="Every directory mode (-l, -a, -n, --plid, --src, --id, --bmc-id) for directories of ANY size by per-file loop invariants: stdout is the "
       "framing plus OUT(n), where a file that is filtered, has bad headers or raises contributes NOTHING (so adding such files changes neither "
       "the contributions of the others nor their order), nothing is written, the mode returns normally; -f for a single file. The same modes "
       "over 0..2 files additionally carry the stderr obligations.",
  note="Decoders are used through their C01/C05 contracts (print nothing on stdout). Junk-vs-clean comparison through the real CLI is a bounded "
       "companion; -j is covered through its per-file outputs (C11/C12).",
  assumptions=[FS_A]),
 'C10': dict(
  level='proof',
  text="Proof: processId (all lengths 0/7/8/9/10 with and without 0x/0X), the lemma that the displayed platform log id contains the normalised "
       "argument iff the 32-bit id equals it (all 2^32 ids, via base-16 expansion lemmas), and the four look-up modes over an abstract directory "
       "of 0..2 files (exactly the matches, 'PEL not found' otherwise, hidden PELs included).",
  note="Look-up modes proved for directories of any size (invariants; first-match loops with quantified invariants) and again over <= 2 files.",
  assumptions=[FS_A]),
 'C11': dict(
  level='proof',
  text="Frame property on the ghost fs trace: deleteAllPELs removes exactly the regular top-level files (the walk model yields a sub-directory "
       "with a file: it is never touched); deletePELFromPELId removes at most the first name containing the id; every other mode emits no "
       "mutating event; parseAndWriteOutput writes only <out>/<file>.<eid>.json and removes only its input, only with --clean; main runs "
       "exactly one action per invocation.",
  note="Deletion functions, every mode's fs frame and main's own --json loop (which files are converted, where to, --clean passed "
       "through) are proved for directories of any size (invariants). os.walk/open/remove are assumed contracts (effects on the trace); plugins assumed fs-pure (A3). Tree snapshots through "
       "the real CLI are a bounded companion.",
  assumptions=[FS_A, PLUGIN_A]),
 'C12': dict(
  level='proof',
  text="parseAndWriteOutput explored under every fault sequence at primitive granularity (open / write / close / remove may each raise OSError): "
       "remove(input) occurs only after write_ok and close_ok of that file's output, only with --clean, only for a decoded PEL; main removes the "
       "-f input only after parseAndPrintPELFile reported it displayed.",
  note="Durability after a successful close (no fsync) and kernel-level partial writes are outside the contracts. The real CLI with injected "
       "ENOSPC/EPIPE on the k-th open/write/close/stdout write is a bounded companion.",
  assumptions=[FS_A]),
 'C13': dict(
  level='proof',
  text="Proof: hexdump default layout for every byte string (outer-loop invariant, inner loop per line length 1..16, bytes symbolic); parse "
       "per-line lemma for the default and both I/O-drawer templates, every byte count 0..16, padded or cut short lines, either digit case, any "
       "address/text column; blank/comment lines contribute nothing; iterations of parse are independent (syntactic frame lemma) so the lemma "
       "lifts to dumps of any length; --hex display == markers around the dump (trace invariant).",
  note="All 256x256 layout settings: line count/width/offsets by enumeration on the real function (complete in the thorough tier, sampled in "
       "quick) - not symbolic.",
  assumptions=[]),
 'C14': dict(
  level='proof',
  text="Proof: timestamp rendering, reported-error test, wildcard match of 8-character patterns (symbolic pattern and PTE), matches, first-match "
       "table search (quantified invariant), message parameters/suffix with the %-format havocked, and the entry loop of parse_ilog_data for any "
       "length (invariant over a recursively defined line list).",
  note="Assumed: re.compile/fullmatch on [0-9A-Fa-f.] patterns is position-wise matching (cross-checked on 4000+ random pairs per run); the "
       "reader of the header file (PTETable._parse_header_file) is proved for a file of any number of arbitrary lines - entries == fold of the "
       "table grammar's state machine over the lines, in file order - with regex matching abstracted (match = uninterpreted predicate of "
       "(pattern, line), groups = uninterpreted functions); what the three regex constants accept is bounded only (2 shipped tables + generated "
       "tables); _add_entry is proved symbolically for parameter fields of 0..5 characters (bounded, not counted as proved).",
  assumptions=["regex constants of the table grammar (which lines TBL_START_RE / TBL_ENTRY_RE / TBL_END_RE accept): bounded",
               "_add_entry: parameter fields longer than the stated bound: bounded (grammar companion)"]),
 'C15': dict(
  level='proof',
  text="Proof: header read, entry framing (all lengths 0..65535, every alignment), argument extraction, exact/last-partial string lookup "
       "(quantified invariant), TraceBuffer.read (inductive invariant over recursively defined entry positions), entry rendering incl. indented "
       "hex dump (invariant), parse_trace_data (invariant).",
  note="TraceStringFile.__init__ is proved for a file of any number of arbitrary lines (trace strings == the lines the line pattern accepts, in file "
       "order; hash = int(group 1), message/location = groups 2/3 stripped) with regex matching abstracted; what LINE_RE accepts is bounded only "
       "(2 shipped files + generated files).",
  assumptions=["regex constant of the string-file grammar (which lines LINE_RE accepts, what its groups hold): bounded"]),
 'C16': dict(
  level='proof',
  text="Proof for arbitrary field tables (symbolic count, names, sizes 1|2) and every data length: contiguous consumption from offset 0, one "
       "line per non-zero field with zero-padded width, stop at the first field that does not fit; hex dump via the C13 contract.",
  note="get_hlog_fields is proved for a file of any number of arbitrary lines (fields == fold of the grammar's state machine over the lines, in "
       "file order, width 1|2 from group 1) with regex matching abstracted; what the three regex constants accept is bounded only.",
  assumptions=["regex constants of the field-table grammar (which lines HLOG_START_RE / HLOG_FIELD_RE / HLOG_END_RE accept): bounded"]),
 'C17': dict(
  level='proof',
  text="Proof: parse_dump_data for every byte string and every subset/order of the six recognised headers: regions are consecutive, cover "
       "[0,n) and are reported in ascending order, each decoded by the stand-alone decoder on exactly its slice; parse_dump_file auto-detection; "
       "a pre-BMC line contributes nothing under the BMC template.",
  note="bytes.find is used through its full (assumed) contract: the least offset of an occurrence, -1 iff there is none (quantified). With it "
       "the statement's 'earliest recognised header' is proved on the bytes themselves: no header of any of the six names starts before the end "
       "of the ILOG region, every trace region starts at a header, a name without a region occurs nowhere, and the first header of each name that "
       "occurs starts a region.",
  assumptions=[]),
 'C18': dict(
  level='proof',
  text="Proof over the imports / plugin_calls traces with parser modules havocked: module names, arguments, containment and import-cache "
       "invariants for parseCustom, SRC.parse, getProcedureDesc, osrc.parseSRCToJson; m2c00 routing; plugins disabled => both traces empty "
       "(parse, SRC.toJSON, getCallouts).",
  note="Third-party parser behaviour is havocked, not verified.",
  assumptions=[PLUGIN_A]),
 'C19': dict(
  level='proof',
  text="Invariant preservation: every cache (userDataParsers, srcParsers, calloutParsers, osrcParsers) satisfies 'cached None iff the import "
       "raises, cached module == what the import returns' after every operation incl. raising parsers; frame obligations: no unit writes to a "
       "module/class-level object or default argument outside the declared inventory. History companion (fresh process vs after random "
       "histories) is bounded.",
  note="Rests on A3 (import outcome is a function of the name; parsers stateless).",
  assumptions=[PLUGIN_A]),
 'C20': dict(
  level='proof',
  text="Proof: descriptions with present/absent/partial chip data, signature slicing at the documented byte positions (python and -O), SRC and "
       "user-data plugins, signature list (invariant), register dump for any number of chips/registers and every data size 1..255 (nested "
       "invariants, 16 shards), scratch registers.",
  note="Chip-data content: two sample environments. Callout FFDC for any payload: the text given to json.loads is exactly the payload "
       "without trailing NULs (quantified characterisation of bytes.rstrip), the result json.dumps of that value under its key - JSON "
       "parsing itself is an assumed function (json.loads/json.dumps); concrete documents in a bounded unit.",
  assumptions=[PLUGIN_A]),
}


DROPPED = ["docstrings, type annotations", "argparse parser construction and help text (parse_args() returns an arbitrary namespace)",
           "__main__ guards", "resource exhaustion (MemoryError, RecursionError), signals, threads (none in the code)",
           "monkey-patching / rebinding of module globals at run time", "floating point (only math.ceil(a/b) of integers)"]
TRUSTED = ["assumed contracts of the OS boundary: os.walk, open/read/write/close, os.remove, print (effects on ghost traces; may raise OSError)",
           "machine arithmetic: none - Python ints are mathematical and are encoded as z3 Int"]


TECH = {'C01': 'contracts + z3 VCs on the real source: section consumption posts, dispatch post, parsePEL loop invariant over recursively defined section list; buildOutput by two loop invariants over an array-modelled map + lemmas (z3 induction, cvc5 strings) and exhaustive enumeration', 'C02': 'contracts + z3 VCs: one postcondition per displayed field against byte-exact spec functions; sharded over flag words / target counts', 'C03': 'contracts + z3 VCs: sub-structure posts with read footprint, getCallouts by three loop invariants, SRC.toJSON posts with sample registries, Registry.getErrorMessage by a quantified first-match invariant over a registry of any size', 'C04': 'contracts + z3 VCs with the parser module havocked (returns/None/null/raises); hex-dump preservation via the C13 contract', 'C05': 'contracts + z3 VCs in both assert modes (assert statements removed for -O): bounds posts, exceptional postconditions, parsePEL-any-input invariant', 'C06': 'AST-extracted rewrite rule + regex->DFA product/emptiness (position lemma for lines of any length) + call-site check + mode loop invariants for the framing', 'C07': "contracts + z3 VCs: decision procedure equals the statement's selection formula over all severities, flags, switches and group sets", 'C08': 'contracts + z3 VCs: getFileList and the three modes by per-file loop invariants over one shared selection predicate (directories of any size)', 'C09': 'contracts + z3 VCs: stdout/stderr/fs ghost traces; per-file loop invariants: undecodable files contribute nothing (directories of any size)', 'C10': 'contracts + z3 VCs: id normalisation, PLID string lemma for all 2^32 ids (base-16 lemmas), look-up loops by (quantified) invariants', 'C11': 'contracts + z3 VCs: frame conditions on the ghost fs trace; deletion loops by invariants; main dispatch over all option combinations', 'C12': 'contracts + z3 VCs: every I/O primitive forks into success/OSError (all fault sequences); remove only after write_ok and close_ok', 'C13': 'contracts + z3 VCs: hexdump loop invariant, per-line parse lemmas on concrete-shape strings for 3 templates, syntactic independence lemma; layout enumeration', 'C14': 'contracts + z3 VCs: wildcard match on symbolic patterns, first-match search (quantified invariant), entry loop invariant, table-file reader by a loop invariant over the lines (regex matching abstracted as uninterpreted predicates)', 'C15': 'contracts + z3 VCs: entry framing posts, buffer/format/parse loop invariants over recursively defined positions and line lists, string-file reader by a loop invariant over the lines (regex matching abstracted)', 'C16': 'contracts + z3 VCs: field loop invariant over an arbitrary symbolic field table; field-table reader by a loop invariant over the lines of the header file (regex matching abstracted)', 'C17': 'contracts + z3 VCs: partition/order/slice posts over the six header finds (bytes.find with its quantified least-occurrence contract: earliest header stated on the bytes); auto-detection post; cross-template lemma', 'C18': 'contracts + z3 VCs over imports/plugin_calls traces with parser modules havocked; plugins-disabled frames', 'C19': 'contracts + z3 VCs: cache invariants preserved by every operation (all histories by induction); frame obligations on shared mutable state', 'C20': 'contracts + z3 VCs: field-exact slicing posts (both assert modes), signature-list invariant, register dump by nested invariants over all data sizes'}


_DS = ("The value half of the DataStream contracts this property's decoders lean on (an in-range read returns exactly those bytes / "
       "that big-endian integer and advances the cursor by n, for the widths read here) is re-proved under this property; how "
       "out-of-range reads are refused belongs to C05.")
DEPS_NOTE = {
    'C01': _DS + " The default-layout hexdump shown for hexdump-only sections is re-proved here as well.",
    'C02': _DS, 'C03': _DS + " getDisplayCompID ('Created by') is re-proved here.",
    'C04': _DS + " hexdump (the preserved dump), getDisplayCompID and the column-alignment lemma of the printer are re-proved here.",
    'C14': _DS, 'C15': _DS + " The hexdump shown for an unparseable buffer is re-proved here.",
    'C16': _DS + " The full hexdump is re-proved here.", 'C18': _DS, 'C20': _DS,
    'C10': "considerPEL's look-up exemption (hidden / non-serviceable PELs are found without extra options) is re-proved here.",
    'C11': "processId (a wrong-length id never reaches the name match) is re-proved here.",
    'C09': "The top-level-only walks (getFileList, main --json) are re-proved here.",
}


def apply(PROPS):
    import json, os
    exp = {}
    ep = os.path.join(os.path.dirname(os.path.abspath(__file__)), 'expected.json')
    if os.path.exists(ep):
        exp = json.load(open(ep))
    for pid, m in META.items():
        if pid not in PROPS:
            continue
        p = PROPS[pid]
        p['level'] = m['level']
        p['level_text'] = m['text']
        p['level_note'] = m['note'] + (" " + DEPS_NOTE[pid] if pid in DEPS_NOTE else "")
        p['explanation'] = m.get('explanation') or m['text']
        p['assumptions'] = COMMON_ASSUMPTIONS + m.get('assumptions', [])
        p['technique'] = TECH.get(pid, '')
        p['dropped'] = DROPPED
        p['trusted_base'] = TRUSTED
        if pid in exp:
            # vacuity guard: a run that generates far fewer obligations than the recorded baseline is a checker error
            p['min_obligations'] = max(p.get('min_obligations', 1), int(exp[pid] * 0.6))
