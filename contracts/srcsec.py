"""C03 (and the SRC part of C01/C05/C09): SRC section, callouts, FRU/PCE/MRU sub-structures."""
import z3

from contracts.common import *
from pyvc.unit import Unit, Contract, LoopInv
from pyvc.seq import Chunk, list_term, val_term, Val, v_snoc, v_nil, RecFn
from pyvc.seq import v_get, v_has
from pyvc.values import Opq, I, SBytes, SStr, is_z3, OpaqueVal, Obj, lit, Raised, ExcObj
from pyvc import ops as _ops
from pyvc.interp import lookup_qualname, BoundMethod
from pyvc.models import LazySeq

SRCM = "pel.peltool.src."


def text_field(d, o, n):
    """fixed-width text field without its NUL padding"""
    return strip(ascii_text(d, o, n), "\0")


# ------------------------------------------------------------------ FRU identity
def fru_size(flags):
    return 4 + If(Or(bit(flags, 0x08), bit(flags, 0x02)), 8, 0) + If(bit(flags, 0x04), 4, 0) + If(bit(flags, 0x01), 12, 0)


def fru_fields(d, o):
    """spec of the FRU identity sub-structure at o: dict of fields (forks on the flag bits)"""
    flags = byte(d, o + 3)
    f = dict(type=be(d, o, 2), size=byte(d, o + 2), flags=flags, pnOrProcedureID="", ccin="", sn="")
    p = o + 4
    if branch(Or(bit(flags, 0x08), bit(flags, 0x02))):
        f['pnOrProcedureID'] = text_field(d, p, 8)
        p = p + 8
    if branch(bit(flags, 0x04)):
        f['ccin'] = text_field(d, p, 4)
        p = p + 4
    if branch(bit(flags, 0x01)):
        f['sn'] = text_field(d, p, 12)
        p = p + 12
    f['flattenedSize'] = p - o
    return f


def fru_ascii(d, o):
    return is_ascii(d, o + 4, 24)


class _SubUnit(Unit):
    stdout_silent = True
    prop = "C03"
    cls = None
    contracts = DS_CONTRACTS

    def inputs(self, S):
        return dict(stream=mk_stream(S))

    def call(self, it, inp):
        return it.call(lookup_qualname(self.cls), [inp['stream']])

    def call_native(self, inp):
        import importlib
        mod, cname = self.cls.rsplit('.', 1)
        return getattr(importlib.import_module(mod), cname)(inp['stream'])

    def enough(self, inp, n):
        s = inp['stream']
        return And(ds_invariant(s), field(s, 'index') + n <= field(s, 'size'))

    def fields_match(self, P, obj, spec, what):
        for k, v in spec.items():
            P.prove(has_field(obj, k), "%s.%s is set" % (what, k))
            if has_field(obj, k):
                P.prove(Eq(field(obj, k), v), "%s.%s == the encoded value" % (what, k))


class FRU(_SubUnit):
    name = "FRUIdentity.__init__"
    target = SRCM + "FRUIdentity.__init__"
    cls = SRCM + "FRUIdentity"

    def pre(self, S, inp):
        d, o = field(inp['stream'], 'data'), field(inp['stream'], 'index')
        return And(self.enough(inp, 28), fru_ascii(d, o))

    def check(self, P, inp, old, out):
        P.prove(out.returned, "decodes when the structure is present")
        if not out.returned:
            return
        d, o = old['stream'].data, old['stream'].index
        spec = fru_fields(d, o)
        self.fields_match(P, out.value, spec, "FRU identity")
        P.prove(Eq(field(inp['stream'], 'index'), o + spec['flattenedSize']), "cursor advanced by the flattened size")
        P.prove(Eq(spec['flattenedSize'], fru_size(byte(d, o + 3))), "flattened size == 4 + 8[pn|proc] + 4[ccin] + 12[sn]")


class CFRU(Contract):
    target = SRCM + "FRUIdentity"

    def model(self, it, stream):
        ctx = it.ctx
        d, o = field(stream, 'data'), field(stream, 'index')
        flags = byte(d, o + 3)
        need = fru_size(flags)
        if not ctx.decide(zint(o) + zint(need) <= zint(field(stream, 'size'))):
            stream.index = havoc_cursor(ctx, stream)
            raise Raised(ExcObj(AssertionError, ("range check failure",)))
        if not ctx.decide(fru_ascii_needed(d, o, flags)):
            stream.index = havoc_cursor(ctx, stream)
            raise Raised(ExcObj(UnicodeDecodeError, ('utf-8', b'', 0, 1, 'invalid start byte')))
        f = fru_fields(d, o)
        obj = Obj(lookup_qualname(SRCM + "FRUIdentity"), f)
        ctx.new_ids.add(id(obj))
        stream.index = simp(zint(o) + zint(f['flattenedSize']))
        return obj


def havoc_cursor(ctx, stream):
    c = ctx.fresh('cursor_after_error', 'int')
    ctx.assume(z3.And(c >= zint(field(stream, 'index')), c <= zint(field(stream, 'size'))))
    return c


def fru_ascii_needed(d, o, flags):
    """the text fields that are present are ASCII (non-ASCII text raises or decodes differently: assumed away
    here by an explicit exceptional path)"""
    return is_ascii(d, o + 4, 24) if True else True


# ------------------------------------------------------------------ PCE identity
def pce_fields(d, o):
    size = byte(d, o + 2)
    f = dict(type=be(d, o, 2), flattenedSize=size, flags=byte(d, o + 3), machineType=text_field(d, o + 4, 8),
             serialNumber=text_field(d, o + 12, 12))
    return f, size


class PCE(_SubUnit):
    name = "PCEIdentity.__init__"
    target = SRCM + "PCEIdentity.__init__"
    cls = SRCM + "PCEIdentity"
    NAME_LENS = [0, 1, 4, 8, 16, 32]

    def inputs(self, S):
        self._n = S.choice("namelen", self.NAME_LENS)
        return dict(stream=mk_stream(S))

    def pre(self, S, inp):
        d, o = field(inp['stream'], 'data'), field(inp['stream'], 'index')
        n = self._n
        return And(self.enough(inp, 24 + n), Eq(byte(d, o + 2), 24 + n), is_ascii(d, o + 4, 20 + n))

    def check(self, P, inp, old, out):
        P.prove(out.returned, "decodes when the structure (size >= 24) is present")
        if not out.returned:
            return
        d, o = old['stream'].data, old['stream'].index
        spec, size = pce_fields(d, o)
        n = self._n
        spec['pceName'] = text_field(d, o + 24, n) if n else (strip("", "\0") if True else "")
        self.fields_match(P, out.value, spec, "PCE identity")
        P.prove(Eq(field(inp['stream'], 'index'), o + 24 + n), "cursor advanced by the declared size")
        if P.symbolic:
            P.prove(len(P.ctx.stdout) == 0, "nothing is printed on stdout")


class CPCE(Contract):
    target = SRCM + "PCEIdentity"

    def model(self, it, stream):
        ctx = it.ctx
        d, o = field(stream, 'data'), field(stream, 'index')
        size = byte(d, o + 2)
        if not ctx.decide(zint(o) + 24 <= zint(field(stream, 'size'))):
            stream.index = havoc_cursor(ctx, stream)
            raise Raised(ExcObj(AssertionError, ("range check failure",)))
        if ctx.decide(zint(size) < 24):
            # malformed: declared size below the fixed part - a diagnostic on stderr, the 24 fixed bytes are consumed,
            # no name (proved in PCEMalformed)
            f, _ = pce_fields(d, o)
            ctx.emit('stderr', ("PCE identity structure size field too small", '\n'))
            obj = Obj(lookup_qualname(SRCM + "PCEIdentity"), f)
            ctx.new_ids.add(id(obj))
            stream.index = simp(zint(o) + 24)
            return obj
        if not ctx.decide(zint(o) + zint(size) <= zint(field(stream, 'size'))):
            stream.index = havoc_cursor(ctx, stream)
            raise Raised(ExcObj(AssertionError, ("range check failure",)))
        f, _ = pce_fields(d, o)
        # name length is symbolic here: the name is an opaque function of its bytes
        nm = ufun('spec_pce_name', Val, z3.IntSort(), z3.IntSort(), PyStr)(val_term(d), zint(o) + 24, zint(size) - 24)
        f['pceName'] = mkstr([Opq(nm)])
        f['pceNameSize'] = simp(zint(size) - 24)
        obj = Obj(lookup_qualname(SRCM + "PCEIdentity"), f)
        ctx.new_ids.add(id(obj))
        stream.index = simp(zint(o) + zint(size))
        return obj


class PCEMalformed(_SubUnit):
    """declared size below 24: diagnostic on stderr only, the 24 fixed bytes are consumed, the object has no name"""
    prop = "C09"
    name = "PCEIdentity.__init__ (size field too small)"
    target = SRCM + "PCEIdentity.__init__"
    cls = SRCM + "PCEIdentity"

    def pre(self, S, inp):
        d, o = field(inp['stream'], 'data'), field(inp['stream'], 'index')
        return And(self.enough(inp, 24), byte(d, o + 2) < 24, is_ascii(d, o + 4, 20))

    def check(self, P, inp, old, out):
        P.prove(out.returned, "returns (the callout is then rejected or rendered without the name by the caller)")
        if not out.returned:
            return
        d, o = old['stream'].data, old['stream'].index
        P.prove(Eq(field(inp['stream'], 'index'), o + 24), "the 24 fixed bytes are consumed")
        P.prove(not has_field(out.value, 'pceName'), "no name is decoded")
        if P.symbolic:
            P.prove(len(P.ctx.stdout) == 0 and len(P.ctx.stderr) == 1, "the diagnostic goes to stderr, nothing to stdout")


# ------------------------------------------------------------------ MRU
class MRU(_SubUnit):
    name = "MRU.__init__"
    target = SRCM + "MRU.__init__"
    cls = SRCM + "MRU"

    def pre(self, S, inp):
        return self.enough(inp, 8 + 8 * 15)

    def check(self, P, inp, old, out):
        P.prove(out.returned, "decodes when the structure is present")
        if not out.returned:
            return
        d, o = old['stream'].data, old['stream'].index
        m = out.value
        flags = byte(d, o + 3)
        n = len(field(m, 'mrus'))
        P.prove(Eq(n, band(flags, 0xF)), "number of MRU entries == low nibble of the flags byte")
        self.fields_match(P, m, dict(type=be(d, o, 2), flattenedSize=byte(d, o + 2), flags=flags), "MRU")
        for k in range(n):
            e = field(m, 'mrus')[k]
            P.prove(And(Eq(field(e, 'priority'), be(d, o + 8 + 8 * k, 4)), Eq(field(e, 'id'), be(d, o + 12 + 8 * k, 4))),
                    "MRU entry %d == (priority, id) words %d" % (k, k))
        P.prove(Eq(field(inp['stream'], 'index'), o + 8 + 8 * n), "cursor advanced by 8 + 8 * count")


class CMRU(Contract):
    target = SRCM + "MRU"

    def model(self, it, stream):
        ctx = it.ctx
        d, o = field(stream, 'data'), field(stream, 'index')
        flags = byte(d, o + 3)
        n = band(flags, 0xF)
        if not ctx.decide(zint(o) + 8 + 8 * zint(n) <= zint(field(stream, 'size'))):
            stream.index = havoc_cursor(ctx, stream)
            raise Raised(ExcObj(AssertionError, ("range check failure",)))
        ci = lookup_qualname(SRCM + "MRUCallout")
        mrus = LazySeq(n, lambda k: Obj(ci, dict(priority=be(d, o + 8 + 8 * zint(k), 4), id=be(d, o + 12 + 8 * zint(k), 4))), 'mrus')
        obj = Obj(lookup_qualname(SRCM + "MRU"), dict(type=be(d, o, 2), flattenedSize=byte(d, o + 2), flags=flags,
                                                      reserved4B=be(d, o + 4, 4), mrus=mrus))
        ctx.new_ids.add(id(obj))
        stream.index = simp(zint(o) + 8 + 8 * zint(n))
        return obj


# ------------------------------------------------------------------ callout record
def callout_layout(d, o):
    """well-formed callout at o: 4-byte header, location code, then FRU identity? PCE identity? MRU? in that order,
    each at most once; returns dict(ok, size, L, p_id/has_id/..., end)"""
    size, L = byte(d, o), byte(d, o + 3)
    p0 = o + 4 + L
    rem0 = size - 4 - L
    has_id = And(rem0 > 0, Eq(be(d, p0, 2), 0x4944))
    idsz = fru_size(byte(d, p0 + 3))
    p1 = If(has_id, p0 + idsz, p0)
    rem1 = If(has_id, rem0 - idsz, rem0)
    has_pe = And(rem1 > 0, Eq(be(d, p1, 2), 0x5045))
    pesz = byte(d, p1 + 2)
    p2 = If(has_pe, p1 + pesz, p1)
    rem2 = If(has_pe, rem1 - pesz, rem1)
    has_mr = And(rem2 > 0, Eq(be(d, p2, 2), 0x4D52))
    mrsz = 8 + 8 * band(byte(d, p2 + 3), 0xF)
    end = If(has_mr, p2 + mrsz, p2)
    ok = And(size >= 4 + L, Eq(end, o + size),
             Implies(has_id, Eq(byte(d, p0 + 2), idsz)), Implies(has_pe, pesz >= 24), Implies(has_mr, Eq(byte(d, p2 + 2), mrsz)))
    return dict(ok=ok, size=size, L=L, p0=p0, has_id=has_id, p1=p1, has_pe=has_pe, p2=p2, has_mr=has_mr, end=end)


class CalloutU(_SubUnit):
    name = "Callout.__init__"
    target = SRCM + "Callout.__init__"
    cls = SRCM + "Callout"
    contracts = DS_CONTRACTS + [CFRU, CPCE, CMRU]
    LOCS = [0, 1, 4, 16, 80]
    shards = 5
    max_unroll = 6
    max_paths = 4000

    def inputs(self, S):
        self._L = self.LOCS[self.shard]
        return dict(stream=mk_stream(S))

    def pre(self, S, inp):
        s = inp['stream']
        d, o = field(s, 'data'), field(s, 'index')
        lay = callout_layout(d, o)
        return And(ds_invariant(s), Eq(byte(d, o + 3), self._L), lay['ok'], o + lay['size'] <= field(s, 'size'),
                   is_ascii(d, o + 4, self._L),
                   Implies(lay['has_id'], fru_ascii(d, lay['p0'])), Implies(lay['has_pe'], is_ascii(d, lay['p1'] + 4, 20)))

    def check(self, P, inp, old, out):
        P.prove(out.returned, "a well-formed callout decodes without error")
        if not out.returned:
            return
        c = out.value
        d, o = old['stream'].data, old['stream'].index
        lay = callout_layout(d, o)
        L = self._L
        self.fields_match(P, c, dict(size=byte(d, o), flags=byte(d, o + 1), priority=byte(d, o + 2), locationCodeSize=byte(d, o + 3),
                                     locationCode=(text_field(d, o + 4, L) if L else "")), "callout")
        for nm, has in (('fruIdentity', 'has_id'), ('pceIdentity', 'has_pe'), ('mru', 'has_mr')):
            P.prove(Iff(field(c, nm) is not None, lay[has]), "callout.%s present iff the sub-structure is encoded" % nm)
        P.prove(Eq(field(inp['stream'], 'index'), o + lay['size']), "cursor advanced by exactly the callout's declared size")
        # read footprint: every direct peek into the buffer stays inside the callout
        reads = field(inp['stream'], 'data').root.reads if P.symbolic and field(inp['stream'], 'data').root else []
        for lo, hi in reads:
            P.prove(And(lo >= o, hi <= o + lay['size']), "no byte outside the callout is looked at")


UNITS = [FRU, PCE, MRU, CalloutU]


# ------------------------------------------------------------------ getCallouts: walk + rendering
SRCC = SRCM + "SRC"


def cal_fns():
    return (z3.Function('cal_pos', z3.IntSort(), z3.IntSort()), z3.Function('cal_wf', z3.IntSort(), z3.BoolSort()),
            z3.Function('cal_json', z3.IntSort(), Val), z3.Function('cal_mruid', z3.IntSort(), z3.IntSort(), PyStr))


def callout_wf(d, p):
    lay = callout_layout(d, p)
    return And(lay['ok'], is_ascii(d, p + 4, 0) if True else True), lay


def callout_obj(ctx, d, p):
    """the callout record at p as an object (forks on which sub-structures are present); assumes it is well formed"""
    lay = callout_layout(d, p)
    L = byte(d, p + 3)
    loc = mkstr([Opq(ufun('spec_loc_code', Val, z3.IntSort(), z3.IntSort(), PyStr)(val_term(d), zint(p) + 4, zint(L)))])
    f = dict(size=byte(d, p), flags=byte(d, p + 1), priority=byte(d, p + 2), locationCodeSize=L,
             locationCode=loc if not ctx.decide(Eq(L, 0)) else "", fruIdentity=None, pceIdentity=None, mru=None, _pos=p)
    if ctx.decide(lay['has_id']):
        f['fruIdentity'] = Obj(lookup_qualname(SRCM + "FRUIdentity"), fru_fields(d, lay['p0']))
    if ctx.decide(lay['has_pe']):
        pf, size = pce_fields(d, lay['p1'])
        pf['pceName'] = mkstr([Opq(ufun('spec_pce_name', Val, z3.IntSort(), z3.IntSort(), PyStr)(val_term(d), zint(lay['p1']) + 24, zint(size) - 24))])
        f['pceIdentity'] = Obj(lookup_qualname(SRCM + "PCEIdentity"), pf)
    if ctx.decide(lay['has_mr']):
        p2 = lay['p2']
        n = band(byte(d, p2 + 3), 0xF)
        ci = lookup_qualname(SRCM + "MRUCallout")
        mrus = LazySeq(n, lambda k: Obj(ci, dict(priority=be(d, p2 + 8 + 8 * zint(k), 4), id=be(d, p2 + 12 + 8 * zint(k), 4))), 'mrus')
        f['mru'] = Obj(lookup_qualname(SRCM + "MRU"), dict(type=be(d, p2, 2), flattenedSize=byte(d, p2 + 2), flags=byte(d, p2 + 3), mrus=mrus))
    o = Obj(lookup_qualname(SRCM + "Callout"), f)
    ctx.new_ids.add(id(o))
    return o


class CCallout(Contract):
    """Callout(stream) on a well-formed record (proved in Callout.__init__): the record's fields, cursor += size"""
    target = SRCM + "Callout"

    def model(self, it, stream):
        ctx = it.ctx
        d, o = field(stream, 'data'), field(stream, 'index')
        lay = callout_layout(d, o)
        if not ctx.decide(And(lay['ok'], zint(o) + zint(lay['size']) <= zint(field(stream, 'size')))):
            stream.index = havoc_cursor(ctx, stream)
            raise Raised(ExcObj(Exception, ("malformed callout (behaviour covered by C05)",)))
        obj = callout_obj(ctx, d, o)
        stream.index = simp(zint(o) + zint(lay['size']))
        return obj


class CFlattenedSize(Contract):
    target = SRCM + "Callout.flattenedSize"

    def model(self, it, c):
        return field(c, 'size')


class CGetProcedureDesc(Contract):
    """maintenance-procedure description from the callout parser module: adds a Description iff the module
    defines one for exactly that procedure name (module behaviour assumed, A3); never raises"""
    target = SRCC + ".getProcedureDesc"

    def model(self, it, src, procName, out):
        ctx = it.ctx
        ctx.emit('plugin_calls', ('calloutparsers', field(src, 'creatorID'), procName))
        t = str_term(procName)
        if ctx.decide(ufun('proc_has_desc', PyStr, PyStr, z3.BoolSort())(str_term(field(src, 'creatorID')), t)):
            out["Description"] = OpaqueVal(ufun('proc_desc', PyStr, PyStr, Val)(str_term(field(src, 'creatorID')), t), 'val')
        return None


def spec_render(ctx, c, src, config):
    """the JSON object displayed for one callout (C03): mirrors the statement field by field"""
    from collections import OrderedDict
    js = OrderedDict()
    fru = field(c, 'fruIdentity')
    if fru is not None:
        fl = field(fru, 'flags')
        js["FRU Type"] = table(T('failingComponentType'), band(fl, 0xF0), 'Invalid')
        js["Priority"] = table(T('calloutPriorityValues'), field(c, 'priority'), 'Invalid')
        loc = field(c, 'locationCode')
        if branch(_ops.str_len(ctx, loc) > 0 if not isinstance(loc, str) else len(loc) > 0):
            js["Location Code"] = loc
        if branch(bit(fl, 0x08)):
            js["Part Number"] = field(fru, 'pnOrProcedureID')
        if branch(bit(fl, 0x02)):
            js["Procedure"] = field(fru, 'pnOrProcedureID')
            if branch(truth(field(config, 'allow_plugins'))):
                t = str_term(js["Procedure"])
                cr = str_term(field(src, 'creatorID'))
                if branch(ufun('proc_has_desc', PyStr, PyStr, z3.BoolSort())(cr, t)):
                    js["Description"] = OpaqueVal(ufun('proc_desc', PyStr, PyStr, Val)(cr, t), 'val')
        if branch(bit(fl, 0x04)):
            js["CCIN"] = field(fru, 'ccin')
        if branch(bit(fl, 0x01)):
            js["Serial Number"] = field(fru, 'sn')
    pce = field(c, 'pceIdentity')
    if pce is not None:
        mt = field(pce, 'machineType')
        if branch(_ops.str_len(ctx, mt) > 0 if not isinstance(mt, str) else len(mt) > 0):
            js["PCE MTMS"] = cat(mt, "_", field(pce, 'serialNumber'))
        nm = field(pce, 'pceName')
        if branch(_ops.str_len(ctx, nm) != 0 if not isinstance(nm, str) else len(nm) != 0):
            js["PCE Name"] = nm
    mru = field(c, 'mru')
    if mru is not None:
        CP, WF, CJ, MS = cal_fns()
        n = field(mru, 'mrus').length
        js["MRU Id"] = _ops.str_slice(ctx, mkstr([Opq(MS(zint(field(c, '_pos')), zint(n)))]), None, -1)
    return js


def wf_def(d, k, start):
    """callout k of the tiling is well formed: layout consistent with its declared size, next position follows it,
    it starts before the end of the subsection, its text fields are ASCII"""
    CP, WF, CJ, MS = cal_fns()
    p = CP(zint(k))
    lay = callout_layout(d, p)
    end = zint(start) + 4 * be(d, zint(start) + 2, 2)
    return simp(z3.And(zbool__(lay['ok']), CP(zint(k) + 1) == p + lay['size'], p < end, p + lay['size'] <= end))


class WalkInv(LoopInv):
    func = SRCC + ".getCallouts"
    loop = 0
    modifies_locals = ('callout', 'currentLength', 'callouts')

    def heap_targets(self, it, fr):
        return [fr.locals['callouts'], (field(fr.locals['self'], 'stream'), 'index')]

    def K(self, ctx):
        return ctx.ghost.setdefault('cal_K', 0)

    def havoc(self, it, fr, i):
        ctx = it.ctx
        CP, WF, CJ, MS = cal_fns()
        K = ctx.fresh('cal_k', 'int')
        ctx.assume(K >= 0)
        ctx.ghost['cal_K'] = K
        s = field(fr.locals['self'], 'stream')
        d = field(s, 'data')
        ctx.assume(WF(K) == wf_def(d, K, ctx.ghost['cal_start']))
        s.index = CP(K)
        fr.locals['currentLength'] = simp(CP(K) - ctx.ghost['cal_start'])
        fr.locals['callouts'] = LazySeq(K, lambda k: callout_obj(ctx, d, CP(zint(k))), 'callouts')

    def inv(self, it, fr, i):
        ctx = it.ctx
        CP, WF, CJ, MS = cal_fns()
        K = zint(self.K(ctx))
        s = field(fr.locals['self'], 'stream')
        if 'cal_start' not in ctx.ghost:
            # entry: the subsection header (4 bytes) has just been read
            ctx.ghost['cal_start'] = simp(zint(field(s, 'index')) - 4)
        start = ctx.ghost['cal_start']
        cl = fr.locals['callouts']
        ok_list = isinstance(cl, (list, LazySeq))
        if isinstance(cl, list):
            n_ok = len(cl) == 0 and K.eq(I(0)) if is_z3(K) else (len(cl) == 0)
            shape = n_ok
        else:
            shape = And(Eq(cl.length, K - len(cl.tail)), *[Eq(field(x, '_pos'), CP(K - len(cl.tail) + j)) for j, x in enumerate(cl.tail)])
        n = ctx.ghost['cal_n']
        return And(shape, Eq(field(s, 'index'), CP(K)), Eq(fr.locals['currentLength'], CP(K) - start), K >= 0, K <= n)

    def unfold(self, it, fr, i):
        ctx = it.ctx
        K = self.K(ctx)
        ctx.ghost['cal_K'] = simp(zint(K) + 1)
        cl = fr.locals['callouts']
        if isinstance(cl, LazySeq) and cl.tail:
            pass

    def variant(self, it, fr):
        ctx = it.ctx
        return simp(zint(ctx.ghost['cal_n']) - zint(self.K(ctx)))


class RenderInv(LoopInv):
    func = SRCC + ".getCallouts"
    loop = 1
    modifies_locals = ('callout', 'json', 'mru', 'mruId')

    def heap_targets(self, it, fr):
        return [fr.locals['calloutJsons']]

    def havoc(self, it, fr, i):
        CP, WF, CJ, MS = cal_fns()
        fr.locals['calloutJsons'][:] = [Chunk(ufun('cal_jsons', z3.IntSort(), Val)(zint(i)))]

    def inv(self, it, fr, i):
        ctx = it.ctx
        F = ufun('cal_jsons', z3.IntSort(), Val)
        if isinstance(i, int) and i == 0 or (is_z3(i) and False):
            ctx.assume(F(I(0)) == v_nil())
        return list_term(fr.locals['calloutJsons']) == F(zint(i))

    def on_element(self, it, fr, i):
        self.shard_filter(it, fr.locals['callout'])

    def shard_filter(self, it, c):
        """the 16 shards split the rendering step by the low nibble of the FRU identity flags (shard 0 also
        takes callouts without FRU identity)"""
        from pyvc.engine import Infeasible
        ctx = it.ctx
        sh = ctx.ghost.get('shard', 0)
        fru = field(c, 'fruIdentity')
        if fru is None:
            if sh != 0:
                raise Infeasible()
            return
        ctx.assume(Eq(band(field(fru, 'flags'), 0x0F), sh))

    def unfold(self, it, fr, i):
        ctx = it.ctx
        F = ufun('cal_jsons', z3.IntSort(), Val)
        c = fr.locals['callout']
        want = spec_render(ctx, c, fr.locals['self'], fr.locals['config'])
        ctx.assume(F(zint(i) + 1) == v_snoc(F(zint(i)), val_term(want)))


class MruIdInv(LoopInv):
    func = SRCC + ".getCallouts"
    loop = 2
    modifies_locals = ('mru', 'mruId')

    def havoc(self, it, fr, i):
        CP, WF, CJ, MS = cal_fns()
        p = field(fr.locals['callout'], '_pos')
        fr.locals['mruId'] = mkstr([Opq(MS(zint(p), zint(i)))])

    def inv(self, it, fr, i):
        ctx = it.ctx
        CP, WF, CJ, MS = cal_fns()
        p = zint(field(fr.locals['callout'], '_pos'))
        ctx.assume(MS(p, I(0)) == lit(""))
        return Eq(fr.locals['mruId'], mkstr([Opq(MS(p, zint(i)))]) if not (isinstance(i, int) and i == 0) else "") \
            if False else simp(str_term(fr.locals['mruId']) == MS(p, zint(i)))

    def unfold(self, it, fr, i):
        ctx = it.ctx
        CP, WF, CJ, MS = cal_fns()
        c = fr.locals['callout']
        p = zint(field(c, '_pos'))
        idk = field(field(field(c, 'mru'), 'mrus').elem(i), 'id')
        ctx.assume(MS(p, zint(i) + 1) == str_term(cat(mkstr([Opq(MS(p, zint(i)))]), fmt(idk, 'X', 8, '0'), ",")))


class GetCallouts(Unit):
    prop = "C03"
    stdout_silent = True
    name = "SRC.getCallouts"
    target = SRCC + ".getCallouts"
    contracts = DS_CONTRACTS + [CCallout, CFlattenedSize, CGetProcedureDesc]
    invariants = [WalkInv, RenderInv, MruIdInv]
    max_paths = 30000
    shards = 16
    kind = 'P'

    def inputs(self, S):
        from collections import OrderedDict
        stream = mk_stream(S)
        src = S.obj(SRCC, stream=stream, creatorID=S.text("creator", 1))
        self._n = S.int("ncallouts", 0)
        return dict(self=src, out=OrderedDict(), config=S.obj("pel.peltool.config.Config", allow_plugins=S.bool("allow_plugins")))

    def setup_ctx(self, ctx):
        ctx.ghost['cal_n'] = z3.Int("ncallouts")
        ctx.ghost['shard'] = self.shard

    def pre(self, S, inp):
        s = field(inp['self'], 'stream')
        d, o = field(s, 'data'), field(s, 'index')
        CP, WF, CJ, MS = cal_fns()
        n = self._n
        k = z3.Int('k!pre')
        words = be(d, o + 2, 2)
        # well-formed tiling: WF(k) for every k < n; WF is defined pointwise (wf_def) where it is used
        wf_all = z3.ForAll([k], z3.Implies(z3.And(k >= 0, k < n), WF(k)), patterns=[WF(k)])
        return And(ds_invariant(s), o + 4 <= field(s, 'size'), o + 4 * words <= field(s, 'size'), CP(0) == o + 4, wf_all,
                   CP(n) == o + 4 * words, words >= 1, creator_char(field(inp['self'], 'creatorID')) < 128)

    def check(self, P, inp, old, out):
        P.prove(out.returned, "a well-formed callout subsection decodes without error")
        if not out.returned:
            return
        if not P.symbolic:
            return
        ctx = P.ctx
        s = field(inp['self'], 'stream')
        d = field(s, 'data')
        o = ctx.ghost.get('cal_start')
        n = self._n
        sec = inp['out'].get("Callout Section")
        P.prove(sec is not None and list(sec.keys()) == ["Callout Count", "Callouts"], "Callout Section has a count and the list")
        if sec is None:
            return
        P.prove(Eq(sec["Callout Count"], n), "Callout Count equals the number of encoded callouts")
        F = ufun('cal_jsons', z3.IntSort(), Val)
        P.prove(list_term(sec["Callouts"]) == F(zint(n)), "Callouts == [render(callout k) for k < count], in encoded order")
        P.prove(Eq(field(s, 'index'), o + 4 * be(d, o + 2, 2)), "the cursor ends exactly at the end of the subsection")


def zbool__(x):
    return z3.BoolVal(x) if isinstance(x, bool) else x


UNITS = [FRU, PCE, MRU, CalloutU, GetCallouts]


# ------------------------------------------------------------------ SRC.toJSON
def common_items(inp, created_key="Created by"):
    return [("Section Version", inp['versionID']), ("Sub-section type", inp['subType']),
            (created_key, spec_display_comp(inp['componentID'], inp['creatorID']))]


REG_SAMPLE = [
    {"SRC": {"Type": "11", "ReasonCode": "0x2030"}, "Documentation": {"Message": "power fault, no arguments"}},
    {"SRC": {"ReasonCode": "0x2030", "Words6To9": {"6": {"Description": "failing unit", "AdditionalDataPropSource": "FAILING_UNIT"},
                                                     "8": {"AdditionalDataPropSource": "NO_DESC"}}},
     "Documentation": {"Message": "Error %1 on unit %2 detected", "MessageArgSources": ["SRCWord6", "SRCWord9"]}},
    {"SRC": {"Type": "BD"}, "Documentation": {"Message": "entry without reason code"}},
    {"SRC": {"Type": "BC", "ReasonCode": "0x1010", "Words6To9": {}}, "Documentation": {"Message": "hostboot plain"}},
]
REG_ENVS = [[], REG_SAMPLE]


def spec_error_details(pels, code, src_type, words):
    """registry message for (type, reason code): first entry with a ReasonCode whose Type (default BD) equals the SRC
    type and whose reason code contains '0x'+code; %N filled with hex(word N) taken from MessageArgSources, in order"""
    from collections import OrderedDict
    full = cat("0x", code)
    for pel in pels:
        if "ReasonCode" not in pel["SRC"]:
            continue
        if not branch(Eq(src_type, pel["SRC"].get("Type", "BD"))):
            continue
        rc = pel["SRC"]["ReasonCode"]
        if not branch(_ops.str_contains(cur(), rc, full) if not isinstance(full, str) else (full in rc)):
            continue
        doc = pel["Documentation"]
        msg = doc["Message"]
        if "MessageArgSources" in doc:
            import re
            args = [cat("0x", fmt(words[int(a[-1]) - 2], 'x')) for a in doc["MessageArgSources"]]
            parts = re.split(r'%[1-9]', msg)
            out = [parts[0]]
            for k, p in enumerate(parts[1:]):
                out.append(args[k])
                out.append(p)
            msg = cat(*out)
        od = OrderedDict()
        od["Message"] = msg
        if isinstance(msg, str) and msg == "":
            return None
        w = pel["SRC"].get("Words6To9")
        if w:
            for num, wc in w.items():
                if "Description" in wc:
                    od[wc["AdditionalDataPropSource"]] = [words[int(num) - 2], wc["Description"]]
        return od
    return None


def v_callout_section(pos):
    return ufun('spec_callout_section', z3.IntSort(), Val)(zint(pos))


class CGetCallouts(Contract):
    """getCallouts as proved above, opaque: adds 'Callout Section' (a function of the subsection bytes) and moves the
    cursor to the end of the subsection (4 * word length)"""
    target = SRCC + ".getCallouts"

    def model(self, it, src, out, config):
        ctx = it.ctx
        s = field(src, 'stream')
        d, o = field(s, 'data'), field(s, 'index')
        words = be(d, o + 2, 2)
        if not ctx.decide(And(zint(o) + 4 <= zint(field(s, 'size')), words >= 1, zint(o) + 4 * zint(words) <= zint(field(s, 'size')))):
            s.index = havoc_cursor(ctx, s)
            raise Raised(ExcObj(AssertionError, ("range check failure",)))
        out["Callout Section"] = OpaqueVal(v_callout_section(o), 'val')
        s.index = simp(zint(o) + 4 * zint(words))
        return None


class CSrcParse(Contract):
    """SRC.parse (C18): '' when there is no parser or it raises, else what the parser returned"""
    target = SRCC + ".parse"

    def model(self, it, src, hexwords):
        ctx = it.ctx
        ctx.ghost['parse_args'] = list(hexwords)
        key = str_term(field(src, 'asciiString'))
        for w in hexwords:
            key = ufun('pkey', PyStr, PyStr, PyStr)(key, str_term(w))
        if ctx.decide(ufun('src_parser_gives_nothing', PyStr, z3.BoolSort())(key)):
            return ''
        return mkstr([Opq(ufun('src_parser_result', PyStr, PyStr)(key))])


class SrcToJSON(SectionUnit):
    prop = "C03"
    name = "SRC.toJSON"
    target = SRCC + ".toJSON"
    cls = SRCC
    with_config = True
    contracts = DS_CONTRACTS + [CDisplayCompID, CGetCallouts, CSrcParse]
    max_paths = 20000
    shards = 8

    def inputs(self, S):
        inp = SectionUnit.inputs(self, S)
        self._pels = REG_ENVS[self.shard % 2]
        self._kind = ['BD', '11', 'BC', 'other'][(self.shard // 2) % 4]
        return inp

    def globals_init(self, S):
        from pyvc.values import Obj
        import copy
        # a private copy per path: a write by the code under test must not leak into the next path's registry
        return {(SRCM[:-1], "registry"): Obj(lookup_qualname("pel.peltool.registry.Registry"), dict(pels=copy.deepcopy(self._pels)))}

    def pre(self, S, inp):
        s = inp['stream']
        d, o = field(s, 'data'), field(s, 'index')
        t = ascii_text(d, o + 40, 2)
        kind = {'BD': Eq(t, "BD"), '11': Eq(t, "11"), 'BC': Eq(t, "BC"),
                'other': And(Not(Eq(t, "BD")), Not(Eq(t, "11")), Not(Eq(t, "BC")))}[self._kind]
        wc = byte(d, o + 3)
        return And(ds_invariant(s), o + 72 <= field(s, 'size'), is_ascii(d, o + 40, 32), self.creator_ascii(inp), wc >= 1, wc <= 9, kind)

    def call_native(self, inp):
        from pel.peltool import src as srcmod, registry as regmod
        saved = srcmod.registry
        import copy
        r = object.__new__(regmod.Registry)
        r.pels = copy.deepcopy(self._pels)
        srcmod.registry = r
        self._reg_after = r.pels
        try:
            return SectionUnit.call_native(self, inp)
        finally:
            srcmod.registry = saved

    def check(self, P, inp, old, out):
        if not P.symbolic:
            # (symbolically this is the frame obligation: the registry's entries are shared locations)
            P.prove(getattr(self, '_reg_after', self._pels) == self._pels, "the message registry is not modified by decoding an SRC")
        if not out.returned:
            if P.symbolic:
                # the only failures on a well-formed fixed part: a truncated/malformed callout subsection (range check)
                # or parser output that is not JSON
                import json
                P.prove(out.exc_class in (AssertionError, json.JSONDecodeError), "fails only for a truncated callout subsection or non-JSON parser output")
            return
        obj, js = out.value
        d, o = old['stream'].data, old['stream'].index
        words = [be(d, o + 8 + 4 * k, 4) for k in range(8)]
        flags, wc = byte(d, o + 1), byte(d, o + 3)
        asc = ascii_text(d, o + 40, 32)
        tf = lambda c: If(c, "True", "False") if is_z3(c) else ("True" if c else "False")
        items = common_items(inp) + [("SRC Version", cat("0x", hexstr(d, o, 1))), ("SRC Format", Num(band(words[0], 0xFF))),
                                     ("Virtual Progress SRC", tf(bit(flags, 0x80))), ("I5/OS Service Event Bit", tf(bit(flags, 0x10))),
                                     ("Hypervisor Dump Initiated", tf(bit(flags, 0x04)))]
        k = self._kind
        if k in ('BD', '11'):
            items += [("Backplane CCIN", Num(shr(words[1], 16))), ("Terminate FW Error", tf(bit(words[3], 0x20000000)))]
        if k in ('BD', '11', 'BC'):
            items += [("Deconfigured", tf(bit(words[3], 0x02000000))), ("Guarded", tf(bit(words[3], 0x01000000)))]
            det = spec_error_details(self._pels, sub_(asc, 4, 8), k, words)
            if det is not None:
                items.append(("Error Details", det))
        items += [("Valid Word Count", Num(wc)), ("Reference Code", strip(asc, None))]
        nshown = None
        for n in range(1, 10):
            if branch(Eq(wc, n)):
                nshown = n
                break
        hexwords = []
        for i in range(2, nshown + 1):
            items.append(("Hex Word %d" % i, fmt(words[i - 2], 'X', 8, '0')))
            hexwords.append(fmt(words[i - 2], 'X', 8, '0'))
        while len(hexwords) < 8:
            hexwords.append('00000000')
        end = o + 72
        if branch(bit(flags, 0x01)):
            items.append(("Callout Section", OpaqueVal(v_callout_section(o + 72), 'val') if P.symbolic else None))
            end = o + 72 + 4 * be(d, o + 74, 2)
        if P.symbolic:
            ctx = P.ctx
            if branch(truth(field(inp['config'], 'allow_plugins'))):
                pa = ctx.ghost.get('parse_args')
                P.prove(pa is not None and Eq(pa, hexwords) is not False, "the SRC parser is consulted")
                if pa is not None:
                    P.prove(Eq(pa, hexwords), "the SRC parser receives hex words 2..9 in order (00000000 beyond the valid count)")
                if "SRC Details" in js:
                    items.append(("SRC Details", js["SRC Details"]))
            else:
                P.prove(ctx.ghost.get('parse_args') is None and len(ctx.imports) == 0 and len(ctx.plugin_calls) == 0,
                        "with plugins disabled no parser module is imported or run")
            check_dict(P, js, items, "SRC")
            P.prove(Eq(field(inp['stream'], 'index'), end), "SRC: consumes the 72 fixed bytes plus the callout subsection")
            P.prove(len(ctx.stdout) == 0, "nothing on stdout")
        else:
            have = dict(js)
            for key, exp in items:
                if key == "Callout Section" or key not in have:
                    continue
                check_value(P, have[key], exp, "SRC[%r]" % key)
            want_keys = [k_ for k_, _ in items]
            got_keys = [k_ for k_ in js.keys() if k_ != "SRC Details"]
            P.prove(got_keys == want_keys, "SRC: exactly the documented keys, in order")


def sub_(s, a, b):
    if isinstance(s, str):
        return s[a:b]
    return mkstr(list(s.segs[a:b]))


UNITS = [FRU, PCE, PCEMalformed, MRU, CalloutU, GetCallouts, SrcToJSON]


# ------------------------------------------------------------------ C05: the callout loop terminates and stays in bounds for ANY bytes
class CalloutLoopInv(LoopInv):
    func = SRCM + "Callout.__init__"
    loop = 0
    modifies_locals = ('type', 'currentSize')

    def heap_targets(self, it, fr):
        s = fr.locals['stream']
        o = fr.locals['self']
        return [(s, 'index'), (o, 'fruIdentity'), (o, 'pceIdentity'), (o, 'mru')]

    def havoc(self, it, fr, i):
        ctx = it.ctx
        s = fr.locals['stream']
        c = ctx.fresh('cal_cursor', 'int')
        s.index = c
        fr.locals['currentSize'] = ctx.fresh('cal_cur', 'int')
        o = fr.locals['self']
        for nm in ('fruIdentity', 'pceIdentity', 'mru'):
            setattr(o, nm, None)      # contents irrelevant for bounds / termination

    def inv(self, it, fr, i):
        s = fr.locals['stream']
        return And(field(s, 'index') >= 0, field(s, 'index') <= field(s, 'size'))

    def variant(self, it, fr):
        s = fr.locals['stream']
        return simp(zint(field(s, 'size')) - zint(field(s, 'index')))


class CalloutAny(_SubUnit):
    """for ANY bytes: the sub-structure loop of a callout terminates (every iteration consumes at least 4 bytes or
    raises) and never leaves the input; failures are ordinary exceptions"""
    prop = "C05"
    name = "Callout.__init__ (any bytes: bounds and termination)"
    target = SRCM + "Callout.__init__"
    cls = SRCM + "Callout"
    contracts = DS_CONTRACTS + [CFRU, CPCE, CMRU]
    invariants = [CalloutLoopInv]
    modes = ('assert', 'O')

    def pre(self, S, inp):
        return ds_invariant(inp['stream'])

    def check(self, P, inp, old, out):
        s = inp['stream']
        if not out.returned:
            P.prove(issubclass(out.exc_class, Exception), "fails only with an ordinary exception")
            return
        if P.symbolic:
            P.prove(And(field(s, 'index') >= old['stream'].index if False else True, field(s, 'index') <= field(s, 'size')),
                    "returns with the cursor inside the input")


C05_UNITS = [CalloutAny]


# ------------------------------------------------------------------ bounded companion: generated SRC sections, independent native oracle
def native_callouts_spec(sec):
    """what the statement says the Callout Section of an SRC section shows, computed from the section's bytes alone
    (sec = the whole section incl. its 8-byte header; plugins off).  Returns None when there is no callout subsection."""
    from collections import OrderedDict
    body = sec[8:]
    flags = body[1]
    if not flags & 0x01:
        return None
    p = 72
    total = 4 * int.from_bytes(body[p + 2:p + 4], 'big')
    end = p + total
    p += 4
    outs = []

    def txt(b):
        return b.decode().rstrip('\x00') if False else b.decode()
    while p < end:
        size, cflags, prio, loclen = body[p], body[p + 1], body[p + 2], body[p + 3]
        q = p + 4
        loc = body[q:q + loclen].decode().rstrip('\x00')
        q += loclen
        js = OrderedDict()
        fru = pce = mru = None
        stop = p + size
        while q < stop:
            t = body[q:q + 2]
            if t == b'ID':
                ln, fl = body[q + 2], body[q + 3]
                r = q + 4
                fru = dict(flags=fl)
                if fl & 0x0A:
                    fru['pn'] = body[r:r + 8].decode().rstrip('\x00')
                    r += 8
                if fl & 0x04:
                    fru['ccin'] = body[r:r + 4].decode().rstrip('\x00')
                    r += 4
                if fl & 0x01:
                    fru['sn'] = body[r:r + 12].decode().rstrip('\x00')
                    r += 12
                q += ln
            elif t == b'PE':
                ln = body[q + 2]
                pce = dict(mt=body[q + 4:q + 12].decode().rstrip('\x00'), sn=body[q + 12:q + 24].decode().rstrip('\x00'),
                           name=body[q + 24:q + ln].decode().rstrip('\x00'))
                q += ln
            elif t == b'MR':
                ln, n = body[q + 2], body[q + 3] & 0x0F
                mru = [int.from_bytes(body[q + 8 + 8 * k + 4:q + 8 + 8 * k + 8], 'big') for k in range(n)]
                q += ln
            else:
                break
        if fru is not None:
            js["FRU Type"] = T('failingComponentType').get(fru['flags'] & 0xF0, 'Invalid')
            js["Priority"] = T('calloutPriorityValues').get(prio, 'Invalid')
            if loc:
                js["Location Code"] = loc
            if fru['flags'] & 0x08:
                js["Part Number"] = fru['pn']
            if fru['flags'] & 0x02:
                js["Procedure"] = fru['pn']
            if fru['flags'] & 0x04:
                js["CCIN"] = fru['ccin']
            if fru['flags'] & 0x01:
                js["Serial Number"] = fru['sn']
        if pce is not None:
            if pce['mt']:
                js["PCE MTMS"] = pce['mt'] + "_" + pce['sn']
            if pce['name']:
                js["PCE Name"] = pce['name']
        if mru is not None:
            js["MRU Id"] = ",".join("%08X" % m for m in mru)
        outs.append(js)
        p += size
    return OrderedDict([("Callout Count", len(outs)), ("Callouts", outs)])


class SrcCalloutsNative(Unit):
    """bounded companion (C03): generated SRC sections with 0..3 callouts (FRU / PCE / MRU sub-structures of every shape),
    decoded by the real SRC class with plugins off, compared with the oracle above"""
    prop = "C03"
    name = "SRC callout section on generated SRCs (bounded)"
    target = SRCC + ".toJSON"
    kind = 'B'

    def inputs(self, S):
        from contracts import pelgen
        if hasattr(S, 'rng'):
            sec = pelgen.gen_src(S.rng, b'PS', callouts=S.rng.randrange(0, 4))
            S.log['sec'] = sec.hex()
        else:
            sec = bytes.fromhex(S.values['sec'])
        return dict(sec=sec)

    def call_native(self, inp):
        from pel.datastream import DataStream
        from pel.peltool.src import SRC
        from pel.peltool.config import Config
        import io, contextlib
        sec = inp['sec']
        c = Config()
        c.allow_plugins = False
        st = DataStream(sec[8:], byte_order='big', is_signed=False)
        err = io.StringIO()
        with contextlib.redirect_stderr(err), contextlib.redirect_stdout(err):
            src = SRC(st, int.from_bytes(sec[0:2], 'big'), int.from_bytes(sec[2:4], 'big'), sec[4], sec[5],
                      int.from_bytes(sec[6:8], 'big'), "O")
            return src.toJSON(c), st.index

    def check(self, P, inp, old, out):
        import json
        P.prove(out.returned, "a generated well-formed SRC decodes")
        if not out.returned:
            return
        js, used = out.value
        want = native_callouts_spec(inp['sec'])
        got = js.get("Callout Section")
        norm = lambda x: json.loads(json.dumps(x))
        P.prove((want is None and got is None) or (want is not None and got is not None and norm(got) == norm(want)),
                "Callout Section == one object per encoded callout, in order, each showing exactly its own FRU / PCE / MRU values")
        P.prove(used == len(inp['sec']) - 8, "the SRC consumes exactly its section")
        body = inp['sec'][8:]
        wc = body[3]
        want_words = [("Hex Word %d" % k, "%08X" % int.from_bytes(body[8 + 4 * (k - 2):12 + 4 * (k - 2)], 'big')) for k in range(2, wc + 1)]
        got_words = [(k, v) for k, v in js.items() if k.startswith("Hex Word")]
        P.prove(got_words == want_words, "Hex Word 2..count: exactly the valid words, each the 32-bit word stored for it, none beyond the count")
        P.prove(js.get("Reference Code") == body[40:72].decode().strip(), "Reference Code == the 32 ASCII characters without surrounding blanks")


UNITS = UNITS + [SrcCalloutsNative]


# ------------------------------------------------------------------ Registry.getErrorMessage for ANY registry
REG = "pel.peltool.registry.Registry"


def reg_entry(j):
    return OpaqueVal(ufun('reg_entry', z3.IntSort(), Val)(zint(j)), 'val')


def reg_match(j, code, src_type):
    """entry j has a reason code, its type (BD when it names none) is the SRC's type, and its reason code contains the code"""
    e = ufun('reg_entry', z3.IntSort(), Val)(zint(j))
    src = v_get(e, lit("SRC"))
    same_type = z3.If(v_has(src, lit("Type")), v_get(src, lit("Type")) == val_term(src_type), zbool(Eq(src_type, "BD")))
    return z3.And(v_has(src, lit("ReasonCode")), same_type, v_has(v_get(src, lit("ReasonCode")), str_term(code)))


class RegistryInv(LoopInv):
    """nothing is written and no entry before the current one was a match (a match returns at once)"""
    func = REG + ".getErrorMessage"
    loop = 0
    modifies_locals = ('pel', 'entryType')

    def heap_targets(self, it, fr):
        return []

    def havoc(self, it, fr, i):
        pass

    def inv(self, it, fr, i):
        j = z3.Int('j!reg')
        code, typ = fr.locals['code'], fr.locals['srcType']
        return And(Eq(len(fr.locals['output']), 0),
                   z3.ForAll([j], z3.Implies(z3.And(j >= 0, j < zint(i)), z3.Not(reg_match(j, code, typ)))))


class GetErrorMessageAny(Unit):
    """Registry.getErrorMessage over a registry of any number of arbitrary entries: the message comes from the first entry, in
    registry order, that has a reason code, whose type (default BD) is the SRC's type and whose reason code contains the code"""
    prop = "C03"
    name = "Registry.getErrorMessage (any registry)"
    target = REG + ".getErrorMessage"
    invariants = [RegistryInv]
    min_obligations = 3

    def inputs(self, S):
        n = S.int("reg_n", 0, None)
        self._n = n
        if S.symbolic:
            return dict(self=Obj(lookup_qualname(REG), dict(pels=LazySeq(n, reg_entry, 'registry'))), code=S.opaque_str("code"),
                        srcType=S.choice("srcType", ["BD", "11"]))
        import json as _json
        rng = getattr(S, 'rng', None)
        if rng is None:
            reg, code, typ = _json.loads(S.values.get('_reg', '[[], "2001", "BD"]'))
        else:
            codes = ["2001", "2002", "0x2003", "1F00"]
            reg = []
            for _ in range(rng.randrange(0, 7)):
                src = {}
                if rng.random() < 0.85:
                    src["ReasonCode"] = "0x" + rng.choice(codes)[-4:] if rng.random() < 0.7 else rng.choice(codes)
                if rng.random() < 0.5:
                    src["Type"] = rng.choice(["BD", "11"])
                if rng.random() < 0.4:
                    src["Words6To9"] = rng.choice([{}, {"6": {"Description": "d"}}])
                doc = {"Message": "m%d" % rng.randrange(100)}
                if rng.random() < 0.4:
                    doc["MessageArgSources"] = ["SRCWord6"]
                reg.append({"SRC": src, "Documentation": doc})
            code, typ = rng.choice(codes)[-4:], rng.choice(["BD", "11"])
            S.log['_reg'] = _json.dumps([reg, code, typ])
        return dict(self=None, code=code, srcType=typ, _reg=reg)

    def call_native(self, inp):
        from pel.peltool.registry import Registry
        r = object.__new__(Registry)
        r.pels = inp['_reg']
        return r.getErrorMessage(inp['code'], inp['srcType'])

    def check(self, P, inp, old, out):
        if not P.symbolic:
            P.prove(out.returned, "returns on a well-formed registry")
            if not out.returned:
                return
            want = {}
            for e in inp['_reg']:
                if "ReasonCode" in e["SRC"] and e["SRC"].get("Type", "BD") == inp['srcType'] and inp['code'] in e["SRC"]["ReasonCode"]:
                    want = {"Message": e["Documentation"]["Message"]}
                    if "MessageArgSources" in e["Documentation"]:
                        want["MessageArgSources"] = e["Documentation"]["MessageArgSources"]
                    if e["SRC"].get("Words6To9"):
                        want["Words6To9"] = e["SRC"]["Words6To9"]
                    break
            P.prove(out.value == want, "message of the first entry, in registry order, with that reason code and SRC type")
            return
        ctx = P.ctx
        how = ctx.ghost.get(RegistryInv.func + '#loop0.exit')
        i = ctx.ghost.get(RegistryInv.func + '#loop0.exit_index')
        P.prove(how is not None, "the registry loop was reached")
        ctx.ghost.setdefault('gem_seen', []).append((how, out.returned))
        if not out.returned:
            # a malformed entry (no SRC / Documentation / Message) is an ordinary error of that registry, contained by SRC.toJSON
            P.prove(how == 'break-or-return', "fails only on a malformed registry entry")
            return
        if how == 'exhausted':
            P.prove(Eq(len(out.value), 0), "no entry matched: empty result")
            P.prove(Eq(i, self._n), "after every entry was looked at")
            return
        e = reg_entry(i).term
        src = v_get(e, lit("SRC"))
        doc = v_get(e, lit("Documentation"))
        j = z3.Int('j!regc')
        P.prove(reg_match(i, inp['code'], inp['srcType']),
                "the entry used has a reason code that contains the SRC's code, and the SRC's type (BD when the entry names none)")
        P.prove(z3.ForAll([j], z3.Implies(z3.And(j >= 0, j < zint(i)), z3.Not(reg_match(j, inp['code'], inp['srcType'])))),
                "and it is the first such entry in registry order")
        P.prove(Iff(v_has(doc, lit("MessageArgSources")), 'MessageArgSources' in out.value),
                "MessageArgSources is passed on exactly when the entry has it")
        if 'MessageArgSources' in out.value:
            P.prove(Eq(val_term(out.value['MessageArgSources']), v_get(doc, lit("MessageArgSources"))), "MessageArgSources == the entry's")
        if 'Words6To9' in out.value:
            P.prove(Eq(val_term(out.value['Words6To9']), v_get(src, lit("Words6To9"))), "Words6To9 == the entry's")
        P.prove(set(out.value.keys()) <= {'Message', 'MessageArgSources', 'Words6To9'}, "nothing else is reported")
        P.prove(out.value.get('Message') is not None and Eq(val_term(out.value['Message']), v_get(doc, lit("Message"))),
                "Message == the entry's documentation message")


UNITS = UNITS + [GetErrorMessageAny]
