"""Sidecar contracts for openpower-pel-parsers (nothing under /repo is edited for them)."""
