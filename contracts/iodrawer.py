"""I/O drawer decoders: history log (C16), ILOG (C14), trace (C15)."""
import os
import z3

from contracts.common import *
from pyvc.unit import Unit, Contract, LoopInv
from pyvc.seq import Chunk, list_term, val_term, RecFn, Val, v_snoc, v_nil
from pyvc.models import LazySeq
from pyvc.values import Opq, I, lit, str_term, Unsupported

IO = "io_drawer."


# ------------------------------------------------------------------ shared callee contracts
def spec_hexdump_term(data, bpl=16, bpc=4):
    """opaque spec function: the hex dump lines of `data` (defined and proved lossless in C13)"""
    return ufun('spec_hexdump', Val, z3.IntSort(), z3.IntSort(), Val)(val_term(data), zint(bpl), zint(bpc))


class CHexdump(Contract):
    target = "pel.hexdump.hexdump"

    def model(self, it, data, bytes_per_line=16, bytes_per_chunk=4):
        it.ctx.new_ids.add(0)
        l = [Chunk(spec_hexdump_term(data, bytes_per_line, bytes_per_chunk))]
        it.ctx.new_ids.add(id(l))
        return l


# ------------------------------------------------------------------ C16 history log
def hlog_env(ctx):
    """the field table: arbitrary, fixed (A3): n fields, names opaque, sizes in {1,2}"""
    n = z3.Int('hl_nfields')
    fname = z3.Function('hl_fname', z3.IntSort(), PyStr)
    fsize = z3.Function('hl_fsize', z3.IntSort(), z3.IntSort())
    return n, fname, fsize


class CGetHlogFields(Contract):
    """assumed (file grammar is bounded-only): returns the declared fields in order, each (name, size in {1,2})"""
    target = IO + "hlog.get_hlog_fields"

    def model(self, it, header_file_path):
        ctx = it.ctx
        from io_drawer.hlog import HistoryLogField
        n, fname, fsize = hlog_env(ctx)
        ctx.assume(n >= 0)
        ctx.emit('fs', ('open_r', header_file_path))      # the table is read from the file on every call

        def elem(j):
            sz = fsize(zint(j))
            ctx.assume(z3.Or(sz == 1, sz == 2))
            size = 1 if ctx.decide(sz == 1) else 2
            return HistoryLogField(mkstr([Opq(fname(zint(j)))]), size)
        return LazySeq(n, elem, 'hlog_fields')


def hlog_line_term(name_t, value, size):
    return val_term(cat(mkstr([Opq(name_t)]), ": 0x", fmt(value, 'X', 2 * size, '0')))


class HlogInv(LoopInv):
    func = IO + "hlog.parse_hlog_data"
    loop = 0
    modifies_locals = ('field', 'value')

    def __init__(self):
        self.Off = None

    def fns(self, ctx):
        if not hasattr(ctx, 'hl_fns'):
            Off = RecFn('hl_off', z3.IntSort())
            L = RecFn('hl_lines', Val)
            ctx.hl_fns = (Off, L)
        return ctx.hl_fns

    def heap_targets(self, it, fr):
        return [fr.locals['lines'], (fr.locals['stream'], 'index')]

    def step_defs(self, it, fr, k):
        """definitional equations for Off(k+1), L(k+1)"""
        ctx = it.ctx
        Off, L = self.fns(ctx)
        n, fname, fsize = hlog_env(ctx)
        d = field(fr.locals['stream'], 'data')
        sz = fsize(zint(k))
        Off.unfold(ctx, k, lambda prev, kk: prev + sz)
        v1 = be(d, Off.at(k), 1)
        v2 = be(d, Off.at(k), 2)
        line1 = hlog_line_term(fname(zint(k)), v1, 1)
        line2 = hlog_line_term(fname(zint(k)), v2, 2)
        L.unfold(ctx, k, lambda prev, kk: z3.If(sz == 1, z3.If(v1 != 0, v_snoc(prev, line1), prev),
                                                 z3.If(v2 != 0, v_snoc(prev, line2), prev)))

    def entry_defs(self, it, fr):
        ctx = it.ctx
        Off, L = self.fns(ctx)
        if not getattr(ctx, 'hl_base', False):
            ctx.hl_base = True
            Off.define_base(ctx, I(0))
            L.define_base(ctx, list_term(list(fr.locals['lines'])))

    def havoc(self, it, fr, i):
        ctx = it.ctx
        self.entry_defs(it, fr)
        s = fr.locals['stream']
        s.index = ctx.fresh('hl_cursor', 'int')
        lines = fr.locals['lines']
        lines[:] = [Chunk(ctx.fresh('hl_lines_so_far', Val))]

    def inv(self, it, fr, i):
        ctx = it.ctx
        self.entry_defs(it, fr)
        Off, L = self.fns(ctx)
        s = fr.locals['stream']
        if not isinstance(i, int) or i > 0:
            # unfolding for the step i-1 -> i is needed when proving preservation; harmless otherwise
            self.step_defs(it, fr, simp(zint(i) - 1))
        return And(Eq(field(s, 'index'), Off.at(i)), list_term(fr.locals['lines']) == L.at(i),
                   field(s, 'index') >= 0, field(s, 'index') <= field(s, 'size'))


class ParseHlog(Unit):
    prop = "C16"
    name = "parse_hlog_data"
    target = IO + "hlog.parse_hlog_data"
    contracts = DS_CONTRACTS + [CHexdump, CGetHlogFields]
    invariants = [HlogInv]

    def inputs(self, S):
        if S.symbolic:
            path = "fields.h"
        else:
            import io_drawer, os
            path = os.path.join(os.path.dirname(io_drawer.__file__), S.choice("table", ["mex_pte.h", "nimitz_pte.h"]))
        return dict(data=S.bytes("data", kind='memoryview'), header_file_path=path)

    def check(self, P, inp, old, out):
        P.prove(out.returned, "returns for every input")
        if not out.returned:
            return
        if not P.symbolic:
            P.prove(list(out.value) == spec_hlog_native(inp['data'], inp['header_file_path']),
                    "output == hex dump of all bytes + one line per non-zero field, in order, stopping at the first field that does not fit")
            return
        ctx = P.ctx
        inv = [v for v in ctx.invariants.values()][0]
        Off, L = inv.fns(ctx)
        n, fname, fsize = hlog_env(ctx)
        m = ctx.ghost.get(HlogInv.func + '#loop0.exit_index')
        how = ctx.ghost.get(HlogInv.func + '#loop0.exit')
        P.prove(m is not None, "the field loop was reached")
        if m is None:
            return
        P.prove(list_term(out.value) == L.at(m),
                "output == hex dump of all bytes + one line per non-zero field among the first m, in order")
        ln = blen(inp['data'])
        if how == 'exhausted':
            P.prove(Eq(m, n), "all declared fields were consumed")
        else:
            P.prove(Off.at(m) + fsize(zint(m)) > ln, "listing stopped at a field that does not fit in the data")
        P.prove(And(Off.at(m) >= 0, Off.at(m) <= ln), "fields were consumed contiguously from offset 0 within the data")


def spec_hlog_native(data, path):
    from pel.hexdump import hexdump
    from io_drawer.hlog import get_hlog_fields
    data = bytes(data)
    lines = ['Hex Dump', '--------'] + hexdump(memoryview(data)) + ['', 'Non-Zero Field Values', '---------------------']
    off = 0
    for f in get_hlog_fields(path):
        if off + f.size > len(data):
            break
        v = int.from_bytes(data[off:off + f.size], 'big')
        off += f.size
        if v != 0:
            lines.append("%s: 0x%0*X" % (f.name, 2 * f.size, v))
    return lines


# ------------------------------------------------------------------ C16: the reader of the field table, for any file
def native_text_file_input(S, key, gen):
    """concrete companion input: the text of a table file (generated, or taken from a replayed log)"""
    rng = getattr(S, 'rng', None)
    if rng is None:
        txt = S.values.get('_text', '')
    else:
        txt = gen(rng)
        S.log['_text'] = txt
    return {key: "table.txt", '_text': txt}


def with_text_file(text, fn):
    import tempfile, os, shutil
    d = tempfile.mkdtemp(prefix="pyvc_tbl_")
    try:
        p = os.path.join(d, "table.txt")
        with open(p, "w") as f:
            f.write(text)
        return fn(p)
    finally:
        shutil.rmtree(d, ignore_errors=True)


def gen_lines(rng, starts, ends, entry, junk):
    """a file of 0..3 tables, with entries also outside tables, junk lines anywhere, sometimes no end line"""
    out = []
    for _ in range(rng.randrange(0, 4)):
        for _ in range(rng.randrange(0, 3)):
            out.append(rng.choice(junk + [entry(rng)]))
        out.append(rng.choice(starts))
        for _ in range(rng.randrange(0, 5)):
            out.append(entry(rng) if rng.random() < 0.8 else rng.choice(junk + starts))
        if rng.random() < 0.85:
            out.append(rng.choice(ends))
    for _ in range(rng.randrange(0, 3)):
        out.append(rng.choice(junk + [entry(rng)]))
    txt = ''.join(l + "\n" for l in out)
    if out and rng.random() < 0.2:
        txt = txt[:-1]              # last line without a newline
    return txt


def gen_hlog_text(rng):
    def entry(rng):
        nm = ''.join(rng.choice("abcXYZ_019 -.") for _ in range(rng.randrange(1, 10)))
        return rng.choice(['    { %d, "%s" },', '{%d,"%s"}', ' {  %d , "%s" } , ']) % (rng.choice([1, 2, 1, 2, 3]), nm)
    return gen_lines(rng, ["static struct mex_hlog_field mex_hlog_fields[N] =", "struct mex_hlog_field mex_hlog_fields[] = {",
                           "  static  struct  mex_hlog_field   mex_hlog_fields[3]={ "],
                     ["};", "  } ; "], entry, ["", "// comment", "{", "int x = 3;", '{ 1, "broken', "#define N 4"])


class LinesEnv:
    """a text file is an arbitrary, symbolic number of arbitrary (opaque) lines"""

    def open_read(self, it, path, mode):
        from pyvc.models import Handle
        h = Handle(path, mode)
        n = ufun('file_nlines', PyStr, z3.IntSort())(str_term(path))
        it.ctx.assume(n >= 0)
        lf = ufun('file_line', PyStr, z3.IntSort(), PyStr)
        h.content = LazySeq(n, lambda j: mkstr([Opq(lf(str_term(path), zint(j)))]), 'file_lines')
        return h


def file_line(path, j):
    return mkstr([Opq(ufun('file_line', PyStr, z3.IntSort(), PyStr)(str_term(path), zint(j)))])


def re_pred(pat, line):
    """the abstract 'pattern fully matches the line' predicate the engine uses for general patterns"""
    return ufun('re_matches', PyStr, PyStr, z3.BoolSort())(lit("fullmatch/%d/%s" % (pat.flags, pat.pattern)), str_term(line))


def re_grp(pat, g, line):
    return ufun('re_group', PyStr, z3.IntSort(), PyStr, PyStr)(lit("fullmatch/%d/%s" % (pat.flags, pat.pattern)), I(g), str_term(line))


def re_grp_char(pat, g, line):
    return ufun('re_group_char', PyStr, z3.IntSort(), PyStr, z3.IntSort())(lit("fullmatch/%d/%s" % (pat.flags, pat.pattern)), I(g), str_term(line))


class HlogFieldsInv(LoopInv):
    """fields == F(k), in_data_structure == S(k) where, for line k (s/e/f = it matches the start / end / field pattern):
       S(k+1) = s or (not e and S(k));  F(k+1) = F(k) ++ [(name, size)] if not s and not e and S(k) and f, else F(k)"""
    func = IO + "hlog.get_hlog_fields"
    loop = 0
    modifies_locals = ('line', 'in_data_structure', 'match', 'properties', 'size', 'name', 'field')

    def fns(self, ctx):
        if not hasattr(ctx, 'hf_fns'):
            ctx.hf_fns = (RecFn('hf_in', z3.BoolSort()), RecFn('hf_fields', Val))
        return ctx.hf_fns

    def heap_targets(self, it, fr):
        return [fr.locals['fields']]

    def step_defs(self, it, fr, k):
        import io_drawer.hlog as H
        ctx = it.ctx
        S, F = self.fns(ctx)
        line = file_line(fr.locals['header_file_path'], k)
        s, e, f = re_pred(H.HLOG_START_RE, line), re_pred(H.HLOG_END_RE, line), re_pred(H.HLOG_FIELD_RE, line)
        c = re_grp_char(H.HLOG_FIELD_RE, 1, line)
        item = val_term((mkstr([Opq(re_grp(H.HLOG_FIELD_RE, 2, line))]), z3.If(c == 49, I(1), I(2))))
        S.unfold(ctx, k, lambda prev, kk: z3.Or(s, z3.And(z3.Not(e), prev)))
        F.unfold(ctx, k, lambda prev, kk: z3.If(z3.And(z3.Not(s), z3.Not(e), S.at(k), f), v_snoc(prev, item), prev))

    def entry_defs(self, it, fr):
        ctx = it.ctx
        S, F = self.fns(ctx)
        if not getattr(ctx, 'hf_base', False):
            ctx.hf_base = True
            S.define_base(ctx, z3.BoolVal(False))
            F.define_base(ctx, v_nil())

    def havoc(self, it, fr, i):
        ctx = it.ctx
        self.entry_defs(it, fr)
        fr.locals['in_data_structure'] = ctx.fresh('hf_in_now', 'bool')
        fr.locals['fields'][:] = [Chunk(ctx.fresh('hf_fields_so_far', Val))]

    def inv(self, it, fr, i):
        ctx = it.ctx
        self.entry_defs(it, fr)
        S, F = self.fns(ctx)
        if not isinstance(i, int) or i > 0:
            self.step_defs(it, fr, simp(zint(i) - 1))
        return And(Iff(fr.locals['in_data_structure'], S.at(i)), list_term(fr.locals['fields']) == F.at(i))


class GetHlogFields(Unit):
    """the reader of the history-log field table, for a header file of any number of arbitrary lines: the result is the fold
    of the grammar's state machine over the lines, in file order; each field is (text of group 2, 1|2 from group 1)"""
    prop = "C16"
    name = "get_hlog_fields"
    target = IO + "hlog.get_hlog_fields"
    contracts = []
    invariants = [HlogFieldsInv]
    min_obligations = 4

    def inputs(self, S):
        if S.symbolic:
            return dict(header_file_path="fields.h")
        return native_text_file_input(S, 'header_file_path', gen_hlog_text)

    env = LinesEnv

    def call_native(self, inp):
        from io_drawer.hlog import get_hlog_fields
        return with_text_file(inp['_text'], get_hlog_fields)

    def check(self, P, inp, old, out):
        P.prove(out.returned, "returns for every file")
        if not out.returned:
            return
        if not P.symbolic:
            import io_drawer.hlog as H
            want, ins = [], False
            for line in inp['_text'].splitlines(True):
                if H.HLOG_START_RE.fullmatch(line):
                    ins = True
                elif H.HLOG_END_RE.fullmatch(line):
                    ins = False
                elif ins and H.HLOG_FIELD_RE.fullmatch(line):
                    g = H.HLOG_FIELD_RE.fullmatch(line).groups()
                    want.append((g[1], 1 if g[0] == '1' else 2))
            P.prove([tuple(f) for f in out.value] == want,
                    "result == the declared fields, in file order (fold of the table grammar over the lines)")
            return
        ctx = P.ctx
        inv = [v for v in ctx.invariants.values()][0]
        S_, F = inv.fns(ctx)
        m = ctx.ghost.get(HlogFieldsInv.func + '#loop0.exit_index')
        how = ctx.ghost.get(HlogFieldsInv.func + '#loop0.exit')
        P.prove(m is not None and how == 'exhausted', "every line of the file is read")
        if m is None:
            return
        n = ufun('file_nlines', PyStr, z3.IntSort())(str_term(inp['header_file_path']))
        P.prove(Eq(m, n), "up to the last line")
        P.prove(list_term(list(out.value)) == F.at(m), "result == the declared fields, in file order (fold of the table grammar over the lines)")
        P.prove([e for e in ctx.fs if e[0] != 'open_r'] == [], "the file is only read")
        P.prove(len([e for e in ctx.fs if e[0] == 'open_r']) == 1, "and it is read at this call (no remembered table)")


HLOG_UNITS = [ParseHlog, GetHlogFields]
UNITS = list(HLOG_UNITS)


# ------------------------------------------------------------------ bounded: the header-file grammar of the field table
def hlog_grammar_bounded(tier, seed):
    """get_hlog_fields is an assumed contract in the proof (regex parsing of a text file is outside the
    verifier's subset).  Bounded stand-in: shipped tables + generated tables against an independent reader."""
    import random, tempfile, os, time
    import io_drawer
    from io_drawer.hlog import get_hlog_fields
    t0 = time.time()
    rng = random.Random(seed)
    n = 300 if tier == 'quick' else 3000
    evals = 0
    bad = None
    base = os.path.dirname(io_drawer.__file__)
    for fn, cnt, total in (("mex_pte.h", 38, 46), ("nimitz_pte.h", 38, 46)):
        fs = get_hlog_fields(os.path.join(base, fn))
        evals += 1
        if len(fs) != cnt or sum(f.size for f in fs) != total or any(f.size not in (1, 2) for f in fs):
            bad = dict(case="shipped " + fn, got=[tuple(f) for f in fs][:5], want="%d fields / %d bytes" % (cnt, total))
    alphabet = "abcXYZ_019 -.:/()[]#*%'\\,;{}"
    d = tempfile.mkdtemp(prefix="pyvc_hlog_")
    try:
        for k in range(n):
            if bad:
                break
            m = rng.randrange(0, 12)
            want = []
            body = []
            for j in range(m):
                size = rng.choice([1, 2])
                name = ''.join(rng.choice(alphabet) for _ in range(rng.randrange(1, 14)))
                want.append((name, size))
                sp = lambda: ' ' * rng.randrange(0, 3)
                comma = ',' if (j < m - 1 or rng.random() < 0.5) else ''
                body.append("%s{%s%d%s,%s\"%s\"%s}%s%s\n" % (sp(), sp(), size, sp(), sp(), name, sp(), sp(), comma))
            brace_same = rng.random() < 0.5
            txt = "// generated\nint x = 3;\n"
            txt += "%sstruct mex_hlog_field mex_hlog_fields[N] =%s\n" % (rng.choice(["static ", "", "  static  "]),
                                                                       " {" if brace_same else "")
            if not brace_same:
                txt += "{\n"
            txt += ''.join(body) + "};\n{ 1, \"after_the_table\" },\n"
            p = os.path.join(d, "t.h")
            with open(p, "w") as f:
                f.write(txt)
            got = [tuple(x) for x in get_hlog_fields(p)]
            evals += 1
            if got != want:
                bad = dict(case="generated table", text=txt, got=got, want=want)
    finally:
        import shutil
        shutil.rmtree(d, ignore_errors=True)
    ob = dict(name="get_hlog_fields: fields of the header file, in order, sizes 1|2 (bounded)", kind='B', solver='bounded',
              status='failed' if bad else 'discharged', evaluations=evals, secs=time.time() - t0,
              bound="2 shipped tables + %d generated tables of 0..11 fields" % n)
    if bad:
        ob['replay'] = dict(kind='custom', reproduced=True, native=bad, input=bad)
        ob['detail'] = str(bad)[:500]
    return [ob], {}


def hlog_history_bounded(tier, seed):
    """the field table is read afresh on every call: decoding after the header file has been rewritten uses the new table
    (bounded: generated tables rewritten at one path within one process)"""
    import random, tempfile, os, time, shutil
    from io_drawer.hlog import parse_hlog_data
    t0 = time.time()
    rng = random.Random(seed + 7)
    d = tempfile.mkdtemp(prefix="pyvc_hlogh_")
    bad = None
    evals = 0
    try:
        p = os.path.join(d, "fields.h")
        for _ in range(20 if tier == 'quick' else 200):
            for step in range(3):
                m = rng.randrange(1, 8)
                fields = [("f%d_%d" % (step, j), rng.choice([1, 2])) for j in range(m)]
                with open(p, "w") as f:
                    f.write("static struct mex_hlog_field mex_hlog_fields[N] = {\n" +
                            ''.join('    { %d, "%s" },\n' % (sz, nm) for nm, sz in fields) + "};\n")
                data = bytes(rng.randrange(1, 256) for _ in range(rng.randrange(0, 20)))
                got = list(parse_hlog_data(memoryview(data), p))
                want = spec_hlog_native(data, p)
                evals += 1
                if got != want and bad is None:
                    bad = dict(step=step, table=fields, data=data.hex(), got=got[-4:], want=want[-4:])
            if bad:
                break
    finally:
        shutil.rmtree(d, ignore_errors=True)
    ob = dict(name="parse_hlog_data: the field table is taken from the file as it is at each call (bounded histories)", kind='B',
              solver='bounded', status='failed' if bad else 'discharged', evaluations=evals, secs=time.time() - t0,
              bound="sequences of 3 decodes with the header file rewritten in between")
    if bad:
        ob['replay'] = dict(kind='custom', reproduced=True, native=bad, input=bad)
        ob['detail'] = str(bad)[:500]
    return [ob], {}


def table_history_bounded(tier, seed):
    """C14/C15: the PTE table / trace string file is read afresh for every decode: after the file at a path has been replaced by
    another table, decoding uses the new one (bounded: the two shipped tables swapped at one path, generated data)"""
    import random, tempfile, os, time, shutil, re
    import io_drawer
    from io_drawer.ilog import parse_ilog_data
    from io_drawer.trace import parse_trace_data
    t0 = time.time()
    rng = random.Random(seed + 11)
    base = os.path.dirname(io_drawer.__file__)
    d = tempfile.mkdtemp(prefix="pyvc_tabh_")
    bad = None
    evals = 0
    try:
        for kind, files, fn, spec in (('ilog', ("mex_pte.h", "nimitz_pte.h"), parse_ilog_data, spec_ilog_native),
                                      ('trace', ("mexStringFile", "nimitzStringFile"), parse_trace_data, spec_trace_native)):
            p = os.path.join(d, kind + ".tbl")
            for rnd in range(6 if tier == 'quick' else 40):
                src = files[rnd % 2]
                text = open(os.path.join(base, src), errors='replace').read()
                # every round a different table: the messages carry the round number
                if kind == 'ilog':
                    text = re.sub(r'(\{ *"[0-9A-Fa-f*]{8}", *")([^"\n]*)(")', lambda m: '%s%s #%d%s' % (m.group(1), m.group(2), rnd, m.group(3)), text)
                else:
                    text = re.sub(r'^(\d+\|\|[^\n]*?)(\|\|[^|\n]*)$', lambda m: '%s #%d%s' % (m.group(1), rnd, m.group(2)), text, flags=re.M)
                q = os.path.join(d, "%s_%d.tbl" % (kind, rnd))
                for path in (p, q):
                    with open(path, 'w') as fh:
                        fh.write(text)
                if kind == 'ilog':
                    data = gen_ilog_for_table(rng, q)
                else:
                    data = gen_trace_for_strings(rng, q)
                got = list(fn(memoryview(data), p))
                want = spec(data, q)
                evals += 1
                if got != want and bad is None:
                    diff = [i for i, (a, b) in enumerate(zip(got, want)) if a != b][:1]
                    bad = dict(kind=kind, round=rnd, table_now=src, data=data.hex()[:400],
                               got=got[diff[0]] if diff else len(got), want=want[diff[0]] if diff else len(want))
            if bad:
                break
    finally:
        shutil.rmtree(d, ignore_errors=True)
    ob = dict(name="parse_ilog_data / parse_trace_data: the table file is taken as it is at each call (bounded histories)", kind='B',
              solver='bounded', status='failed' if bad else 'discharged', evaluations=evals, secs=time.time() - t0,
              bound="the shipped tables with per-round messages rewritten at one path, decodes in one process")
    if bad:
        ob['replay'] = dict(kind='custom', reproduced=True, native=bad, input=bad)
        ob['detail'] = str(bad)[:500]
    return [ob], {}


def gen_ilog_for_table(rng, table_path):
    """ilog entries whose PTE values are taken from the table's own patterns (wildcards filled in) plus a few unknown ones"""
    import re
    pats = re.findall(r'\{ *"([0-9A-Fa-f*]{8})"', open(table_path, errors='replace').read())
    out = bytearray()
    for k in range(rng.randrange(1, 12)):
        if pats and rng.random() < 0.8:
            pt = rng.choice(pats)
            pte = int(''.join(c if c in '0123456789abcdefABCDEF' else rng.choice('0123456789ABCDEF') for c in pt), 16)
        else:
            pte = rng.randrange(1 << 32)
        out += rng.randrange(1, 0xFFFF).to_bytes(2, 'big') + k.to_bytes(2, 'big') + pte.to_bytes(4, 'big')
    return bytes(out)


def gen_trace_for_strings(rng, string_path):
    """a well-formed trace buffer whose entries use hash values of the string file (and some unknown ones)"""
    import re
    hashes = [int(h) for h in re.findall(r'^(\d+)\|\|', open(string_path, errors='replace').read(), re.M)][:200]
    ents = []
    for k in range(rng.randrange(1, 6)):
        hv = rng.choice(hashes) if hashes and rng.random() < 0.8 else rng.randrange(1 << 32)
        nargs = rng.randrange(0, 3)
        ents.append((rng.randrange(0, 60000), k, hv, rng.randrange(1, 2000), [rng.randrange(1 << 32) for _ in range(nargs)]))
    return gen_trace_buffer_simple(ents)


# =================================================================== C14 ILOG
from pyvc import ops as _ops
from pyvc.values import Raised, ExcObj, Obj, SStr, is_z3
from pyvc.interp import lookup_qualname, BoundMethod

ENTRY = IO + "ilog.PTETableEntry"


def spec_ts(t, reveal=False):
    """C14/C15 timestamp: H:MM:SS of a second counter, dashes for 0xFFFF (and anything outside 0..0xFFFE)"""
    if not reveal and is_z3(t):
        return mkstr([Opq(ufun('spec_ts', z3.IntSort(), PyStr)(t))])
    if branch(Or(t < 0, t >= 0xFFFF)):
        return '--------'
    hh, mm, ss = div(t, 3600), div(mod(t, 3600), 60), mod(t, 60)
    return cat(fmt(hh, 'd', 2, ' '), ":", fmt(mm, 'd', 2, '0'), ":", fmt(ss, 'd', 2, '0'))


class CFormatTimestamp(Contract):
    target = IO + "utils.format_timestamp"

    def model(self, it, timestamp):
        return spec_ts(timestamp)


class FormatTimestamp(Unit):
    prop = "C14"
    name = "format_timestamp"
    target = IO + "utils.format_timestamp"

    def inputs(self, S):
        return dict(timestamp=S.int("timestamp", -2, 0x10001))

    def check(self, P, inp, old, out):
        P.prove(out.returned, "returns")
        if out.returned:
            P.prove(Eq(out.value, spec_ts(inp['timestamp'], reveal=True)), "result == H:MM:SS of the counter, dashes for 0xFFFF")


def spec_reported(pte):
    """error PTE (top nibble 0xE) with the reported flag 0x00040000"""
    return And(Eq(shr(pte, 28), 0xE), bit(pte, 0x00040000))


def low(c):
    if is_z3(c):
        return z3.If(z3.And(c >= 65, c <= 90), c + 32, c)
    return ord(chr(c).lower()) if c < 128 else c


def chars_of(s):
    if isinstance(s, str):
        return [ord(c) for c in s]
    return list(s.segs)


def spec_wild(pattern, text):
    """wildcard match: same length, '*' matches any one character, hex digits case-insensitively"""
    p, t = chars_of(pattern), chars_of(text)
    if len(p) != len(t):
        return False
    return And(*[Or(Eq(a, 42), Eq(low(a), low(b))) for a, b in zip(p, t)])


def hex8(pte):
    s = fmt(pte, 'X', 8, '0')
    if isinstance(s, str):
        return s
    return mkstr(_ops.expand_str(cur(), s))      # the eight digit characters


def pattern_ok(pat):
    return And(*[Or(_ops.is_hexdigit(c) if is_z3(c) else chr(c) in "0123456789abcdefABCDEF", Eq(c, 42)) for c in chars_of(pat)])


class _EntryUnit(Unit):
    prop = "C14"
    method = None
    plen = 8
    nparams = (0, 1, 2)

    def inputs(self, S):
        n = S.choice("plen", [8, 7]) if self.plen is None else self.plen
        k = S.choice("nparams", list(self.nparams))
        params = tuple(S.int("p%d" % j, -1, 6) for j in range(k))
        return dict(pte_pattern=S.text("pattern", n), message_format=S.opaque_str("format"), params=params,
                    file="f.cpp", line=7, pte=S.int("pte", 0, 0xFFFFFFFF))

    def pre(self, S, inp):
        return pattern_ok(inp['pte_pattern'])

    def call(self, it, inp):
        ci = lookup_qualname(ENTRY)
        e = it.call(ci, [inp['pte_pattern'], inp['message_format'], inp['params'], inp['file'], inp['line']])
        if self.method is None:
            return e
        return it.call(BoundMethod(e, ci.find_method(self.method)), [inp['pte']])

    def call_native(self, inp):
        from io_drawer.ilog import PTETableEntry
        e = PTETableEntry(inp['pte_pattern'], inp['message_format'], inp['params'], inp['file'], inp['line'])
        if self.method is None:
            return e
        return getattr(e, self.method)(inp['pte'])


class EntryInit(_EntryUnit):
    name = "PTETableEntry.__init__"
    target = ENTRY + ".__init__"
    nparams = (0, 1, 2, 3)

    def check(self, P, inp, old, out):
        P.prove(out.returned, "constructor returns")
        if out.returned:
            e = out.value
            want = tuple(p for p in inp['params'] if branch(And(p >= 1, p <= 4)))
            P.prove(Eq(tuple(field(e, 'params')), want), "params == the given parameters within 1..4, in order")
            P.prove(Eq(field(e, 'message_format'), inp['message_format']), "message format stored unchanged")


class ReportedErr(_EntryUnit):
    name = "PTETableEntry._is_reported_error_pte"
    target = ENTRY + "._is_reported_error_pte"
    method = "_is_reported_error_pte"
    nparams = (0,)

    def check(self, P, inp, old, out):
        P.prove(out.returned, "returns")
        if out.returned:
            P.prove(Iff(truth(out.value), spec_reported(inp['pte'])), "reported error iff top nibble 0xE and bit 0x00040000")


class ExactMatch(_EntryUnit):
    name = "PTETableEntry._is_exact_match"
    target = ENTRY + "._is_exact_match"
    method = "_is_exact_match"
    plen = None
    nparams = (0,)

    def check(self, P, inp, old, out):
        P.prove(out.returned, "returns")
        if out.returned:
            P.prove(Iff(truth(out.value), spec_wild(inp['pte_pattern'], hex8(inp['pte']))),
                    "exact match iff the wildcard pattern matches the PTE written as 8 upper-case hex digits")


def spec_matches(pattern, pte):
    cleared = pte - band(pte, 0x00040000)
    return Or(spec_wild(pattern, hex8(pte)), And(spec_reported(pte), spec_wild(pattern, hex8(cleared))))


class Matches(_EntryUnit):
    name = "PTETableEntry.matches"
    target = ENTRY + ".matches"
    method = "matches"
    plen = None
    nparams = (0,)

    def check(self, P, inp, old, out):
        P.prove(out.returned, "returns")
        if out.returned:
            P.prove(Iff(truth(out.value), spec_matches(inp['pte_pattern'], inp['pte'])),
                    "matches iff the pattern matches the PTE as is, or - reported error - with the reported flag cleared")


def spec_message(fmt_, params, pte):
    """message: format % (designated PTE bytes), or the bare format when formatting fails; suffix iff reported"""
    bs = [band(shr(pte, 24), 0xFF), band(shr(pte, 16), 0xFF), band(shr(pte, 8), 0xFF), band(pte, 0xFF)]
    args = []
    for p in params:
        for k in (1, 2, 3, 4):
            if branch(Eq(p, k)):
                args.append(bs[k - 1])
                break
    args = tuple(args)
    if isinstance(fmt_, str):
        try:
            msg = fmt_ % args
        except Exception:
            msg = fmt_
    else:
        ok, res, et, em = _ops.format_terms(cur(), 'pct', fmt_, args)
        msg = mkstr([Opq(res)]) if branch(ok) else fmt_
    if branch(spec_reported(pte)):
        msg = cat(msg, ' - PEL entry created')
    return msg


class GetMessage(_EntryUnit):
    name = "PTETableEntry.get_message"
    target = ENTRY + ".get_message"
    method = "get_message"
    nparams = (0, 1, 2)

    def pre(self, S, inp):
        return And(pattern_ok(inp['pte_pattern']), *[And(p >= 1, p <= 4) for p in inp['params']])

    def check(self, P, inp, old, out):
        P.prove(out.returned, "returns for every PTE and every format/argument mismatch")
        if out.returned:
            P.prove(Eq(out.value, spec_message(inp['message_format'], inp['params'], inp['pte'])),
                    "message == format % designated PTE bytes (bare format on mismatch) + suffix iff reported error")


# ---- table search: first match in header-file order
TABLE = IO + "ilog.PTETable"


def table_env():
    n = z3.Int('pt_nentries')
    m = z3.Function('pt_matches', z3.IntSort(), z3.IntSort(), z3.BoolSort())   # (entry index, pte)
    return n, m


class CMatches(Contract):
    """abstract: entry j matches pte iff pt_matches(j, pte) (the definition is proved in the Matches unit)"""
    target = ENTRY + ".matches"

    def model(self, it, entry, pte):
        n, m = table_env()
        return m(zint(field(entry, 'idx')), zint(pte))


def mk_entries(ctx):
    n, m = table_env()
    ctx.assume(n >= 0)
    ci = lookup_qualname(ENTRY)
    return LazySeq(n, lambda j: Obj(ci, dict(idx=simp(zint(j)))), 'pte_entries')


class GetEntryInv(LoopInv):
    func = TABLE + ".get_entry"
    loop = 0
    modifies_locals = ('entry',)

    def inv(self, it, fr, i):
        n, m = table_env()
        k = z3.Int('k!ge')
        pte = fr.locals['pte']
        return z3.ForAll([k], z3.Implies(z3.And(k >= 0, k < zint(i)), z3.Not(m(k, zint(pte)))))


class GetEntry(Unit):
    prop = "C14"
    name = "PTETable.get_entry"
    target = TABLE + ".get_entry"
    contracts = [CMatches]
    invariants = [GetEntryInv]

    def inputs(self, S):
        if S.symbolic:
            t = S.obj(TABLE, header_file_path="t.h", entries=mk_entries(S.ctx))
        else:
            r = S.int("pte_choice", 0, 3)
            base = S.int("pte", 0, 0xFFFFFFFF)
            pte = (base | 0xE0040000) & 0xFFFFFFFF if r else base
            return dict(self=native_table(S, pte), pte=pte)
        return dict(self=t, pte=S.int("pte", 0, 0xFFFFFFFF))

    def check(self, P, inp, old, out):
        P.prove(out.returned, "returns")
        if not out.returned:
            return
        if not P.symbolic:
            t = inp['self']
            first = None
            for e in t.entries:
                if native_spec_matches(e.pte_pattern, inp['pte']):
                    first = e
                    break
            P.prove(out.value is first, "result is the first entry, in table order, that matches; None if none does")
            return
        n, m = table_env()
        pte = zint(inp['pte'])
        k = z3.Int('k!gep')
        if out.value is None:
            P.prove(z3.ForAll([k], z3.Implies(z3.And(k >= 0, k < n), z3.Not(m(k, pte)))), "None only if no entry matches")
        else:
            j = zint(field(out.value, 'idx'))
            P.prove(z3.And(j >= 0, j < n, m(j, pte)), "the returned entry is in the table and matches")
            P.prove(z3.ForAll([k], z3.Implies(z3.And(k >= 0, k < j), z3.Not(m(k, pte)))), "no earlier entry matches (first match)")


def native_spec_matches(pattern, pte):
    return bool(spec_matches(pattern, pte))


def native_table(S, pte):
    """a synthetic table with overlapping wildcard patterns around one PTE (native replay / bounded companion):
    patterns are wildcarded variants of the PTE as stored and with the reported flag cleared"""
    import tempfile, os
    from io_drawer.ilog import PTETable
    k = S.int("ntab", 0, 6)
    pats = []
    for j in range(k):
        kind = S.int("kind%d" % j, 0, 3)
        mask = S.int("mask%d" % j, 0, 255)
        base = pte if kind in (0, 3) else (pte & ~0x00040000) if kind == 1 else (pte ^ 0x01000000)
        s_ = "%08X" % (base & 0xFFFFFFFF)
        pat = ''.join('*' if (mask >> i) & 1 else c for i, c in enumerate(s_))
        pats.append(pat.lower() if kind == 3 else pat)
    # build the table through the real constructor from a generated header file
    txt = "static struct pte_entry_struct static_pte_entry_table[PTE_TABLE_SIZE] =\n{\n"
    for i, p_ in enumerate(pats):
        txt += '  { "%s", "m%d %%d", {4}, "f.cpp", %d },\n' % (p_, i, i)
    txt += '  { ""        , "The End" }\n};\n'
    fd, path = tempfile.mkstemp(prefix="pyvc_pte_", suffix=".h")
    try:
        with os.fdopen(fd, "w") as f:
            f.write(txt)
        t = PTETable(path)
    finally:
        os.unlink(path)
    return t


ILOG_UNITS = [FormatTimestamp, EntryInit, ReportedErr, ExactMatch, Matches, GetMessage, GetEntry]
UNITS = HLOG_UNITS + ILOG_UNITS


# ---- parse_ilog_data: one line per non-zero 8-byte entry, in order
def ilog_env():
    eidx = z3.Function('pt_first_match', z3.IntSort(), z3.IntSort())     # pte -> index of first matching entry, -1
    msg = z3.Function('pt_message', z3.IntSort(), z3.IntSort(), PyStr)   # (entry index, pte) -> message
    return eidx, msg


class CPTETable(Contract):
    """assumed (file grammar is bounded-only): the table read from the header file, arbitrary but fixed"""
    target = TABLE

    def model(self, it, header_file_path):
        it.ctx.emit('fs', ('open_r', header_file_path))      # the table is read from the file whenever a PTETable is built
        o = Obj(lookup_qualname(TABLE), dict(header_file_path=header_file_path))
        it.ctx.new_ids.add(id(o))
        return o


class CGetEntry(Contract):
    target = TABLE + ".get_entry"

    def model(self, it, table, pte):
        ctx = it.ctx
        eidx, msg = ilog_env()
        j = eidx(zint(pte))
        ctx.assume(j >= -1)
        if ctx.decide(j == -1):
            return None
        return Obj(lookup_qualname(ENTRY), dict(idx=j))


class CGetMessage(Contract):
    target = ENTRY + ".get_message"

    def model(self, it, entry, pte):
        eidx, msg = ilog_env()
        return mkstr([Opq(msg(zint(field(entry, 'idx')), zint(pte)))])


def ilog_line(ts, seq, pte, message):
    return cat(spec_ts(ts), " ", fmt(seq, 'X', 4, '0'), " ", fmt(pte, 'X', 8, '0'), " ", message)


class IlogInv(LoopInv):
    func = IO + "ilog.parse_ilog_data"
    loop = 0
    modifies_locals = ('timestamp', 'seq_num', 'pte', 'timestamp_str', 'message', 'entry')

    def L(self, ctx):
        if not hasattr(ctx, 'il_L'):
            ctx.il_L = RecFn('il_lines', Val)
            ctx.il_L.define_base(ctx, list_term(['hh:mm:ss seq  pppppppp description',
                                                 '-------- ---- -------- ------------------------------------']))
        return ctx.il_L

    def heap_targets(self, it, fr):
        return [fr.locals['lines'], (fr.locals['stream'], 'index')]

    def havoc(self, it, fr, i):
        ctx = it.ctx
        K = ctx.fresh('il_k', 'int')
        ctx.assume(K >= 0)
        ctx.ghost['il_k'] = K
        fr.locals['stream'].index = simp(8 * K)
        fr.locals['lines'][:] = [Chunk(ctx.fresh('il_lines_so_far', Val))]

    def inv(self, it, fr, i):
        s = fr.locals['stream']
        c = zint(field(s, 'index'))
        return And(c % 8 == 0, c >= 0, c <= zint(field(s, 'size')), list_term(fr.locals['lines']) == self.L(it.ctx).at(c / 8))

    def variant(self, it, fr):
        s = fr.locals['stream']
        return simp(zint(field(s, 'size')) - zint(field(s, 'index')))      # termination: every iteration consumes 8 bytes

    def unfold(self, it, fr, i):
        """L(K+1) for the iteration just executed (the case is decided on this path)"""
        ctx = it.ctx
        K = ctx.ghost['il_k']
        d = field(fr.locals['stream'], 'data')
        ts, seq, pte = be(d, 8 * K, 2), be(d, 8 * K + 2, 2), be(d, 8 * K + 4, 4)
        L = self.L(ctx)
        eidx, msg = ilog_env()
        if branch(And(ts == 0, seq == 0, pte == 0)):
            L.unfold(ctx, K, lambda prev, k: prev)
            return
        j = eidx(zint(pte))
        message = 'Undefined' if branch(j == -1) else mkstr([Opq(msg(j, zint(pte)))])
        line = val_term(ilog_line(ts, seq, pte, message))
        L.unfold(ctx, K, lambda prev, k: v_snoc(prev, line))


class ParseIlog(Unit):
    prop = "C14"
    name = "parse_ilog_data"
    target = IO + "ilog.parse_ilog_data"
    contracts = DS_CONTRACTS + [CPTETable, CGetEntry, CGetMessage, CFormatTimestamp]
    invariants = [IlogInv]

    def inputs(self, S):
        if S.symbolic:
            path = "table.h"
        else:
            import io_drawer, os
            path = os.path.join(os.path.dirname(io_drawer.__file__), S.choice("table", ["mex_pte.h", "nimitz_pte.h"]))
        return dict(data=S.bytes("data", kind='memoryview'), header_file_path=path)

    def check(self, P, inp, old, out):
        P.prove(out.returned, "returns for every input")
        if not out.returned:
            return
        if not P.symbolic:
            P.prove(list(out.value) == spec_ilog_native(inp['data'], inp['header_file_path']),
                    "output == headings + one line per non-zero 8-byte entry, in order (first matching table message)")
            return
        ctx = P.ctx
        inv = list(ctx.invariants.values())[0]
        n = zint(blen(inp['data']))
        P.prove(list_term(out.value) == inv.L(ctx).at(n / 8),
                "output == headings + one line per non-zero entry among the len//8 complete entries, in order")


_TABLE_CACHE = {}


def spec_ilog_native(data, path):
    """independent native oracle: own table reader for the shipped files + the spec functions above"""
    from io_drawer.ilog import PTETable
    data = bytes(data)
    if path not in _TABLE_CACHE:
        _TABLE_CACHE[path] = PTETable(path).entries
    entries = _TABLE_CACHE[path]
    lines = ['hh:mm:ss seq  pppppppp description', '-------- ---- -------- ------------------------------------']
    for k in range(len(data) // 8):
        e = data[8 * k:8 * k + 8]
        ts, seq, pte = be(e, 0, 2), be(e, 2, 2), be(e, 4, 4)
        if ts == 0 and seq == 0 and pte == 0:
            continue
        message = 'Undefined'
        for ent in entries:
            if spec_matches(ent.pte_pattern, pte):
                message = spec_message(ent.message_format, ent.params, pte)
                break
        lines.append(ilog_line(ts, seq, pte, message))
    return lines


# ---- the reader of the PTE table, for any header file
def v_pte_entry(fields):
    """opaque: the table entry _add_entry makes from the five field texts of one table line"""
    return ufun('v_pte_entry', PyStr, PyStr, PyStr, PyStr, PyStr, Val)(*[str_term(f) for f in fields])


class CAddEntry(Contract):
    """_add_entry(fields): appends exactly one entry, a function of the five field texts (AddEntry below proves which one for
    parameter fields of up to 5 (thorough: 6) characters; the bounded grammar companion compares whole tables)"""
    target = TABLE + "._add_entry"

    def model(self, it, table, fields):
        if not (isinstance(fields, tuple) and len(fields) == 5 and all(f is not None for f in fields)):
            raise Unsupported("_add_entry with other than five field texts")
        lst = field(table, 'entries')
        it.note_write(lst, None, "entries.append")
        lst.append(v_pte_entry(fields))
        return None


class TableFileInv(LoopInv):
    """entries == E(k), in_table == S(k); for line k (s/e/m = it matches the start / end / entry pattern):
       S(k+1) = s or (not e and S(k));  E(k+1) = E(k) ++ [entry(groups of line k)] if not s and not e and S(k) and m, else E(k)"""
    func = TABLE + "._parse_header_file"
    loop = 0
    modifies_locals = ('line', 'in_table', 'match')

    def fns(self, ctx):
        if not hasattr(ctx, 'ptf_fns'):
            ctx.ptf_fns = (RecFn('ptf_in', z3.BoolSort()), RecFn('ptf_entries', Val))
        return ctx.ptf_fns

    def heap_targets(self, it, fr):
        return [field(fr.locals['self'], 'entries')]

    def step_defs(self, it, fr, k):
        import io_drawer.ilog as IM
        ctx = it.ctx
        S, E = self.fns(ctx)
        line = file_line(field(fr.locals['self'], 'header_file_path'), k)
        s, e, m = re_pred(IM.TBL_START_RE, line), re_pred(IM.TBL_END_RE, line), re_pred(IM.TBL_ENTRY_RE, line)
        item = v_pte_entry([mkstr([Opq(re_grp(IM.TBL_ENTRY_RE, g, line))]) for g in range(1, 6)])
        S.unfold(ctx, k, lambda prev, kk: z3.Or(s, z3.And(z3.Not(e), prev)))
        E.unfold(ctx, k, lambda prev, kk: z3.If(z3.And(z3.Not(s), z3.Not(e), S.at(k), m), v_snoc(prev, item), prev))

    def entry_defs(self, it, fr):
        ctx = it.ctx
        S, E = self.fns(ctx)
        if not getattr(ctx, 'ptf_base', False):
            ctx.ptf_base = True
            S.define_base(ctx, z3.BoolVal(False))
            E.define_base(ctx, list_term(list(field(fr.locals['self'], 'entries'))))

    def havoc(self, it, fr, i):
        ctx = it.ctx
        self.entry_defs(it, fr)
        fr.locals['in_table'] = ctx.fresh('ptf_in_now', 'bool')
        field(fr.locals['self'], 'entries')[:] = [Chunk(ctx.fresh('ptf_so_far', Val))]

    def inv(self, it, fr, i):
        self.entry_defs(it, fr)
        S, E = self.fns(it.ctx)
        if not isinstance(i, int) or i > 0:
            self.step_defs(it, fr, simp(zint(i) - 1))
        return And(Iff(fr.locals['in_table'], S.at(i)), list_term(field(fr.locals['self'], 'entries')) == E.at(i))


def gen_pte_table_text(rng):
    def entry(rng):
        pat = ''.join(rng.choice("0123456789ABCDEFabcdef**") for _ in range(8))
        msg = ''.join(rng.choice("abc %dx:-") for _ in range(rng.randrange(0, 10)))
        if rng.random() < 0.2:
            msg += r' \"q\" '
        par = rng.choice(["", "4", "3, 4", "1,2,3,4", " 2 ", "0, 5", "12"])
        return rng.choice(['    { "%s", "%s", {%s}, "%s", %d },', '{"%s","%s",{%s},"%s",%d},', ' { "%s" , "%s" , { %s } , "%s" , %d } , ',
                           '{ "%s", "%s", {%s}, "%s", %d }']) % (pat, msg, par, rng.choice(["a.cpp", "", "x y.c"]), rng.randrange(0, 3000))
    return gen_lines(rng, ["static struct pte_entry_struct static_pte_entry_table[PTE_TABLE_SIZE] =",
                           "struct pte_entry_struct static_pte_entry_table[] = {", "  static   struct pte_entry_struct  static_pte_entry_table[3]={ "],
                     ['    { ""        , "The End" }', '{"","The End"},', ' { "" , "The End", {}, "", 0 }'], entry,
                     ["", "// comment", "{", "};", "int x = 3;", '{ "0100", "broken', "#define N 4"])


def entry_tuple(e):
    return (e.pte_pattern, e.message_format, tuple(e.params), e.file, e.line)


def native_add_entry_spec(g):
    """independent reading of one table line's five fields"""
    return (g[0], g[1].strip().replace('\\"', '"'), tuple(int(c) for c in g[2] if c in "0123456789" and 1 <= int(c) <= 4), g[3], int(g[4]))


class TableFileRead(Unit):
    """PTETable._parse_header_file for a header file of any number of arbitrary lines: the entries are the fold of the table
    grammar's state machine over the lines, in file order, one entry per entry line inside a table"""
    prop = "C14"
    name = "PTETable._parse_header_file"
    target = TABLE + "._parse_header_file"
    contracts = [CAddEntry]
    invariants = [TableFileInv]
    env = LinesEnv
    min_obligations = 4

    def inputs(self, S):
        if S.symbolic:
            return dict(self=Obj(lookup_qualname(TABLE), dict(header_file_path="table.h", entries=[])))
        return native_text_file_input(S, 'header_file_path', gen_pte_table_text)

    def call_native(self, inp):
        from io_drawer.ilog import PTETable
        return with_text_file(inp['_text'], lambda p: PTETable(p).entries)

    def check(self, P, inp, old, out):
        P.prove(out.returned, "returns for every file")
        if not out.returned:
            return
        if not P.symbolic:
            import io_drawer.ilog as IM
            want, ins = [], False
            for line in inp['_text'].splitlines(True):
                if IM.TBL_START_RE.fullmatch(line):
                    ins = True
                elif IM.TBL_END_RE.fullmatch(line):
                    ins = False
                elif ins and IM.TBL_ENTRY_RE.fullmatch(line):
                    want.append(native_add_entry_spec(IM.TBL_ENTRY_RE.fullmatch(line).groups()))
            P.prove([entry_tuple(e) for e in out.value] == want, "entries == one per entry line inside a table, in file order")
            return
        ctx = P.ctx
        S_, E = [v for v in ctx.invariants.values()][0].fns(ctx)
        m = ctx.ghost.get(TableFileInv.func + '#loop0.exit_index')
        how = ctx.ghost.get(TableFileInv.func + '#loop0.exit')
        P.prove(m is not None and how == 'exhausted', "every line of the file is read")
        if m is None:
            return
        n = ufun('file_nlines', PyStr, z3.IntSort())(lit("table.h"))
        P.prove(Eq(m, n), "up to the last line")
        P.prove(list_term(field(inp['self'], 'entries')) == E.at(m), "entries == one per entry line inside a table, in file order")
        P.prove([e for e in ctx.fs if e[0] != 'open_r'] == [], "the file is only read")
        P.prove(len([e for e in ctx.fs if e[0] == 'open_r']) == 1, "and it is read at this call (no remembered table)")


class AddEntry(Unit):
    """PTETable._add_entry on the five field texts of one table line: exactly one entry is appended; pattern, message
    (stripped, escaped quotes resolved), file and line number are the fields' own; params are the decimal digits 1..4 of the
    parameter field, in order.  Parameter fields of 0..5 (thorough tier: 0..6) ASCII characters, symbolic (a stated bound: the shipped tables use at most
    '1, 2, 3, 4'); message and file texts are opaque (any length)."""
    prop = "C14"
    name = "PTETable._add_entry"
    target = TABLE + "._add_entry"
    shards = 7 if os.environ.get('PYVC_TIER') == 'thorough' else 6
    size_bound = "parameter field of 0..%d characters" % (shards - 1)

    def inputs(self, S):
        k = self.shard if S.symbolic else S.choice("nchars", list(range(11)))
        ps = S.text("params_str", k)
        if S.symbolic:
            ln = mkstr([Opq(ufun('ae_line_text', PyStr)())])
        else:
            ln = str(S.int("line", 0, 99999))
        self._fields = (S.text("pattern", 8), S.opaque_str("format"), ps, S.opaque_str("file"), ln)
        return dict(self=Obj(lookup_qualname(TABLE), dict(header_file_path="t.h", entries=[])) if S.symbolic else None,
                    fields=self._fields)

    def pre(self, S, inp):
        f = inp['fields']
        c = [pattern_ok(f[0])]
        if S.symbolic:
            t = str_term(f[4])
            c.append(ufun('int_literal_valid', PyStr, z3.IntSort(), z3.BoolSort())(t, I(10)))
            c += [And(x >= 0, x < 128) for x in chars_of(f[2])]     # ASCII parameter field (non-ASCII decimal digits: not modelled)
        else:
            c.append(all(ord(x) < 128 for x in f[2]))
        return And(*c)

    def call_native(self, inp):
        from io_drawer.ilog import PTETable
        t = object.__new__(PTETable)
        t.header_file_path, t.entries = "t.h", []
        t._add_entry(inp['fields'])
        return t.entries

    def check(self, P, inp, old, out):
        P.prove(out.returned, "returns")
        if not out.returned:
            return
        f = inp['fields']
        ents = list(field(inp['self'], 'entries')) if P.symbolic else list(out.value)
        P.prove(len(ents) == 1, "exactly one entry is appended")
        if len(ents) != 1:
            return
        e = ents[0]
        P.prove(Eq(field(e, 'pte_pattern'), f[0]), "pattern == field 1")
        P.prove(Eq(field(e, 'file'), f[3]), "file == field 4")
        want = tuple(simp(c - 48) if is_z3(c) else c - 48 for c in chars_of(f[2]) if branch(And(c >= 49, c <= 52)))
        P.prove(Eq(tuple(field(e, 'params')), want), "params == the digits 1..4 of field 3, in order")
        if P.symbolic:
            P.prove(Eq(field(e, 'line'), ufun('int_of_str', PyStr, z3.IntSort(), z3.IntSort())(str_term(f[4]), I(10))), "line == int(field 5)")
            rep = ufun('replace_5c_22_22', PyStr, PyStr)(ufun('strip_ws', PyStr, PyStr)(str_term(f[1])))
            P.prove(Eq(field(e, 'message_format'), mkstr([Opq(rep)])), "message == field 2 stripped, with \\\" read as \"")
        else:
            P.prove(field(e, 'line') == int(f[4]), "line == int(field 5)")
            P.prove(field(e, 'message_format') == f[1].strip().replace('\\"', '"'), "message == field 2 stripped, with \\\" read as \"")


ILOG_UNITS = [FormatTimestamp, EntryInit, ReportedErr, ExactMatch, Matches, GetMessage, GetEntry, ParseIlog, TableFileRead, AddEntry]
UNITS = HLOG_UNITS + ILOG_UNITS


def ilog_grammar_bounded(tier, seed):
    """PTETable._parse_header_file/_add_entry and the wildcard-regex assumption: bounded stand-ins"""
    import random, tempfile, os, time, re, shutil
    import io_drawer
    from io_drawer.ilog import PTETable
    t0 = time.time()
    rng = random.Random(seed)
    obs = []
    base = os.path.dirname(io_drawer.__file__)
    bad = None
    evals = 0
    hexalpha = set("0123456789abcdefABCDEF*")
    for fn, cnt in (("mex_pte.h", 615), ("nimitz_pte.h", 598)):
        t = PTETable(os.path.join(base, fn))
        evals += 1
        if len(t.entries) != cnt:
            bad = dict(case="shipped " + fn, got=len(t.entries), want=cnt)
        for e in t.entries:
            if len(e.pte_pattern) != 8 or not set(e.pte_pattern) <= hexalpha:
                bad = dict(case="shipped pattern outside [0-9A-Fa-f*]{8}", pattern=e.pte_pattern)
            if any(not (1 <= p <= 4) for p in e.params):
                bad = dict(case="params not filtered", params=e.params)
    n = 200 if tier == 'quick' else 2000
    d = tempfile.mkdtemp(prefix="pyvc_ilog_")
    try:
        for k in range(n):
            if bad:
                break
            m = rng.randrange(0, 10)
            want = []
            body = []
            for j in range(m):
                pat = ''.join(rng.choice("0123456789ABCDEFabcdef****") for _ in range(8))
                msg = ''.join(rng.choice("abc XYZ%d%c%02x:-_.,()") for _ in range(rng.randrange(1, 20))).strip() or "m"
                quoted = rng.random() < 0.3
                shown = msg + (' "N-Mode"' if quoted else '')
                src = msg + (' \\"N-Mode\\"' if quoted else '')
                ps = [rng.randrange(0, 7) for _ in range(rng.randrange(0, 4))]
                want.append((pat, shown, tuple(p for p in ps if 1 <= p <= 4), "f%d.cpp" % j, 100 + j))
                sp = lambda: ' ' * rng.randrange(0, 3)
                body.append('%s{%s"%s"%s,%s"%s"%s,%s{%s}%s,%s"f%d.cpp"%s,%s%d%s}%s,\n' % (
                    sp(), sp(), pat, sp(), sp(), src, sp(), sp(), ', '.join(str(p) for p in ps), sp(), sp(), j, sp(), sp(),
                    100 + j, sp(), sp()))
            brace_same = rng.random() < 0.5
            txt = '#define X 1\n{ "DEADBEEF", "before the table", {}, "x.cpp", 1 },\n'
            txt += "%sstruct pte_entry_struct static_pte_entry_table[PTE_TABLE_SIZE] =%s\n" % (
                rng.choice(["static ", "", " static  "]), " {" if brace_same else "")
            if not brace_same:
                txt += "{\n"
            txt += ''.join(body) + '  { ""        , "The End" }\n};\n{ "DEADBEEF", "after the table", {}, "x.cpp", 2 },\n'
            p = os.path.join(d, "t.h")
            with open(p, "w") as f:
                f.write(txt)
            got = [(e.pte_pattern, e.message_format, e.params, e.file, e.line) for e in PTETable(p).entries]
            evals += 1
            if got != want:
                bad = dict(case="generated table", text=txt, got=got[:4], want=want[:4])
    finally:
        shutil.rmtree(d, ignore_errors=True)
    ob = dict(name="PTETable header-file grammar: entries of the table, in file order (bounded)", kind='B', solver='bounded',
              status='failed' if bad else 'discharged', evaluations=evals, secs=time.time() - t0,
              bound="2 shipped tables (615/598 entries, patterns in [0-9A-Fa-f*]{8}) + %d generated tables of 0..9 entries" % n)
    if bad:
        ob['replay'] = dict(kind='custom', reproduced=True, native=bad, input=bad)
        ob['detail'] = str(bad)[:500]
    obs.append(ob)
    # the assumed regex contract: spec_wild == re.compile(p.replace('*','.'), IGNORECASE).fullmatch
    bad2 = None
    ev2 = 0
    for k in range(4000 if tier == 'quick' else 40000):
        ln = rng.choice([8, 8, 8, 7, 9])
        pat = ''.join(rng.choice("0123456789ABCDEFabcdef****") for _ in range(ln))
        pte = rng.getrandbits(32)
        if rng.random() < 0.5:
            # make a near match
            s = "%08X" % pte
            pat = ''.join(c if rng.random() < 0.8 else '*' for c in (s if ln == 8 else s[:ln].ljust(ln, '0')))
            if rng.random() < 0.3:
                pat = pat.lower()
        real = re.compile(pat.replace('*', '.'), re.IGNORECASE).fullmatch("%08X" % pte) is not None
        ev2 += 1
        if bool(spec_wild(pat, hex8(pte))) != real:
            bad2 = dict(pattern=pat, pte=pte, real=real)
            break
    ob2 = dict(name="assumed regex contract: wildcard match == re.fullmatch on [0-9A-Fa-f*] patterns (bounded)", kind='B',
               solver='bounded', status='failed' if bad2 else 'discharged', evaluations=ev2, secs=0.0,
               bound="%d random pattern/PTE pairs" % ev2)
    if bad2:
        ob2['replay'] = dict(kind='custom', reproduced=True, native=bad2, input=bad2)
    obs.append(ob2)
    return obs, {}


# =================================================================== C15 trace buffers
TR = IO + "trace."


def mk_stream_at(S, name="s"):
    return mk_stream(S, name)


class HeaderRead(Unit):
    prop = "C15"
    name = "TraceBufferHeader.read"
    target = TR + "TraceBufferHeader.read"
    contracts = DS_CONTRACTS

    def inputs(self, S):
        h = S.obj(TR + "TraceBufferHeader", ver=None, hdr_len=None, time_flg=None, endian_flg=None, comp=None, size=None,
                  times_wrap=None, next_free=None)
        return dict(self=h, stream=mk_stream(S))

    def pre(self, S, inp):
        return ds_invariant(inp['stream'])

    def check(self, P, inp, old, out):
        P.prove(out.returned, "returns (never raises)")
        if not out.returned:
            return
        s, h = inp['stream'], inp['self']
        d, o, size = old['stream'].data, old['stream'].index, old['stream'].size
        if not truth_now(P, out.value):
            P.prove(Not(o + 32 <= size), "False only when fewer than 32 bytes remain")
            P.prove(Eq(field(s, 'index'), o), "cursor unchanged when no header can be read")
            return
        P.prove(o + 32 <= size, "True only when 32 header bytes are present")
        P.prove(Eq(field(s, 'index'), o + 32), "cursor advanced by the 32-byte header")
        for nm, off, n in (('ver', 0, 1), ('hdr_len', 1, 1), ('time_flg', 2, 1), ('endian_flg', 3, 1), ('size', 20, 4),
                           ('times_wrap', 24, 4), ('next_free', 28, 4)):
            P.prove(Eq(field(h, nm), be(d, o + off, n)), "header.%s == the %d byte(s) at offset %d" % (nm, n, off))
        P.prove(Eq(field(h, 'comp'), spec_comp(d, o + 4)), "header.comp == the 12 name bytes as text without NUL/space padding")


def truth_now(P, v):
    """value of a bool result on this path (forks when undetermined)"""
    return branch(truth(v))


def spec_comp(d, o):
    if isinstance(d, (bytes, bytearray, memoryview)):
        return str(bytes(d[o:o + 12]), encoding='ascii', errors='ignore').rstrip('\0').rstrip(' ')
    ctx = cur()
    if branch(is_ascii(d, o, 12)):
        t = ascii_text(d, o, 12)
    else:
        t = _ops.bytes_decode(ctx, view(d, o, 12), 'ascii', 'ignore')
    return strip(strip(t, '\0', 'r'), ' ', 'r')


def entry_layout(d, o, size):
    """(ok, length, end) of a trace entry at offset o: 16 fixed bytes, data (<=1024), pad to 4, 4-byte total size"""
    length = be(d, o + 4, 2)
    pad = If(mod(length, 4) == 0, 0, 4 - mod(length, 4)) if is_z3(length) else ((4 - length % 4) % 4)
    end = o + 16 + length + pad + 4
    fixed = o + 16 <= size
    if is_z3(fixed) or is_z3(end):
        ok = And(fixed, length <= 1024, end <= size, Eq(be(d, end - 4, 4), end - o))
    else:
        ok = bool(fixed and length <= 1024 and end <= size and be(d, end - 4, 4) == end - o)
    return ok, length, end


class EntryRead(Unit):
    prop = "C15"
    name = "TraceEntry.read"
    target = TR + "TraceEntry.read"
    contracts = DS_CONTRACTS

    def inputs(self, S):
        e = S.obj(TR + "TraceEntry", tbh=None, tbl=None, length=None, tag=None, hash_value=None, line=None, data=None)
        return dict(self=e, stream=mk_stream(S))

    def pre(self, S, inp):
        return ds_invariant(inp['stream'])

    def check(self, P, inp, old, out):
        P.prove(out.returned, "returns (never raises)")
        if not out.returned:
            return
        s, e = inp['stream'], inp['self']
        d, o, size = old['stream'].data, old['stream'].index, old['stream'].size
        ok, length, end = entry_layout(d, o, size)
        P.prove(Iff(truth(out.value), ok),
                "True iff the entry is complete: 16 fixed bytes, <=1024 data bytes, pad to 4, trailing size word == actual size")
        if truth_now(P, out.value):
            P.prove(Eq(field(s, 'index'), end), "cursor at the end of the entry")
            for nm, off, n in (('tbh', 0, 2), ('tbl', 2, 2), ('length', 4, 2), ('tag', 6, 2), ('hash_value', 8, 4), ('line', 12, 4)):
                P.prove(Eq(field(e, nm), be(d, o + off, n)), "entry.%s == the %d bytes at offset %d" % (nm, n, off))
            P.prove(Eq(blen(field(e, 'data')), length), "entry.data has exactly `length` bytes")
            if P.symbolic and isinstance(field(e, 'data'), SBytes):
                P.prove(same_view(field(e, 'data'), view(d, o + 16, length)), "entry.data == the bytes after the fixed fields")
            elif not P.symbolic:
                P.prove(bytes(field(e, 'data')) == bytes(d[o + 16:o + 16 + length]), "entry.data == the bytes after the fixed fields")
        P.prove(And(field(s, 'index') >= o, field(s, 'index') <= size), "cursor stays within the input")


class GetArgs(Unit):
    prop = "C15"
    name = "TraceEntry.get_args"
    target = TR + "TraceEntry.get_args"
    contracts = DS_CONTRACTS

    def inputs(self, S):
        e = S.obj(TR + "TraceEntry", tag=S.int("tag", 0, 0xFFFF), data=S.bytes("edata", kind='memoryview'))
        return dict(self=e)

    def check(self, P, inp, old, out):
        P.prove(out.returned, "returns")
        if not out.returned:
            return
        e = inp['self']
        d = field(e, 'data')
        got = tuple(out.value)
        if branch(Eq(field(e, 'tag'), 0x4644)):
            P.prove(len(got) == 0, "binary entries have no arguments")
            return
        n = blen(d)
        k = len(got)
        P.prove(And(k <= 5, 4 * k <= n, Or(k == 5, 4 * (k + 1) > n)), "min(5, len // 4) arguments")
        for j in range(k):
            P.prove(Eq(got[j], be(d, 4 * j, 4)), "argument %d == big-endian word %d of the data" % (j, j))


class TSUnit(Unit):
    prop = "C15"

    def mk(self, S):
        return S.obj(TR + "TraceString", hash_value=S.int("h", 0, 0xFFFFFFFF), message_format=S.opaque_str("format"),
                     location=S.opaque_str("loc"))


class IsMatch(TSUnit):
    name = "TraceString.is_match/is_partial_match"
    target = TR + "TraceString.is_partial_match"

    def inputs(self, S):
        return dict(self=self.mk(S), hash_value=S.int("hash", 0, 0xFFFFFFFF))

    def call(self, it, inp):
        ci = lookup_qualname(TR + "TraceString")
        a = it.call(BoundMethod(inp['self'], ci.find_method('is_match')), [inp['hash_value']])
        b = it.call(BoundMethod(inp['self'], ci.find_method('is_partial_match')), [inp['hash_value']])
        return (a, b)

    def call_native(self, inp):
        return (inp['self'].is_match(inp['hash_value']), inp['self'].is_partial_match(inp['hash_value']))

    def check(self, P, inp, old, out):
        P.prove(out.returned, "returns")
        if out.returned:
            h, x = field(inp['self'], 'hash_value'), inp['hash_value']
            P.prove(Iff(truth(out.value[0]), Eq(h, x)), "exact match iff the hashes are equal")
            P.prove(Iff(truth(out.value[1]), And(Not(Eq(h, x)), Eq(mod(h, 100000), mod(x, 100000)))),
                    "partial match iff hashes differ but agree modulo 100000")


def spec_pct(fmt_, args):
    """format % args, or the bare format when formatting raises"""
    if isinstance(fmt_, str):
        try:
            return fmt_ % tuple(args)
        except Exception:
            return fmt_
    ok, res, et, em = _ops.format_terms(cur(), 'pct', fmt_, tuple(args))
    return mkstr([Opq(res)]) if branch(ok) else fmt_


class TSGetMessage(TSUnit):
    name = "TraceString.get_message"
    target = TR + "TraceString.get_message"

    def inputs(self, S):
        k = S.choice("nargs", [0, 1, 5])
        return dict(self=self.mk(S), args=tuple(S.int("a%d" % j, 0, 0xFFFFFFFF) for j in range(k)))

    def check(self, P, inp, old, out):
        P.prove(out.returned, "returns for every format/argument mismatch")
        if out.returned:
            P.prove(Eq(out.value, spec_pct(field(inp['self'], 'message_format'), inp['args'])),
                    "message == format % args, or the bare format when that raises")


# ---- exact / last-partial string lookup
def tsf_env():
    n = z3.Int('ts_n')
    h = z3.Function('ts_hash', z3.IntSort(), z3.IntSort())
    return n, h


def mk_trace_strings(ctx):
    n, h = tsf_env()
    ctx.assume(n >= 0)
    ci = lookup_qualname(TR + "TraceString")

    def elem(j):
        j = simp(zint(j))
        return Obj(ci, dict(idx=j, hash_value=h(j), message_format=mkstr([Opq(ufun('ts_fmt', z3.IntSort(), PyStr)(j))]),
                            location=mkstr([Opq(ufun('ts_loc', z3.IntSort(), PyStr)(j))])))
    return LazySeq(n, elem, 'trace_strings')


def ts_exact(k, x):
    n, h = tsf_env()
    return h(k) == x


def ts_partial(k, x):
    n, h = tsf_env()
    return z3.And(h(k) != x, h(k) % 100000 == x % 100000)


class GetTraceStringInv(LoopInv):
    func = TR + "TraceStringFile.get_trace_string"
    loop = 0
    modifies_locals = ('trace_string', 'partial_match')

    def pm(self, fr):
        v = fr.locals['partial_match']
        return I(-1) if v is None else zint(field(v, 'idx'))

    def havoc(self, it, fr, i):
        ctx = it.ctx
        pm = ctx.fresh('pm', 'int')
        ctx.assume(pm >= -1)
        if ctx.decide(pm == -1):
            fr.locals['partial_match'] = None
        else:
            seq = field(fr.locals['self'], 'trace_strings')
            fr.locals['partial_match'] = seq.elem(pm)

    def inv(self, it, fr, i):
        x = zint(fr.locals['hash_value'])
        pm = self.pm(fr)
        k = z3.Int('k!gts')
        i = zint(i)
        return z3.And(
            z3.ForAll([k], z3.Implies(z3.And(k >= 0, k < i), z3.Not(ts_exact(k, x)))),
            z3.Implies(pm == -1, z3.ForAll([k], z3.Implies(z3.And(k >= 0, k < i), z3.Not(ts_partial(k, x))))),
            z3.Implies(pm >= 0, z3.And(pm < i, ts_partial(pm, x),
                                       z3.ForAll([k], z3.Implies(z3.And(k > pm, k < i), z3.Not(ts_partial(k, x)))))))


class GetTraceString(Unit):
    prop = "C15"
    name = "TraceStringFile.get_trace_string"
    target = TR + "TraceStringFile.get_trace_string"
    invariants = [GetTraceStringInv]

    def inputs(self, S):
        if S.symbolic:
            f = S.obj(TR + "TraceStringFile", string_file_path="sf", trace_strings=mk_trace_strings(S.ctx))
            return dict(self=f, hash_value=S.int("hash", 0, 0xFFFFFFFF))
        from io_drawer.trace import TraceStringFile, TraceString
        f = object.__new__(TraceStringFile)
        x = S.int("hash", 0, 0xFFFFFFFF)
        k = S.int("nstr", 0, 6)
        f.trace_strings = []
        for j in range(k):
            kind = S.int("kind%d" % j, 0, 3)
            hv = x if kind == 0 else (x + 100000 * S.int("d%d" % j, 1, 40)) % (1 << 32) if kind in (1, 2) else (x ^ 0x5A5A)
            f.trace_strings.append(TraceString(hv, "m%d" % j, "loc%d" % j))
        f.string_file_path = "sf"
        return dict(self=f, hash_value=x)

    def check(self, P, inp, old, out):
        P.prove(out.returned, "returns")
        if not out.returned:
            return
        x = inp['hash_value']
        if not P.symbolic:
            ss = inp['self'].trace_strings
            exact = [s for s in ss if s.hash_value == x]
            part = [s for s in ss if s.hash_value != x and s.hash_value % 100000 == x % 100000]
            want = exact[0] if exact else (part[-1] if part else None)
            P.prove(out.value is want, "first exact match, else the last partial match, else None")
            return
        n, h = tsf_env()
        k = z3.Int('k!gtsp')
        x = zint(x)
        if out.value is None:
            P.prove(z3.ForAll([k], z3.Implies(z3.And(k >= 0, k < n), z3.And(z3.Not(ts_exact(k, x)), z3.Not(ts_partial(k, x))))),
                    "None only if no string matches exactly or partially")
            return
        j = zint(field(out.value, 'idx'))
        P.prove(z3.And(j >= 0, j < n), "the returned string is in the file")
        if branch(ts_exact(j, x)):
            P.prove(z3.ForAll([k], z3.Implies(z3.And(k >= 0, k < j), z3.Not(ts_exact(k, x)))), "first string with the same hash")
        else:
            P.prove(ts_partial(j, x), "otherwise a partial match (hash agrees modulo 100000)")
            P.prove(z3.ForAll([k], z3.Implies(z3.And(k >= 0, k < n), z3.Not(ts_exact(k, x)))), "returned only when no exact match exists")
            P.prove(z3.ForAll([k], z3.Implies(z3.And(k > j, k < n), z3.Not(ts_partial(k, x)))), "it is the last partial match")


TRACE_UNITS = [HeaderRead, EntryRead, GetArgs, IsMatch, TSGetMessage, GetTraceString]
UNITS = HLOG_UNITS + ILOG_UNITS + TRACE_UNITS


DS_Q = "pel.datastream.DataStream"


def gen_trace_buffer(rng):
    """structured random trace buffer: header + well-formed entries, declared size near an entry boundary or
    inside an entry, optional corruption / truncation (bounded companion input generator)"""
    ents = b''
    bounds = [32]
    for _ in range(rng.randrange(0, 5)):
        ln = rng.choice([0, 1, 3, 4, 5, 8, 20, 21, rng.randrange(0, 40)])
        pad = (4 - ln % 4) % 4
        tag = rng.choice([0x4654, 0x4644, 0x1234])
        e = (rng.randrange(65536).to_bytes(2, 'big') + rng.randrange(65536).to_bytes(2, 'big') + ln.to_bytes(2, 'big') +
             tag.to_bytes(2, 'big') + rng.getrandbits(32).to_bytes(4, 'big') + rng.randrange(100000).to_bytes(4, 'big') +
             bytes(rng.randrange(256) for _ in range(ln)) + bytes(pad))
        e += (len(e) + 4).to_bytes(4, 'big')
        ents += e
        bounds.append(32 + len(ents))
    total = 32 + len(ents)
    k = rng.random()
    if k < 0.3:
        size = total
    elif k < 0.6:
        size = max(0, rng.choice(bounds) + rng.randrange(-20, 20))
    else:
        size = rng.randrange(0, total + 40)
    hdr = bytes([2, 0x20, 1, 0x42]) + rng.choice([b'IICS', b'POWR', b'INFO']).ljust(12, rng.choice([b'\0', b' '])) + bytes(4) + \
        size.to_bytes(4, 'big') + rng.randrange(9).to_bytes(4, 'big') + bytes(4)
    data = bytearray(hdr + ents)
    r = rng.random()
    if r < 0.2 and len(data) > 33:
        data[rng.randrange(32, len(data))] ^= 1 << rng.randrange(8)
    elif r < 0.4:
        data = data[:rng.randrange(0, len(data) + 1)]
    return bytes(data)


def gen_trace_buffer_simple(ents):
    """a well-formed trace buffer from (timestamp, seq, hash, line, args) tuples: field trace entries (tag 0x4654) whose
    data are the 32-bit arguments"""
    body = b''
    for (ts, seq, hv, line, args) in ents:
        dat = b''.join(a.to_bytes(4, 'big') for a in args)
        e = (ts % 65536).to_bytes(2, 'big') + (seq % 65536).to_bytes(2, 'big') + len(dat).to_bytes(2, 'big') + (0x4654).to_bytes(2, 'big') + \
            hv.to_bytes(4, 'big') + line.to_bytes(4, 'big') + dat
        e += (len(e) + 4).to_bytes(4, 'big')
        body += e
    size = 32 + len(body)
    hdr = bytes([2, 0x20, 1, 0x42]) + b'IICS'.ljust(12, b'\0') + bytes(4) + size.to_bytes(4, 'big') + bytes(4) + bytes(4)
    return hdr + body


# ---- TraceBuffer.read: entries up to the declared size / first malformed entry
def tr_fns(ctx):
    if not hasattr(ctx, 'tr_fns'):
        ctx.tr_fns = (RecFn('tr_pos', z3.IntSort()), RecFn('tr_entries', Val), z3.Function('tr_ok', z3.IntSort(), z3.BoolSort()))
    return ctx.tr_fns


def v_entry(pos):
    return ufun('v_trace_entry', z3.IntSort(), Val)(zint(pos))


class CHeaderRead(Contract):
    target = TR + "TraceBufferHeader.read"

    def model(self, it, h, stream):
        ctx = it.ctx
        d, o, size = field(stream, 'data'), field(stream, 'index'), field(stream, 'size')
        if not ctx.decide(zint(o) + 32 <= zint(size)):
            return False
        h.ver, h.hdr_len, h.time_flg, h.endian_flg = be(d, o, 1), be(d, o + 1, 1), be(d, o + 2, 1), be(d, o + 3, 1)
        h.size, h.times_wrap, h.next_free = be(d, o + 20, 4), be(d, o + 24, 4), be(d, o + 28, 4)
        h.comp = mkstr([Opq(ufun('spec_comp', Val, z3.IntSort(), PyStr)(val_term(d), zint(o) + 4))])
        stream.index = simp(zint(o) + 32)
        return True


class CEntryRead(Contract):
    target = TR + "TraceEntry.read"

    def model(self, it, e, stream):
        ctx = it.ctx
        d, o, size = field(stream, 'data'), field(stream, 'index'), field(stream, 'size')
        ok, length, end = entry_layout(d, o, size)
        if not ctx.decide(ok):
            c = ctx.fresh('cursor_after_bad_entry', 'int')
            ctx.assume(z3.And(c >= zint(o), c <= zint(size)))
            stream.index = c
            return False
        e.tbh, e.tbl, e.length, e.tag = be(d, o, 2), be(d, o + 2, 2), length, be(d, o + 6, 2)
        e.hash_value, e.line = be(d, o + 8, 4), be(d, o + 12, 4)
        e.data = view(d, o + 16, length)
        e._term = v_entry(o)
        e._pos = o
        stream.index = simp(end)
        return True


class BufferReadInv(LoopInv):
    func = TR + "TraceBuffer.read"
    loop = 0
    modifies_locals = ('entry',)

    def K(self, ctx):
        return ctx.ghost.setdefault('tr_K', 0)

    def heap_targets(self, it, fr):
        b = fr.locals['self']
        return [field(b, 'entries'), (fr.locals['stream'], 'index')]

    def base(self, it, fr):
        ctx = it.ctx
        if not ctx.ghost.get('tr_base'):
            ctx.ghost['tr_base'] = True
            Pos, EL, OK = tr_fns(ctx)
            Pos.define_base(ctx, zint(field(fr.locals['stream'], 'index')))
            EL.define_base(ctx, v_nil())

    def havoc(self, it, fr, i):
        ctx = it.ctx
        self.base(it, fr)
        Pos, EL, OK = tr_fns(ctx)
        K = ctx.fresh('tr_k', 'int')
        ctx.assume(K >= 0)
        ctx.ghost['tr_K'] = K
        fr.locals['stream'].index = Pos.at(K)
        field(fr.locals['self'], 'entries')[:] = [Chunk(ctx.fresh('tr_entries_so_far', Val))]

    def inv(self, it, fr, i):
        ctx = it.ctx
        self.base(it, fr)
        Pos, EL, OK = tr_fns(ctx)
        K = zint(self.K(ctx))
        s = fr.locals['stream']
        hsize = zint(field(field(fr.locals['self'], 'header'), 'size'))
        k = z3.Int('k!tbr')
        return z3.And(zint(field(s, 'index')) == Pos.at(K), list_term(field(fr.locals['self'], 'entries')) == EL.at(K),
                      zint(field(s, 'index')) >= 0, zint(field(s, 'index')) <= zint(field(s, 'size')),
                      z3.ForAll([k], z3.Implies(z3.And(k >= 0, k < K), z3.And(OK(k), Pos.at(k) < hsize))))

    def variant(self, it, fr):
        s = fr.locals['stream']
        return simp(zint(field(s, 'size')) - zint(field(s, 'index')))      # termination: every entry read consumes >= 20 bytes

    def unfold(self, it, fr, i):
        ctx = it.ctx
        Pos, EL, OK = tr_fns(ctx)
        K = self.K(ctx)
        s = fr.locals['stream']
        d, size = field(s, 'data'), field(s, 'size')
        ok, length, end = entry_layout(d, Pos.at(K), size)
        ctx.assume(OK(zint(K)) == zbool_(ok))
        Pos.unfold(ctx, K, lambda prev, k: zint(end))
        EL.unfold(ctx, K, lambda prev, k: v_snoc(prev, v_entry(Pos.at(K))))
        ctx.ghost['tr_K'] = simp(zint(K) + 1)


def zbool_(x):
    return z3.BoolVal(x) if isinstance(x, bool) else x


class BufferRead(Unit):
    prop = "C15"
    name = "TraceBuffer.read"
    target = TR + "TraceBuffer.read"
    contracts = DS_CONTRACTS + [CHeaderRead, CEntryRead]
    invariants = [BufferReadInv]

    def inputs(self, S):
        b = S.obj(TR + "TraceBuffer", header=None, entries=[])
        if hasattr(S, 'rng'):
            data = gen_trace_buffer(S.rng)
            S.log['s_data'] = data.hex()
            S.log['s_index'] = 0
            return dict(self=b, stream=S.obj(DS_Q, data=data, size=len(data), index=0, byte_order='big', is_signed=False))
        return dict(self=b, stream=mk_stream(S))

    def pre(self, S, inp):
        return ds_invariant(inp['stream'])

    def check(self, P, inp, old, out):
        P.prove(out.returned, "returns (never raises)")
        if not out.returned:
            return
        d, o, size = old['stream'].data, old['stream'].index, old['stream'].size
        b = inp['self']
        if not P.symbolic:
            want = spec_entries_native(d, o, size)
            P.prove(bool(out.value) == (want is not None), "True iff a 32-byte header is present")
            if want is not None:
                got = [(e.tbh, e.tbl, e.length, e.tag, e.hash_value, e.line, bytes(e.data)) for e in b.entries]
                P.prove(got == want, "entries == every well-formed entry up to the declared size / first malformed entry")
            return
        ctx = P.ctx
        if not truth_now(P, out.value):
            P.prove(Not(o + 32 <= size), "False only when no 32-byte header is present")
            return
        P.prove(o + 32 <= size, "True only when a 32-byte header is present")
        Pos, EL, OK = tr_fns(ctx)
        inv = list(ctx.invariants.values())[0]
        m = zint(inv.K(ctx))
        hsize = be(d, o + 20, 4)
        P.prove(list_term(field(b, 'entries')) == EL.at(m), "entries == the entries at positions Pos(0..m-1), in order")
        k = z3.Int('k!tbrp')
        P.prove(z3.ForAll([k], z3.Implies(z3.And(k >= 0, k < m), z3.And(OK(k), Pos.at(k) < hsize))),
                "every listed entry is well formed and starts before the declared buffer size")
        ok_m, _, _ = entry_layout(d, Pos.at(m), size)
        P.prove(Or(Not(Pos.at(m) < hsize), Not(ok_m)), "reading stops only at the declared size or at the first malformed entry")
        P.prove(Pos.at(0) == o + 32, "the first entry starts right after the header")


def spec_entries_native(d, o, size):
    d = bytes(d)
    if o + 32 > size:
        return None
    hsize = be(d, o + 20, 4)
    pos = o + 32
    out = []
    while pos < hsize:
        ok, length, end = entry_layout(d, pos, size)
        if not ok:
            break
        out.append((be(d, pos, 2), be(d, pos + 2, 2), length, be(d, pos + 6, 2), be(d, pos + 8, 4), be(d, pos + 12, 4),
                    d[pos + 16:pos + 16 + length]))
        pos = end
    return out


# ---- _format_trace_entry
INDENT = '                    '


class CGetTraceString(Contract):
    target = TR + "TraceStringFile.get_trace_string"

    def model(self, it, f, hash_value):
        ctx = it.ctx
        j = ufun('ts_lookup', z3.IntSort(), z3.IntSort())(zint(hash_value))
        ctx.assume(j >= -1)
        if ctx.decide(j == -1):
            return None
        n, h = tsf_env()
        # the lookup contract (proved in GetTraceString): exact, or partial
        ctx.assume(z3.Or(h(j) == zint(hash_value), ts_partial(j, zint(hash_value))))
        return mk_trace_strings(ctx).elem(j)


class IndentInv(LoopInv):
    func = TR + "_format_trace_entry"
    loop = 0
    modifies_locals = ('dump_line',)

    def fn(self, ctx):
        if not hasattr(ctx, 'ind_fn'):
            ctx.ind_fn = RecFn('indented_lines', Val)
        return ctx.ind_fn

    def heap_targets(self, it, fr):
        return [fr.locals['lines']]

    def base(self, it, fr):
        ctx = it.ctx
        if not ctx.ghost.get('ind_base'):
            ctx.ghost['ind_base'] = True
            self.fn(ctx).define_base(ctx, list_term(list(fr.locals['lines'])))

    def havoc(self, it, fr, i):
        self.base(it, fr)
        fr.locals['lines'][:] = [Chunk(it.ctx.fresh('lines_so_far', Val))]

    def inv(self, it, fr, i):
        self.base(it, fr)
        return list_term(fr.locals['lines']) == self.fn(it.ctx).at(i)

    def unfold(self, it, fr, i):
        from pyvc.seq import seq_str_at
        ctx = it.ctx
        hd = spec_hexdump_term(field(fr.locals['entry'], 'data'))
        line = val_term(cat(INDENT, mkstr([Opq(seq_str_at(hd, i))])))
        self.fn(ctx).unfold(ctx, i, lambda prev, k: v_snoc(prev, line))


class FormatEntry(Unit):
    prop = "C15"
    name = "_format_trace_entry"
    target = TR + "_format_trace_entry"
    contracts = DS_CONTRACTS + [CHexdump, CGetTraceString, CFormatTimestamp]
    invariants = [IndentInv]

    def inputs(self, S):
        e = S.obj(TR + "TraceEntry", tbh=S.int("tbh", 0, 0xFFFF), tbl=S.int("tbl", 0, 0xFFFF), length=None,
                  tag=S.int("tag", 0, 0xFFFF), hash_value=S.int("hash", 0, 0xFFFFFFFF), line=S.int("line", 0, 0xFFFFFFFF),
                  data=S.bytes("edata", kind='memoryview'))
        if S.symbolic:
            sf = S.obj(TR + "TraceStringFile", string_file_path="sf")
        else:
            from io_drawer.trace import TraceStringFile, TraceString
            sf = object.__new__(TraceStringFile)
            x = e.hash_value
            kind = S.int("sfkind", 0, 3)
            sf.trace_strings = [] if kind == 0 else [TraceString(x if kind == 1 else (x + 300000) % (1 << 32),
                                                                 S.choice("fmt", ["val %d and %x", "plain", "%s %d %d %d %d %d %d", "%c"]), "file.cpp(12)")]
        return dict(entry=e, string_file=sf, lines=[])

    def pre(self, S, inp):
        return blen(field(inp['entry'], 'data')) <= 1024

    def check(self, P, inp, old, out):
        P.prove(out.returned, "returns for every entry")
        if not out.returned:
            return
        e = inp['entry']
        lines = inp['lines']
        tbh, tbl, line, hv, tag, data = (field(e, k) for k in ('tbh', 'tbl', 'line', 'hash_value', 'tag', 'data'))
        if not P.symbolic:
            P.prove(list(lines) == spec_format_entry_native(e, inp['string_file']),
                    "entry lines == timestamp/seq/line/message [+ partial-match warning] [+ indented hex dump of the data]")
            return
        ctx = P.ctx
        j = ufun('ts_lookup', z3.IntSort(), z3.IntSort())(zint(hv))
        n, h = tsf_env()
        head = []
        if branch(j == -1):
            message = cat('No trace string found with hash value ', fmt(hv, 'd'))
            partial = False
            none = True
        else:
            none = False
            ts = mk_trace_strings(ctx).elem(j)
            binary = branch(Eq(tag, 0x4644))
            args = () if binary else spec_args(data)
            message = spec_pct(field(ts, 'message_format'), args)
            partial = branch(ts_partial(j, zint(hv)))
        head.append(cat(spec_ts(tbh), ' ', fmt(tbl, 'X', 4, '0'), ' ', fmt(line, 'd', 5, ' '), ' ', message))
        if partial:
            head.append(cat(INDENT, 'Warning: Partial match with trace string from ', field(mk_trace_strings(ctx).elem(j), 'location')))
        dump = none or partial or branch(Eq(tag, 0x4644))
        if not dump:
            P.prove(Eq(lines, head), "entry lines == first line [+ warning]; no hex dump for a plain exact match")
            return
        inv = [v for v in ctx.invariants.values() if isinstance(v, IndentInv)][0]
        hd = spec_hexdump_term(data)
        from pyvc.seq import seq_len
        P.prove(list_term(lines) == inv.fn(ctx).at(seq_len(hd)),
                "entry lines == first line [+ warning] + every hex-dump line of the data, indented, in order")
        P.prove(inv.fn(ctx).at(0) == list_term(head), "the lines before the dump are the first line [+ warning]")


def spec_args(data):
    n = blen(data)
    out = []
    for j in range(5):
        if branch(4 * (j + 1) <= n):
            out.append(be(data, 4 * j, 4))
        else:
            break
    return tuple(out)


def spec_format_entry_native(e, sf):
    from pel.hexdump import hexdump
    x = e.hash_value
    exact = [s for s in sf.trace_strings if s.hash_value == x]
    part = [s for s in sf.trace_strings if s.hash_value != x and s.hash_value % 100000 == x % 100000]
    ts = exact[0] if exact else (part[-1] if part else None)
    binary = e.tag == 0x4644
    data = bytes(e.data)
    if ts is None:
        message = 'No trace string found with hash value %d' % x
    else:
        message = spec_pct(ts.message_format, () if binary else spec_args(data))
    out = ["%s %04X %5d %s" % (spec_ts(e.tbh, reveal=True), e.tbl, e.line, message)]
    partial = ts is not None and not exact
    if partial:
        out.append(INDENT + 'Warning: Partial match with trace string from ' + ts.location)
    if binary or ts is None or partial:
        out.extend(INDENT + l for l in hexdump(memoryview(data)))
    return out


# ---- the reader of the trace string file, for any file
def v_trace_string(h, msg, loc):
    return ufun('v_trace_string', z3.IntSort(), PyStr, PyStr, Val)(zint(h), str_term(msg), str_term(loc))


def ts_objs_term(lst):
    """Val term of a list of TraceString objects (opaque prefix allowed)"""
    out = []
    for x in lst:
        if isinstance(x, Chunk):
            out.append(x)
        else:
            out.append(v_trace_string(field(x, 'hash_value'), field(x, 'message_format'), field(x, 'location')))
    return list_term(out)


def strip_ws(t):
    return mkstr([Opq(ufun('strip_ws', PyStr, PyStr)(t))])


class StringFileInv(LoopInv):
    """trace_strings == T(k); for line k: T(k+1) = T(k) ++ [TraceString(int(group 1), strip(group 2), strip(group 3))] if the
    line matches the line pattern, else T(k)"""
    func = TR + "TraceStringFile.__init__"
    loop = 0
    modifies_locals = ('line', 'match')

    def fn(self, ctx):
        if not hasattr(ctx, 'tsf_fn'):
            ctx.tsf_fn = RecFn('tsf_strings', Val)
        return ctx.tsf_fn

    def heap_targets(self, it, fr):
        return [field(fr.locals['self'], 'trace_strings')]

    def step_defs(self, it, fr, k):
        ctx = it.ctx
        T = self.fn(ctx)
        RE = lookup_qualname(TR + "TraceStringFile").cls.LINE_RE if hasattr(lookup_qualname(TR + "TraceStringFile"), 'cls') else None
        if RE is None:
            import io_drawer.trace as TM
            RE = TM.TraceStringFile.LINE_RE
        line = file_line(fr.locals['string_file_path'], k)
        m = re_pred(RE, line)
        h = ufun('int_of_str', PyStr, z3.IntSort(), z3.IntSort())(re_grp(RE, 1, line), I(10))
        item = v_trace_string(h, strip_ws(re_grp(RE, 2, line)), strip_ws(re_grp(RE, 3, line)))
        T.unfold(ctx, k, lambda prev, kk: z3.If(m, v_snoc(prev, item), prev))

    def entry_defs(self, it, fr):
        ctx = it.ctx
        if not getattr(ctx, 'tsf_base', False):
            ctx.tsf_base = True
            self.fn(ctx).define_base(ctx, v_nil())

    def havoc(self, it, fr, i):
        self.entry_defs(it, fr)
        field(fr.locals['self'], 'trace_strings')[:] = [Chunk(it.ctx.fresh('tsf_so_far', Val))]

    def inv(self, it, fr, i):
        self.entry_defs(it, fr)
        T = self.fn(it.ctx)
        if not isinstance(i, int) or i > 0:
            self.step_defs(it, fr, simp(zint(i) - 1))
        return ts_objs_term(field(fr.locals['self'], 'trace_strings')) == T.at(i)


def gen_string_file_text(rng):
    def entry(rng):
        msg = ''.join(rng.choice("abc %d%s|>:_-") for _ in range(rng.randrange(0, 12)))
        loc = ''.join(rng.choice("abc.()12 ") for _ in range(rng.randrange(0, 8)))
        return rng.choice(['%d||%s||%s', '  %d  || %s || %s  ', '%d||%s||%s||extra']) % (rng.randrange(0, 10 ** rng.randrange(1, 11)), msg, loc)
    junk = ["", "# comment", "12x||a||b", "||a||b", "123|a|b", "-5||neg||x.c(1)"]
    out = [rng.choice(junk) if rng.random() < 0.25 else entry(rng) for _ in range(rng.randrange(0, 10))]
    txt = ''.join(l + "\n" for l in out)
    if out and rng.random() < 0.2:
        txt = txt[:-1]
    return txt


class StringFileInit(Unit):
    """TraceStringFile(path) for a file of any number of arbitrary lines: the trace strings are exactly the lines that match the
    line pattern, in file order, each with hash = int(group 1), message / location = groups 2 / 3 without surrounding blanks"""
    prop = "C15"
    name = "TraceStringFile.__init__"
    target = TR + "TraceStringFile.__init__"
    contracts = []
    invariants = [StringFileInv]
    env = LinesEnv
    min_obligations = 4

    def inputs(self, S):
        if S.symbolic:
            return dict(self=Obj(lookup_qualname(TR + "TraceStringFile"), {}), string_file_path="strings.txt")
        return native_text_file_input(S, 'string_file_path', gen_string_file_text)

    def call_native(self, inp):
        from io_drawer.trace import TraceStringFile
        return with_text_file(inp['_text'], lambda p: TraceStringFile(p).trace_strings)

    def check(self, P, inp, old, out):
        P.prove(out.returned, "returns for every file")
        if not out.returned:
            return
        if not P.symbolic:
            from io_drawer.trace import TraceStringFile
            want = []
            for line in inp['_text'].splitlines(True):
                m = TraceStringFile.LINE_RE.fullmatch(line)
                if m:
                    want.append((int(m.group(1)), m.group(2).strip(), m.group(3).strip()))
            P.prove([(t.hash_value, t.message_format, t.location) for t in out.value] == want,
                    "trace strings == the matching lines, in file order (hash, message, location)")
            return
        ctx = P.ctx
        T = [v for v in ctx.invariants.values()][0].fn(ctx)
        m = ctx.ghost.get(StringFileInv.func + '#loop0.exit_index')
        how = ctx.ghost.get(StringFileInv.func + '#loop0.exit')
        P.prove(m is not None and how == 'exhausted', "every line of the file is read")
        if m is None:
            return
        n = ufun('file_nlines', PyStr, z3.IntSort())(str_term(inp['string_file_path']))
        P.prove(Eq(m, n), "up to the last line")
        P.prove(ts_objs_term(field(inp['self'], 'trace_strings')) == T.at(m),
                "trace strings == the matching lines, in file order (hash, message, location)")
        P.prove([e for e in ctx.fs if e[0] != 'open_r'] == [], "the file is only read")
        P.prove(len([e for e in ctx.fs if e[0] == 'open_r']) == 1, "and it is read at this construction (no remembered strings)")


TRACE_UNITS = [HeaderRead, EntryRead, GetArgs, IsMatch, TSGetMessage, GetTraceString, BufferRead, FormatEntry, StringFileInit]
UNITS = HLOG_UNITS + ILOG_UNITS + TRACE_UNITS


# ---- parse_trace_data
def v_entry_lines(pos):
    """opaque: the lines _format_trace_entry produces for the entry at `pos` (defined in the FormatEntry unit)"""
    return ufun('spec_trace_entry_lines', z3.IntSort(), Val)(zint(pos))


class CTraceStringFile(Contract):
    """assumed (file grammar bounded-only): the trace strings of the file, arbitrary but fixed"""
    target = TR + "TraceStringFile"

    def model(self, it, path):
        it.ctx.emit('fs', ('open_r', path))      # the strings are read from the file whenever a TraceStringFile is built
        o = Obj(lookup_qualname(TR + "TraceStringFile"), dict(string_file_path=path))
        it.ctx.new_ids.add(id(o))
        return o


class CBufferRead(Contract):
    """TraceBuffer.read as proved above: header fields from the bytes; entries = Pos(0..m-1)"""
    target = TR + "TraceBuffer.read"

    def model(self, it, b, stream):
        ctx = it.ctx
        d, o, size = field(stream, 'data'), field(stream, 'index'), field(stream, 'size')
        if not ctx.decide(zint(o) + 32 <= zint(size)):
            return False
        h = Obj(lookup_qualname(TR + "TraceBufferHeader"), {})
        CHeaderRead().model(it, h, stream)
        b.header = h
        m = z3.Int('tr_count')
        ctx.assume(m >= 0)
        pos = z3.Function('tr_pos', z3.IntSort(), z3.IntSort())
        ci = lookup_qualname(TR + "TraceEntry")

        def elem(j):
            j = simp(zint(j))
            return Obj(ci, dict(_pos=pos(j), _term=v_entry(pos(j))))
        b.entries = LazySeq(m, elem, 'trace_entries')
        c = ctx.fresh('cursor_after_buffer', 'int')
        ctx.assume(z3.And(c >= 0, c <= zint(size)))
        stream.index = c
        return True


class CFormatEntry(Contract):
    target = TR + "_format_trace_entry"

    def model(self, it, entry, string_file, lines):
        it.note_write(lines, None, "lines")
        lines.append(Chunk(v_entry_lines(field(entry, '_pos'))))
        return None


class TraceLinesInv(LoopInv):
    func = TR + "parse_trace_data"
    loop = 0
    modifies_locals = ('entry',)

    def fn(self, ctx):
        if not hasattr(ctx, 'tl_fn'):
            ctx.tl_fn = RecFn('trace_lines', Val)
        return ctx.tl_fn

    def heap_targets(self, it, fr):
        return [fr.locals['lines']]

    def base(self, it, fr):
        ctx = it.ctx
        if not ctx.ghost.get('tl_base'):
            ctx.ghost['tl_base'] = True
            ctx.ghost['tl_head'] = list(fr.locals['lines'])
            self.fn(ctx).define_base(ctx, list_term(list(fr.locals['lines'])))

    def havoc(self, it, fr, i):
        self.base(it, fr)
        fr.locals['lines'][:] = [Chunk(it.ctx.fresh('tlines_so_far', Val))]

    def inv(self, it, fr, i):
        self.base(it, fr)
        return list_term(fr.locals['lines']) == self.fn(it.ctx).at(i)

    def unfold(self, it, fr, i):
        from pyvc.seq import v_cat
        ctx = it.ctx
        pos = z3.Function('tr_pos', z3.IntSort(), z3.IntSort())
        self.fn(ctx).unfold(ctx, i, lambda prev, k: v_cat(prev, v_entry_lines(pos(zint(i)))))


class ParseTrace(Unit):
    prop = "C15"
    name = "parse_trace_data"
    target = TR + "parse_trace_data"
    contracts = DS_CONTRACTS + [CHexdump, CTraceStringFile, CBufferRead, CFormatEntry]
    invariants = [TraceLinesInv]

    def inputs(self, S):
        if S.symbolic:
            path = "strings"
        else:
            import io_drawer, os
            path = os.path.join(os.path.dirname(io_drawer.__file__), S.choice("sf", ["mexStringFile", "nimitzStringFile"]))
        if hasattr(S, 'rng'):
            data = gen_trace_buffer(S.rng)
            S.log['data'] = data.hex()
            return dict(data=memoryview(data), string_file_path=path)
        return dict(data=S.bytes("data", kind='memoryview'), string_file_path=path)

    def check(self, P, inp, old, out):
        P.prove(out.returned, "returns for every input")
        if not out.returned:
            return
        d = inp['data']
        if not P.symbolic:
            P.prove(list(out.value) == spec_trace_native(d, inp['string_file_path']),
                    "output == header lines + the lines of every entry in order; or the notice + lossless hex dump")
            return
        ctx = P.ctx
        n = blen(d)
        if branch(Not(32 <= n)):
            P.prove(Eq(out.value, ['Unable to parse trace data.', Chunk(spec_hexdump_term(d))]),
                    "no header: notice followed by the hex dump of the whole input")
            return
        inv = [v for v in ctx.invariants.values() if isinstance(v, TraceLinesInv)][0]
        m = z3.Int('tr_count')
        P.prove(list_term(out.value) == inv.fn(ctx).at(m), "output == header lines followed by the lines of entries 0..m-1 in order")
        comp = mkstr([Opq(ufun('spec_comp', Val, z3.IntSort(), PyStr)(val_term(field_data(d)), I(4)))])
        head = [cat('Component: ', comp), cat('Version: ', fmt(be(d, 0, 1), 'd')), cat('Size: ', fmt(be(d, 20, 4), 'd')),
                cat('Times Wrapped: ', fmt(be(d, 24, 4), 'd')), '', 'HH:MM:SS Seq  Line  Entry Data', '-------- ---- ----- ----------']
        P.prove(Eq(ctx.ghost.get('tl_head'), head), "header lines name component, version, size and wrap count from the header bytes")


def field_data(d):
    return d


def spec_trace_native(data, path):
    from pel.hexdump import hexdump
    from io_drawer.trace import TraceStringFile
    data = bytes(data)
    if path not in _TABLE_CACHE:
        _TABLE_CACHE[path] = TraceStringFile(path)
    sf = _TABLE_CACHE[path]
    ents = spec_entries_native(data, 0, len(data))
    if ents is None:
        return ['Unable to parse trace data.'] + hexdump(memoryview(data))
    lines = ['Component: ' + spec_comp(data, 4), 'Version: %d' % data[0], 'Size: %d' % be(data, 20, 4),
             'Times Wrapped: %d' % be(data, 24, 4), '', 'HH:MM:SS Seq  Line  Entry Data', '-------- ---- ----- ----------']

    class E:
        pass
    for (tbh, tbl, length, tag, hv, line, dat) in ents:
        e = E()
        e.tbh, e.tbl, e.tag, e.hash_value, e.line, e.data = tbh, tbl, tag, hv, line, dat
        lines.extend(spec_format_entry_native(e, sf))
    return lines


TRACE_UNITS = [HeaderRead, EntryRead, GetArgs, IsMatch, TSGetMessage, GetTraceString, BufferRead, FormatEntry, ParseTrace]
UNITS = HLOG_UNITS + ILOG_UNITS + TRACE_UNITS


def trace_grammar_bounded(tier, seed):
    """TraceStringFile.__init__/_add_trace_string (file grammar): bounded stand-in"""
    import random, tempfile, os, time, shutil
    import io_drawer
    from io_drawer.trace import TraceStringFile
    t0 = time.time()
    rng = random.Random(seed)
    base = os.path.dirname(io_drawer.__file__)
    bad = None
    evals = 0
    for fn, cnt in (("mexStringFile", 709), ("nimitzStringFile", 679)):
        t = TraceStringFile(os.path.join(base, fn))
        evals += 1
        if len(t.trace_strings) != cnt:
            bad = dict(case="shipped " + fn, got=len(t.trace_strings), want=cnt)
    n = 200 if tier == 'quick' else 2000
    d = tempfile.mkdtemp(prefix="pyvc_trace_")
    try:
        for k in range(n):
            if bad:
                break
            want = []
            txt = "#FSP_TRACE_v2|||date|||BUILD:Release\n"
            for j in range(rng.randrange(0, 10)):
                h = rng.randrange(0, 1 << 32)
                msg = ''.join(rng.choice("abc XYZ%d%x%s:-_.,()|>") for _ in range(rng.randrange(1, 24))).strip() or "m"
                if '||' in msg:
                    msg = msg.replace('||', '|.')
                loc = "file%d.cpp(%d)" % (j, rng.randrange(1, 999))
                want.append((h, msg, loc))
                txt += "%s%d%s||%s%s||%s\n" % (' ' * rng.randrange(0, 2), h, ' ' * rng.randrange(0, 2), ' ' * rng.randrange(0, 2),
                                               msg, loc)
                if rng.random() < 0.2:
                    txt += "not a trace string line\n"
            p = os.path.join(d, "sf")
            with open(p, "w") as f:
                f.write(txt)
            got = [(s.hash_value, s.message_format, s.location) for s in TraceStringFile(p).trace_strings]
            evals += 1
            if got != want:
                bad = dict(case="generated string file", text=txt, got=got[:4], want=want[:4])
    finally:
        shutil.rmtree(d, ignore_errors=True)
    ob = dict(name="TraceStringFile grammar: trace strings of the file, in order (bounded)", kind='B', solver='bounded',
              status='failed' if bad else 'discharged', evaluations=evals, secs=time.time() - t0,
              bound="2 shipped string files (709/679 strings) + %d generated files of 0..9 strings" % n)
    if bad:
        ob['replay'] = dict(kind='custom', reproduced=True, native=bad, input=bad)
        ob['detail'] = str(bad)[:500]
    return [ob], {}
