"""I/O drawer decoders: history log (C16), ILOG (C14), trace (C15)."""
import z3

from contracts.common import *
from pyvc.unit import Unit, Contract, LoopInv
from pyvc.seq import Chunk, list_term, val_term, RecFn, Val, v_snoc, v_nil
from pyvc.models import LazySeq
from pyvc.values import Opq, I

IO = "io_drawer."


# ------------------------------------------------------------------ shared callee contracts
def spec_hexdump_term(data, bpl=16, bpc=4):
    """opaque spec function: the hex dump lines of `data` (defined and proved lossless in C13)"""
    return ufun('spec_hexdump', Val, z3.IntSort(), z3.IntSort(), Val)(val_term(data), zint(bpl), zint(bpc))


class CHexdump(Contract):
    target = "pel.hexdump.hexdump"

    def model(self, it, data, bytes_per_line=16, bytes_per_chunk=4):
        it.ctx.new_ids.add(0)
        l = [Chunk(spec_hexdump_term(data, bytes_per_line, bytes_per_chunk))]
        it.ctx.new_ids.add(id(l))
        return l


# ------------------------------------------------------------------ C16 history log
def hlog_env(ctx):
    """the field table: arbitrary, fixed (A3): n fields, names opaque, sizes in {1,2}"""
    n = z3.Int('hl_nfields')
    fname = z3.Function('hl_fname', z3.IntSort(), PyStr)
    fsize = z3.Function('hl_fsize', z3.IntSort(), z3.IntSort())
    return n, fname, fsize


class CGetHlogFields(Contract):
    """assumed (file grammar is bounded-only): returns the declared fields in order, each (name, size in {1,2})"""
    target = IO + "hlog.get_hlog_fields"

    def model(self, it, header_file_path):
        ctx = it.ctx
        from io_drawer.hlog import HistoryLogField
        n, fname, fsize = hlog_env(ctx)
        ctx.assume(n >= 0)

        def elem(j):
            sz = fsize(zint(j))
            ctx.assume(z3.Or(sz == 1, sz == 2))
            size = 1 if ctx.decide(sz == 1) else 2
            return HistoryLogField(mkstr([Opq(fname(zint(j)))]), size)
        return LazySeq(n, elem, 'hlog_fields')


def hlog_line_term(name_t, value, size):
    return val_term(cat(mkstr([Opq(name_t)]), ": 0x", fmt(value, 'X', 2 * size, '0')))


class HlogInv(LoopInv):
    func = IO + "hlog.parse_hlog_data"
    loop = 0
    modifies_locals = ('field', 'value')

    def __init__(self):
        self.Off = None

    def fns(self, ctx):
        if not hasattr(ctx, 'hl_fns'):
            Off = RecFn('hl_off', z3.IntSort())
            L = RecFn('hl_lines', Val)
            ctx.hl_fns = (Off, L)
        return ctx.hl_fns

    def heap_targets(self, it, fr):
        return [fr.locals['lines'], (fr.locals['stream'], 'index')]

    def step_defs(self, it, fr, k):
        """definitional equations for Off(k+1), L(k+1)"""
        ctx = it.ctx
        Off, L = self.fns(ctx)
        n, fname, fsize = hlog_env(ctx)
        d = field(fr.locals['stream'], 'data')
        sz = fsize(zint(k))
        Off.unfold(ctx, k, lambda prev, kk: prev + sz)
        v1 = be(d, Off.at(k), 1)
        v2 = be(d, Off.at(k), 2)
        line1 = hlog_line_term(fname(zint(k)), v1, 1)
        line2 = hlog_line_term(fname(zint(k)), v2, 2)
        L.unfold(ctx, k, lambda prev, kk: z3.If(sz == 1, z3.If(v1 != 0, v_snoc(prev, line1), prev),
                                                 z3.If(v2 != 0, v_snoc(prev, line2), prev)))

    def entry_defs(self, it, fr):
        ctx = it.ctx
        Off, L = self.fns(ctx)
        if not getattr(ctx, 'hl_base', False):
            ctx.hl_base = True
            Off.define_base(ctx, I(0))
            L.define_base(ctx, list_term(list(fr.locals['lines'])))

    def havoc(self, it, fr, i):
        ctx = it.ctx
        self.entry_defs(it, fr)
        s = fr.locals['stream']
        s.index = ctx.fresh('hl_cursor', 'int')
        lines = fr.locals['lines']
        lines[:] = [Chunk(ctx.fresh('hl_lines_so_far', Val))]

    def inv(self, it, fr, i):
        ctx = it.ctx
        self.entry_defs(it, fr)
        Off, L = self.fns(ctx)
        s = fr.locals['stream']
        if not isinstance(i, int) or i > 0:
            # unfolding for the step i-1 -> i is needed when proving preservation; harmless otherwise
            self.step_defs(it, fr, simp(zint(i) - 1))
        return And(Eq(field(s, 'index'), Off.at(i)), list_term(fr.locals['lines']) == L.at(i),
                   field(s, 'index') >= 0, field(s, 'index') <= field(s, 'size'))


class ParseHlog(Unit):
    prop = "C16"
    name = "parse_hlog_data"
    target = IO + "hlog.parse_hlog_data"
    contracts = DS_CONTRACTS + [CHexdump, CGetHlogFields]
    invariants = [HlogInv]

    def inputs(self, S):
        if S.symbolic:
            path = "fields.h"
        else:
            import io_drawer, os
            path = os.path.join(os.path.dirname(io_drawer.__file__), S.choice("table", ["mex_pte.h", "nimitz_pte.h"]))
        return dict(data=S.bytes("data", kind='memoryview'), header_file_path=path)

    def check(self, P, inp, old, out):
        P.prove(out.returned, "returns for every input")
        if not out.returned:
            return
        if not P.symbolic:
            P.prove(list(out.value) == spec_hlog_native(inp['data'], inp['header_file_path']),
                    "output == hex dump of all bytes + one line per non-zero field, in order, stopping at the first field that does not fit")
            return
        ctx = P.ctx
        inv = [v for v in ctx.invariants.values()][0]
        Off, L = inv.fns(ctx)
        n, fname, fsize = hlog_env(ctx)
        m = ctx.ghost.get(HlogInv.func + '#loop0.exit_index')
        how = ctx.ghost.get(HlogInv.func + '#loop0.exit')
        P.prove(m is not None, "the field loop was reached")
        if m is None:
            return
        P.prove(list_term(out.value) == L.at(m),
                "output == hex dump of all bytes + one line per non-zero field among the first m, in order")
        ln = blen(inp['data'])
        if how == 'exhausted':
            P.prove(Eq(m, n), "all declared fields were consumed")
        else:
            P.prove(Off.at(m) + fsize(zint(m)) > ln, "listing stopped at a field that does not fit in the data")
        P.prove(And(Off.at(m) >= 0, Off.at(m) <= ln), "fields were consumed contiguously from offset 0 within the data")


def spec_hlog_native(data, path):
    from pel.hexdump import hexdump
    from io_drawer.hlog import get_hlog_fields
    data = bytes(data)
    lines = ['Hex Dump', '--------'] + hexdump(memoryview(data)) + ['', 'Non-Zero Field Values', '---------------------']
    off = 0
    for f in get_hlog_fields(path):
        if off + f.size > len(data):
            break
        v = int.from_bytes(data[off:off + f.size], 'big')
        off += f.size
        if v != 0:
            lines.append("%s: 0x%0*X" % (f.name, 2 * f.size, v))
    return lines


HLOG_UNITS = [ParseHlog]
UNITS = list(HLOG_UNITS)


# ------------------------------------------------------------------ bounded: the header-file grammar of the field table
def hlog_grammar_bounded(tier, seed):
    """get_hlog_fields is an assumed contract in the proof (regex parsing of a text file is outside the
    verifier's subset).  Bounded stand-in: shipped tables + generated tables against an independent reader."""
    import random, tempfile, os, time
    import io_drawer
    from io_drawer.hlog import get_hlog_fields
    t0 = time.time()
    rng = random.Random(seed)
    n = 300 if tier == 'quick' else 3000
    evals = 0
    bad = None
    base = os.path.dirname(io_drawer.__file__)
    for fn, cnt, total in (("mex_pte.h", 38, 46), ("nimitz_pte.h", 38, 46)):
        fs = get_hlog_fields(os.path.join(base, fn))
        evals += 1
        if len(fs) != cnt or sum(f.size for f in fs) != total or any(f.size not in (1, 2) for f in fs):
            bad = dict(case="shipped " + fn, got=[tuple(f) for f in fs][:5], want="%d fields / %d bytes" % (cnt, total))
    alphabet = "abcXYZ_019 -.:/()[]#*%'\\,;{}"
    d = tempfile.mkdtemp(prefix="pyvc_hlog_")
    try:
        for k in range(n):
            if bad:
                break
            m = rng.randrange(0, 12)
            want = []
            body = []
            for j in range(m):
                size = rng.choice([1, 2])
                name = ''.join(rng.choice(alphabet) for _ in range(rng.randrange(1, 14)))
                want.append((name, size))
                sp = lambda: ' ' * rng.randrange(0, 3)
                comma = ',' if (j < m - 1 or rng.random() < 0.5) else ''
                body.append("%s{%s%d%s,%s\"%s\"%s}%s%s\n" % (sp(), sp(), size, sp(), sp(), name, sp(), sp(), comma))
            brace_same = rng.random() < 0.5
            txt = "// generated\nint x = 3;\n"
            txt += "%sstruct mex_hlog_field mex_hlog_fields[N] =%s\n" % (rng.choice(["static ", "", "  static  "]),
                                                                       " {" if brace_same else "")
            if not brace_same:
                txt += "{\n"
            txt += ''.join(body) + "};\n{ 1, \"after_the_table\" },\n"
            p = os.path.join(d, "t.h")
            with open(p, "w") as f:
                f.write(txt)
            got = [tuple(x) for x in get_hlog_fields(p)]
            evals += 1
            if got != want:
                bad = dict(case="generated table", text=txt, got=got, want=want)
    finally:
        import shutil
        shutil.rmtree(d, ignore_errors=True)
    ob = dict(name="get_hlog_fields: fields of the header file, in order, sizes 1|2 (bounded)", kind='B', solver='bounded',
              status='failed' if bad else 'discharged', evaluations=evals, secs=time.time() - t0,
              bound="2 shipped tables + %d generated tables of 0..11 fields" % n)
    if bad:
        ob['replay'] = dict(kind='custom', reproduced=True, native=bad, input=bad)
        ob['detail'] = str(bad)[:500]
    return [ob], {}
