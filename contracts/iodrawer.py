"""I/O drawer decoders: history log (C16), ILOG (C14), trace (C15)."""
import z3

from contracts.common import *
from pyvc.unit import Unit, Contract, LoopInv
from pyvc.seq import Chunk, list_term, val_term, RecFn, Val, v_snoc, v_nil
from pyvc.models import LazySeq
from pyvc.values import Opq, I

IO = "io_drawer."


# ------------------------------------------------------------------ shared callee contracts
def spec_hexdump_term(data, bpl=16, bpc=4):
    """opaque spec function: the hex dump lines of `data` (defined and proved lossless in C13)"""
    return ufun('spec_hexdump', Val, z3.IntSort(), z3.IntSort(), Val)(val_term(data), zint(bpl), zint(bpc))


class CHexdump(Contract):
    target = "pel.hexdump.hexdump"

    def model(self, it, data, bytes_per_line=16, bytes_per_chunk=4):
        it.ctx.new_ids.add(0)
        l = [Chunk(spec_hexdump_term(data, bytes_per_line, bytes_per_chunk))]
        it.ctx.new_ids.add(id(l))
        return l


# ------------------------------------------------------------------ C16 history log
def hlog_env(ctx):
    """the field table: arbitrary, fixed (A3): n fields, names opaque, sizes in {1,2}"""
    n = z3.Int('hl_nfields')
    fname = z3.Function('hl_fname', z3.IntSort(), PyStr)
    fsize = z3.Function('hl_fsize', z3.IntSort(), z3.IntSort())
    return n, fname, fsize


class CGetHlogFields(Contract):
    """assumed (file grammar is bounded-only): returns the declared fields in order, each (name, size in {1,2})"""
    target = IO + "hlog.get_hlog_fields"

    def model(self, it, header_file_path):
        ctx = it.ctx
        from io_drawer.hlog import HistoryLogField
        n, fname, fsize = hlog_env(ctx)
        ctx.assume(n >= 0)

        def elem(j):
            sz = fsize(zint(j))
            ctx.assume(z3.Or(sz == 1, sz == 2))
            size = 1 if ctx.decide(sz == 1) else 2
            return HistoryLogField(mkstr([Opq(fname(zint(j)))]), size)
        return LazySeq(n, elem, 'hlog_fields')


def hlog_line_term(name_t, value, size):
    return val_term(cat(mkstr([Opq(name_t)]), ": 0x", fmt(value, 'X', 2 * size, '0')))


class HlogInv(LoopInv):
    func = IO + "hlog.parse_hlog_data"
    loop = 0
    modifies_locals = ('field', 'value')

    def __init__(self):
        self.Off = None

    def fns(self, ctx):
        if not hasattr(ctx, 'hl_fns'):
            Off = RecFn('hl_off', z3.IntSort())
            L = RecFn('hl_lines', Val)
            ctx.hl_fns = (Off, L)
        return ctx.hl_fns

    def heap_targets(self, it, fr):
        return [fr.locals['lines'], (fr.locals['stream'], 'index')]

    def step_defs(self, it, fr, k):
        """definitional equations for Off(k+1), L(k+1)"""
        ctx = it.ctx
        Off, L = self.fns(ctx)
        n, fname, fsize = hlog_env(ctx)
        d = field(fr.locals['stream'], 'data')
        sz = fsize(zint(k))
        Off.unfold(ctx, k, lambda prev, kk: prev + sz)
        v1 = be(d, Off.at(k), 1)
        v2 = be(d, Off.at(k), 2)
        line1 = hlog_line_term(fname(zint(k)), v1, 1)
        line2 = hlog_line_term(fname(zint(k)), v2, 2)
        L.unfold(ctx, k, lambda prev, kk: z3.If(sz == 1, z3.If(v1 != 0, v_snoc(prev, line1), prev),
                                                 z3.If(v2 != 0, v_snoc(prev, line2), prev)))

    def entry_defs(self, it, fr):
        ctx = it.ctx
        Off, L = self.fns(ctx)
        if not getattr(ctx, 'hl_base', False):
            ctx.hl_base = True
            Off.define_base(ctx, I(0))
            L.define_base(ctx, list_term(list(fr.locals['lines'])))

    def havoc(self, it, fr, i):
        ctx = it.ctx
        self.entry_defs(it, fr)
        s = fr.locals['stream']
        s.index = ctx.fresh('hl_cursor', 'int')
        lines = fr.locals['lines']
        lines[:] = [Chunk(ctx.fresh('hl_lines_so_far', Val))]

    def inv(self, it, fr, i):
        ctx = it.ctx
        self.entry_defs(it, fr)
        Off, L = self.fns(ctx)
        s = fr.locals['stream']
        if not isinstance(i, int) or i > 0:
            # unfolding for the step i-1 -> i is needed when proving preservation; harmless otherwise
            self.step_defs(it, fr, simp(zint(i) - 1))
        return And(Eq(field(s, 'index'), Off.at(i)), list_term(fr.locals['lines']) == L.at(i),
                   field(s, 'index') >= 0, field(s, 'index') <= field(s, 'size'))


class ParseHlog(Unit):
    prop = "C16"
    name = "parse_hlog_data"
    target = IO + "hlog.parse_hlog_data"
    contracts = DS_CONTRACTS + [CHexdump, CGetHlogFields]
    invariants = [HlogInv]

    def inputs(self, S):
        if S.symbolic:
            path = "fields.h"
        else:
            import io_drawer, os
            path = os.path.join(os.path.dirname(io_drawer.__file__), S.choice("table", ["mex_pte.h", "nimitz_pte.h"]))
        return dict(data=S.bytes("data", kind='memoryview'), header_file_path=path)

    def check(self, P, inp, old, out):
        P.prove(out.returned, "returns for every input")
        if not out.returned:
            return
        if not P.symbolic:
            P.prove(list(out.value) == spec_hlog_native(inp['data'], inp['header_file_path']),
                    "output == hex dump of all bytes + one line per non-zero field, in order, stopping at the first field that does not fit")
            return
        ctx = P.ctx
        inv = [v for v in ctx.invariants.values()][0]
        Off, L = inv.fns(ctx)
        n, fname, fsize = hlog_env(ctx)
        m = ctx.ghost.get(HlogInv.func + '#loop0.exit_index')
        how = ctx.ghost.get(HlogInv.func + '#loop0.exit')
        P.prove(m is not None, "the field loop was reached")
        if m is None:
            return
        P.prove(list_term(out.value) == L.at(m),
                "output == hex dump of all bytes + one line per non-zero field among the first m, in order")
        ln = blen(inp['data'])
        if how == 'exhausted':
            P.prove(Eq(m, n), "all declared fields were consumed")
        else:
            P.prove(Off.at(m) + fsize(zint(m)) > ln, "listing stopped at a field that does not fit in the data")
        P.prove(And(Off.at(m) >= 0, Off.at(m) <= ln), "fields were consumed contiguously from offset 0 within the data")


def spec_hlog_native(data, path):
    from pel.hexdump import hexdump
    from io_drawer.hlog import get_hlog_fields
    data = bytes(data)
    lines = ['Hex Dump', '--------'] + hexdump(memoryview(data)) + ['', 'Non-Zero Field Values', '---------------------']
    off = 0
    for f in get_hlog_fields(path):
        if off + f.size > len(data):
            break
        v = int.from_bytes(data[off:off + f.size], 'big')
        off += f.size
        if v != 0:
            lines.append("%s: 0x%0*X" % (f.name, 2 * f.size, v))
    return lines


HLOG_UNITS = [ParseHlog]
UNITS = list(HLOG_UNITS)


# ------------------------------------------------------------------ bounded: the header-file grammar of the field table
def hlog_grammar_bounded(tier, seed):
    """get_hlog_fields is an assumed contract in the proof (regex parsing of a text file is outside the
    verifier's subset).  Bounded stand-in: shipped tables + generated tables against an independent reader."""
    import random, tempfile, os, time
    import io_drawer
    from io_drawer.hlog import get_hlog_fields
    t0 = time.time()
    rng = random.Random(seed)
    n = 300 if tier == 'quick' else 3000
    evals = 0
    bad = None
    base = os.path.dirname(io_drawer.__file__)
    for fn, cnt, total in (("mex_pte.h", 38, 46), ("nimitz_pte.h", 38, 46)):
        fs = get_hlog_fields(os.path.join(base, fn))
        evals += 1
        if len(fs) != cnt or sum(f.size for f in fs) != total or any(f.size not in (1, 2) for f in fs):
            bad = dict(case="shipped " + fn, got=[tuple(f) for f in fs][:5], want="%d fields / %d bytes" % (cnt, total))
    alphabet = "abcXYZ_019 -.:/()[]#*%'\\,;{}"
    d = tempfile.mkdtemp(prefix="pyvc_hlog_")
    try:
        for k in range(n):
            if bad:
                break
            m = rng.randrange(0, 12)
            want = []
            body = []
            for j in range(m):
                size = rng.choice([1, 2])
                name = ''.join(rng.choice(alphabet) for _ in range(rng.randrange(1, 14)))
                want.append((name, size))
                sp = lambda: ' ' * rng.randrange(0, 3)
                comma = ',' if (j < m - 1 or rng.random() < 0.5) else ''
                body.append("%s{%s%d%s,%s\"%s\"%s}%s%s\n" % (sp(), sp(), size, sp(), sp(), name, sp(), sp(), comma))
            brace_same = rng.random() < 0.5
            txt = "// generated\nint x = 3;\n"
            txt += "%sstruct mex_hlog_field mex_hlog_fields[N] =%s\n" % (rng.choice(["static ", "", "  static  "]),
                                                                       " {" if brace_same else "")
            if not brace_same:
                txt += "{\n"
            txt += ''.join(body) + "};\n{ 1, \"after_the_table\" },\n"
            p = os.path.join(d, "t.h")
            with open(p, "w") as f:
                f.write(txt)
            got = [tuple(x) for x in get_hlog_fields(p)]
            evals += 1
            if got != want:
                bad = dict(case="generated table", text=txt, got=got, want=want)
    finally:
        import shutil
        shutil.rmtree(d, ignore_errors=True)
    ob = dict(name="get_hlog_fields: fields of the header file, in order, sizes 1|2 (bounded)", kind='B', solver='bounded',
              status='failed' if bad else 'discharged', evaluations=evals, secs=time.time() - t0,
              bound="2 shipped tables + %d generated tables of 0..11 fields" % n)
    if bad:
        ob['replay'] = dict(kind='custom', reproduced=True, native=bad, input=bad)
        ob['detail'] = str(bad)[:500]
    return [ob], {}


# =================================================================== C14 ILOG
from pyvc import ops as _ops
from pyvc.values import Raised, ExcObj, Obj, SStr, is_z3
from pyvc.interp import lookup_qualname, BoundMethod

ENTRY = IO + "ilog.PTETableEntry"


def spec_ts(t, reveal=False):
    """C14/C15 timestamp: H:MM:SS of a second counter, dashes for 0xFFFF (and anything outside 0..0xFFFE)"""
    if not reveal and is_z3(t):
        return mkstr([Opq(ufun('spec_ts', z3.IntSort(), PyStr)(t))])
    if branch(Or(t < 0, t >= 0xFFFF)):
        return '--------'
    hh, mm, ss = div(t, 3600), div(mod(t, 3600), 60), mod(t, 60)
    return cat(fmt(hh, 'd', 2, ' '), ":", fmt(mm, 'd', 2, '0'), ":", fmt(ss, 'd', 2, '0'))


class CFormatTimestamp(Contract):
    target = IO + "utils.format_timestamp"

    def model(self, it, timestamp):
        return spec_ts(timestamp)


class FormatTimestamp(Unit):
    prop = "C14"
    name = "format_timestamp"
    target = IO + "utils.format_timestamp"

    def inputs(self, S):
        return dict(timestamp=S.int("timestamp", -2, 0x10001))

    def check(self, P, inp, old, out):
        P.prove(out.returned, "returns")
        if out.returned:
            P.prove(Eq(out.value, spec_ts(inp['timestamp'], reveal=True)), "result == H:MM:SS of the counter, dashes for 0xFFFF")


def spec_reported(pte):
    """error PTE (top nibble 0xE) with the reported flag 0x00040000"""
    return And(Eq(shr(pte, 28), 0xE), bit(pte, 0x00040000))


def low(c):
    if is_z3(c):
        return z3.If(z3.And(c >= 65, c <= 90), c + 32, c)
    return ord(chr(c).lower()) if c < 128 else c


def chars_of(s):
    if isinstance(s, str):
        return [ord(c) for c in s]
    return list(s.segs)


def spec_wild(pattern, text):
    """wildcard match: same length, '*' matches any one character, hex digits case-insensitively"""
    p, t = chars_of(pattern), chars_of(text)
    if len(p) != len(t):
        return False
    return And(*[Or(Eq(a, 42), Eq(low(a), low(b))) for a, b in zip(p, t)])


def hex8(pte):
    return fmt(pte, 'X', 8, '0')


def pattern_ok(pat):
    return And(*[Or(_ops.is_hexdigit(c) if is_z3(c) else chr(c) in "0123456789abcdefABCDEF", Eq(c, 42)) for c in chars_of(pat)])


class _EntryUnit(Unit):
    prop = "C14"
    method = None
    plen = 8
    nparams = (0, 1, 2)

    def inputs(self, S):
        n = S.choice("plen", [8, 7]) if self.plen is None else self.plen
        k = S.choice("nparams", list(self.nparams))
        params = tuple(S.int("p%d" % j, -1, 6) for j in range(k))
        return dict(pte_pattern=S.text("pattern", n), message_format=S.opaque_str("format"), params=params,
                    file="f.cpp", line=7, pte=S.int("pte", 0, 0xFFFFFFFF))

    def pre(self, S, inp):
        return pattern_ok(inp['pte_pattern'])

    def call(self, it, inp):
        ci = lookup_qualname(ENTRY)
        e = it.call(ci, [inp['pte_pattern'], inp['message_format'], inp['params'], inp['file'], inp['line']])
        if self.method is None:
            return e
        return it.call(BoundMethod(e, ci.find_method(self.method)), [inp['pte']])

    def call_native(self, inp):
        from io_drawer.ilog import PTETableEntry
        e = PTETableEntry(inp['pte_pattern'], inp['message_format'], inp['params'], inp['file'], inp['line'])
        if self.method is None:
            return e
        return getattr(e, self.method)(inp['pte'])


class EntryInit(_EntryUnit):
    name = "PTETableEntry.__init__"
    target = ENTRY + ".__init__"
    nparams = (0, 1, 2, 3)

    def check(self, P, inp, old, out):
        P.prove(out.returned, "constructor returns")
        if out.returned:
            e = out.value
            want = tuple(p for p in inp['params'] if branch(And(p >= 1, p <= 4)))
            P.prove(Eq(tuple(field(e, 'params')), want), "params == the given parameters within 1..4, in order")
            P.prove(Eq(field(e, 'message_format'), inp['message_format']), "message format stored unchanged")


class ReportedErr(_EntryUnit):
    name = "PTETableEntry._is_reported_error_pte"
    target = ENTRY + "._is_reported_error_pte"
    method = "_is_reported_error_pte"
    nparams = (0,)

    def check(self, P, inp, old, out):
        P.prove(out.returned, "returns")
        if out.returned:
            P.prove(Iff(truth(out.value), spec_reported(inp['pte'])), "reported error iff top nibble 0xE and bit 0x00040000")


class ExactMatch(_EntryUnit):
    name = "PTETableEntry._is_exact_match"
    target = ENTRY + "._is_exact_match"
    method = "_is_exact_match"
    plen = None
    nparams = (0,)

    def check(self, P, inp, old, out):
        P.prove(out.returned, "returns")
        if out.returned:
            P.prove(Iff(truth(out.value), spec_wild(inp['pte_pattern'], hex8(inp['pte']))),
                    "exact match iff the wildcard pattern matches the PTE written as 8 upper-case hex digits")


def spec_matches(pattern, pte):
    cleared = pte - band(pte, 0x00040000)
    return Or(spec_wild(pattern, hex8(pte)), And(spec_reported(pte), spec_wild(pattern, hex8(cleared))))


class Matches(_EntryUnit):
    name = "PTETableEntry.matches"
    target = ENTRY + ".matches"
    method = "matches"
    plen = None
    nparams = (0,)

    def check(self, P, inp, old, out):
        P.prove(out.returned, "returns")
        if out.returned:
            P.prove(Iff(truth(out.value), spec_matches(inp['pte_pattern'], inp['pte'])),
                    "matches iff the pattern matches the PTE as is, or - reported error - with the reported flag cleared")


def spec_message(fmt_, params, pte):
    """message: format % (designated PTE bytes), or the bare format when formatting fails; suffix iff reported"""
    bs = [band(shr(pte, 24), 0xFF), band(shr(pte, 16), 0xFF), band(shr(pte, 8), 0xFF), band(pte, 0xFF)]
    args = []
    for p in params:
        for k in (1, 2, 3, 4):
            if branch(Eq(p, k)):
                args.append(bs[k - 1])
                break
    args = tuple(args)
    if isinstance(fmt_, str):
        try:
            msg = fmt_ % args
        except Exception:
            msg = fmt_
    else:
        ok, res, et, em = _ops.format_terms(cur(), 'pct', fmt_, args)
        msg = mkstr([Opq(res)]) if branch(ok) else fmt_
    if branch(spec_reported(pte)):
        msg = cat(msg, ' - PEL entry created')
    return msg


class GetMessage(_EntryUnit):
    name = "PTETableEntry.get_message"
    target = ENTRY + ".get_message"
    method = "get_message"
    nparams = (0, 1, 2)

    def pre(self, S, inp):
        return And(pattern_ok(inp['pte_pattern']), *[And(p >= 1, p <= 4) for p in inp['params']])

    def check(self, P, inp, old, out):
        P.prove(out.returned, "returns for every PTE and every format/argument mismatch")
        if out.returned:
            P.prove(Eq(out.value, spec_message(inp['message_format'], inp['params'], inp['pte'])),
                    "message == format % designated PTE bytes (bare format on mismatch) + suffix iff reported error")


# ---- table search: first match in header-file order
TABLE = IO + "ilog.PTETable"


def table_env():
    n = z3.Int('pt_nentries')
    m = z3.Function('pt_matches', z3.IntSort(), z3.IntSort(), z3.BoolSort())   # (entry index, pte)
    return n, m


class CMatches(Contract):
    """abstract: entry j matches pte iff pt_matches(j, pte) (the definition is proved in the Matches unit)"""
    target = ENTRY + ".matches"

    def model(self, it, entry, pte):
        n, m = table_env()
        return m(zint(field(entry, 'idx')), zint(pte))


def mk_entries(ctx):
    n, m = table_env()
    ctx.assume(n >= 0)
    ci = lookup_qualname(ENTRY)
    return LazySeq(n, lambda j: Obj(ci, dict(idx=simp(zint(j)))), 'pte_entries')


class GetEntryInv(LoopInv):
    func = TABLE + ".get_entry"
    loop = 0
    modifies_locals = ('entry',)

    def inv(self, it, fr, i):
        n, m = table_env()
        k = z3.Int('k!ge')
        pte = fr.locals['pte']
        return z3.ForAll([k], z3.Implies(z3.And(k >= 0, k < zint(i)), z3.Not(m(k, zint(pte)))))


class GetEntry(Unit):
    prop = "C14"
    name = "PTETable.get_entry"
    target = TABLE + ".get_entry"
    contracts = [CMatches]
    invariants = [GetEntryInv]

    def inputs(self, S):
        if S.symbolic:
            t = S.obj(TABLE, header_file_path="t.h", entries=mk_entries(S.ctx))
        else:
            r = S.int("pte_choice", 0, 3)
            base = S.int("pte", 0, 0xFFFFFFFF)
            pte = (base | 0xE0040000) & 0xFFFFFFFF if r else base
            return dict(self=native_table(S, pte), pte=pte)
        return dict(self=t, pte=S.int("pte", 0, 0xFFFFFFFF))

    def check(self, P, inp, old, out):
        P.prove(out.returned, "returns")
        if not out.returned:
            return
        if not P.symbolic:
            t = inp['self']
            first = None
            for e in t.entries:
                if native_spec_matches(e.pte_pattern, inp['pte']):
                    first = e
                    break
            P.prove(out.value is first, "result is the first entry, in table order, that matches; None if none does")
            return
        n, m = table_env()
        pte = zint(inp['pte'])
        k = z3.Int('k!gep')
        if out.value is None:
            P.prove(z3.ForAll([k], z3.Implies(z3.And(k >= 0, k < n), z3.Not(m(k, pte)))), "None only if no entry matches")
        else:
            j = zint(field(out.value, 'idx'))
            P.prove(z3.And(j >= 0, j < n, m(j, pte)), "the returned entry is in the table and matches")
            P.prove(z3.ForAll([k], z3.Implies(z3.And(k >= 0, k < j), z3.Not(m(k, pte)))), "no earlier entry matches (first match)")


def native_spec_matches(pattern, pte):
    return bool(spec_matches(pattern, pte))


def native_table(S, pte):
    """a synthetic table with overlapping wildcard patterns around one PTE (native replay / bounded companion):
    patterns are wildcarded variants of the PTE as stored and with the reported flag cleared"""
    from io_drawer.ilog import PTETable, PTETableEntry
    t = object.__new__(PTETable)
    t.header_file_path = "t.h"
    k = S.int("ntab", 0, 6)
    pats = []
    for j in range(k):
        kind = S.int("kind%d" % j, 0, 3)
        mask = S.int("mask%d" % j, 0, 255)
        base = pte if kind in (0, 3) else (pte & ~0x00040000) if kind == 1 else (pte ^ 0x01000000)
        s = "%08X" % (base & 0xFFFFFFFF)
        pat = ''.join('*' if (mask >> i) & 1 else c for i, c in enumerate(s))
        pats.append(pat.lower() if kind == 3 else pat)
    t.entries = [PTETableEntry(p, "m%d %%d" % i, (4,), "f", i) for i, p in enumerate(pats)]
    return t


ILOG_UNITS = [FormatTimestamp, EntryInit, ReportedErr, ExactMatch, Matches, GetMessage, GetEntry]
UNITS = HLOG_UNITS + ILOG_UNITS


# ---- parse_ilog_data: one line per non-zero 8-byte entry, in order
def ilog_env():
    eidx = z3.Function('pt_first_match', z3.IntSort(), z3.IntSort())     # pte -> index of first matching entry, -1
    msg = z3.Function('pt_message', z3.IntSort(), z3.IntSort(), PyStr)   # (entry index, pte) -> message
    return eidx, msg


class CPTETable(Contract):
    """assumed (file grammar is bounded-only): the table read from the header file, arbitrary but fixed"""
    target = TABLE

    def model(self, it, header_file_path):
        o = Obj(lookup_qualname(TABLE), dict(header_file_path=header_file_path))
        it.ctx.new_ids.add(id(o))
        return o


class CGetEntry(Contract):
    target = TABLE + ".get_entry"

    def model(self, it, table, pte):
        ctx = it.ctx
        eidx, msg = ilog_env()
        j = eidx(zint(pte))
        ctx.assume(j >= -1)
        if ctx.decide(j == -1):
            return None
        return Obj(lookup_qualname(ENTRY), dict(idx=j))


class CGetMessage(Contract):
    target = ENTRY + ".get_message"

    def model(self, it, entry, pte):
        eidx, msg = ilog_env()
        return mkstr([Opq(msg(zint(field(entry, 'idx')), zint(pte)))])


def ilog_line(ts, seq, pte, message):
    return cat(spec_ts(ts), " ", fmt(seq, 'X', 4, '0'), " ", fmt(pte, 'X', 8, '0'), " ", message)


class IlogInv(LoopInv):
    func = IO + "ilog.parse_ilog_data"
    loop = 0
    modifies_locals = ('timestamp', 'seq_num', 'pte', 'timestamp_str', 'message', 'entry')

    def L(self, ctx):
        if not hasattr(ctx, 'il_L'):
            ctx.il_L = RecFn('il_lines', Val)
            ctx.il_L.define_base(ctx, list_term(['hh:mm:ss seq  pppppppp description',
                                                 '-------- ---- -------- ------------------------------------']))
        return ctx.il_L

    def heap_targets(self, it, fr):
        return [fr.locals['lines'], (fr.locals['stream'], 'index')]

    def havoc(self, it, fr, i):
        ctx = it.ctx
        K = ctx.fresh('il_k', 'int')
        ctx.assume(K >= 0)
        ctx.ghost['il_k'] = K
        fr.locals['stream'].index = simp(8 * K)
        fr.locals['lines'][:] = [Chunk(ctx.fresh('il_lines_so_far', Val))]

    def inv(self, it, fr, i):
        s = fr.locals['stream']
        c = zint(field(s, 'index'))
        return And(c % 8 == 0, c >= 0, c <= zint(field(s, 'size')), list_term(fr.locals['lines']) == self.L(it.ctx).at(c / 8))

    def unfold(self, it, fr, i):
        """L(K+1) for the iteration just executed (the case is decided on this path)"""
        ctx = it.ctx
        K = ctx.ghost['il_k']
        d = field(fr.locals['stream'], 'data')
        ts, seq, pte = be(d, 8 * K, 2), be(d, 8 * K + 2, 2), be(d, 8 * K + 4, 4)
        L = self.L(ctx)
        eidx, msg = ilog_env()
        if branch(And(ts == 0, seq == 0, pte == 0)):
            L.unfold(ctx, K, lambda prev, k: prev)
            return
        j = eidx(zint(pte))
        message = 'Undefined' if branch(j == -1) else mkstr([Opq(msg(j, zint(pte)))])
        line = val_term(ilog_line(ts, seq, pte, message))
        L.unfold(ctx, K, lambda prev, k: v_snoc(prev, line))


class ParseIlog(Unit):
    prop = "C14"
    name = "parse_ilog_data"
    target = IO + "ilog.parse_ilog_data"
    contracts = DS_CONTRACTS + [CPTETable, CGetEntry, CGetMessage, CFormatTimestamp]
    invariants = [IlogInv]

    def inputs(self, S):
        if S.symbolic:
            path = "table.h"
        else:
            import io_drawer, os
            path = os.path.join(os.path.dirname(io_drawer.__file__), S.choice("table", ["mex_pte.h", "nimitz_pte.h"]))
        return dict(data=S.bytes("data", kind='memoryview'), header_file_path=path)

    def check(self, P, inp, old, out):
        P.prove(out.returned, "returns for every input")
        if not out.returned:
            return
        if not P.symbolic:
            P.prove(list(out.value) == spec_ilog_native(inp['data'], inp['header_file_path']),
                    "output == headings + one line per non-zero 8-byte entry, in order (first matching table message)")
            return
        ctx = P.ctx
        inv = list(ctx.invariants.values())[0]
        n = zint(blen(inp['data']))
        P.prove(list_term(out.value) == inv.L(ctx).at(n / 8),
                "output == headings + one line per non-zero entry among the len//8 complete entries, in order")


_TABLE_CACHE = {}


def spec_ilog_native(data, path):
    """independent native oracle: own table reader for the shipped files + the spec functions above"""
    from io_drawer.ilog import PTETable
    data = bytes(data)
    if path not in _TABLE_CACHE:
        _TABLE_CACHE[path] = PTETable(path).entries
    entries = _TABLE_CACHE[path]
    lines = ['hh:mm:ss seq  pppppppp description', '-------- ---- -------- ------------------------------------']
    for k in range(len(data) // 8):
        e = data[8 * k:8 * k + 8]
        ts, seq, pte = be(e, 0, 2), be(e, 2, 2), be(e, 4, 4)
        if ts == 0 and seq == 0 and pte == 0:
            continue
        message = 'Undefined'
        for ent in entries:
            if spec_matches(ent.pte_pattern, pte):
                message = spec_message(ent.message_format, ent.params, pte)
                break
        lines.append(ilog_line(ts, seq, pte, message))
    return lines


ILOG_UNITS = [FormatTimestamp, EntryInit, ReportedErr, ExactMatch, Matches, GetMessage, GetEntry, ParseIlog]
UNITS = HLOG_UNITS + ILOG_UNITS


def ilog_grammar_bounded(tier, seed):
    """PTETable._parse_header_file/_add_entry and the wildcard-regex assumption: bounded stand-ins"""
    import random, tempfile, os, time, re, shutil
    import io_drawer
    from io_drawer.ilog import PTETable
    t0 = time.time()
    rng = random.Random(seed)
    obs = []
    base = os.path.dirname(io_drawer.__file__)
    bad = None
    evals = 0
    hexalpha = set("0123456789abcdefABCDEF*")
    for fn, cnt in (("mex_pte.h", 615), ("nimitz_pte.h", 598)):
        t = PTETable(os.path.join(base, fn))
        evals += 1
        if len(t.entries) != cnt:
            bad = dict(case="shipped " + fn, got=len(t.entries), want=cnt)
        for e in t.entries:
            if len(e.pte_pattern) != 8 or not set(e.pte_pattern) <= hexalpha:
                bad = dict(case="shipped pattern outside [0-9A-Fa-f*]{8}", pattern=e.pte_pattern)
            if any(not (1 <= p <= 4) for p in e.params):
                bad = dict(case="params not filtered", params=e.params)
    n = 200 if tier == 'quick' else 2000
    d = tempfile.mkdtemp(prefix="pyvc_ilog_")
    try:
        for k in range(n):
            if bad:
                break
            m = rng.randrange(0, 10)
            want = []
            body = []
            for j in range(m):
                pat = ''.join(rng.choice("0123456789ABCDEFabcdef****") for _ in range(8))
                msg = ''.join(rng.choice("abc XYZ%d%c%02x:-_.,()") for _ in range(rng.randrange(1, 20))).strip() or "m"
                quoted = rng.random() < 0.3
                shown = msg + (' "N-Mode"' if quoted else '')
                src = msg + (' \\"N-Mode\\"' if quoted else '')
                ps = [rng.randrange(0, 7) for _ in range(rng.randrange(0, 4))]
                want.append((pat, shown, tuple(p for p in ps if 1 <= p <= 4), "f%d.cpp" % j, 100 + j))
                sp = lambda: ' ' * rng.randrange(0, 3)
                body.append('%s{%s"%s"%s,%s"%s"%s,%s{%s}%s,%s"f%d.cpp"%s,%s%d%s}%s,\n' % (
                    sp(), sp(), pat, sp(), sp(), src, sp(), sp(), ', '.join(str(p) for p in ps), sp(), sp(), j, sp(), sp(),
                    100 + j, sp(), sp()))
            brace_same = rng.random() < 0.5
            txt = '#define X 1\n{ "DEADBEEF", "before the table", {}, "x.cpp", 1 },\n'
            txt += "%sstruct pte_entry_struct static_pte_entry_table[PTE_TABLE_SIZE] =%s\n" % (
                rng.choice(["static ", "", " static  "]), " {" if brace_same else "")
            if not brace_same:
                txt += "{\n"
            txt += ''.join(body) + '  { ""        , "The End" }\n};\n{ "DEADBEEF", "after the table", {}, "x.cpp", 2 },\n'
            p = os.path.join(d, "t.h")
            with open(p, "w") as f:
                f.write(txt)
            got = [(e.pte_pattern, e.message_format, e.params, e.file, e.line) for e in PTETable(p).entries]
            evals += 1
            if got != want:
                bad = dict(case="generated table", text=txt, got=got[:4], want=want[:4])
    finally:
        shutil.rmtree(d, ignore_errors=True)
    ob = dict(name="PTETable header-file grammar: entries of the table, in file order (bounded)", kind='B', solver='bounded',
              status='failed' if bad else 'discharged', evaluations=evals, secs=time.time() - t0,
              bound="2 shipped tables (615/598 entries, patterns in [0-9A-Fa-f*]{8}) + %d generated tables of 0..9 entries" % n)
    if bad:
        ob['replay'] = dict(kind='custom', reproduced=True, native=bad, input=bad)
        ob['detail'] = str(bad)[:500]
    obs.append(ob)
    # the assumed regex contract: spec_wild == re.compile(p.replace('*','.'), IGNORECASE).fullmatch
    bad2 = None
    ev2 = 0
    for k in range(4000 if tier == 'quick' else 40000):
        ln = rng.choice([8, 8, 8, 7, 9])
        pat = ''.join(rng.choice("0123456789ABCDEFabcdef****") for _ in range(ln))
        pte = rng.getrandbits(32)
        if rng.random() < 0.5:
            # make a near match
            s = "%08X" % pte
            pat = ''.join(c if rng.random() < 0.8 else '*' for c in (s if ln == 8 else s[:ln].ljust(ln, '0')))
            if rng.random() < 0.3:
                pat = pat.lower()
        real = re.compile(pat.replace('*', '.'), re.IGNORECASE).fullmatch("%08X" % pte) is not None
        ev2 += 1
        if bool(spec_wild(pat, hex8(pte))) != real:
            bad2 = dict(pattern=pat, pte=pte, real=real)
            break
    ob2 = dict(name="assumed regex contract: wildcard match == re.fullmatch on [0-9A-Fa-f*] patterns (bounded)", kind='B',
               solver='bounded', status='failed' if bad2 else 'discharged', evaluations=ev2, secs=0.0,
               bound="%d random pattern/PTE pairs" % ev2)
    if bad2:
        ob2['replay'] = dict(kind='custom', reproduced=True, native=bad2, input=bad2)
    obs.append(ob2)
    return obs, {}
