"""C06: the printed JSON parses back to exactly the decoded document (prettyPrint).

Two halves (DESIGN 6/C06): structure (only spaces are inserted, at one position per line; line count and order
unchanged) is read off the AST; the position lemma (the insertion point is exactly the gap after a key's colon, for
every line json.dumps(indent=4) can produce) is decided by the automata back end."""
import ast
import json
import time

from pyvc import dfa
from pyvc.interp import lookup_qualname

PM = "pel.peltool.peltool."

# representative alphabet: every character the grammar or the code distinguishes, plus one representative per class
BASE_ALPHABET = ['"', '\\', ':', ' ', '{', '}', '[', ']', ',', '-', '0', 'a', '.', 'x', 'é']

STRING = r'"(?:[^"\\]|\\.)*"'
SCALARNS = r'[-0a.]+'                       # numbers, true/false/null/NaN/Infinity over the representative alphabet
VALUE = r'(?:%s|%s|\{|\[|\{\}|\[\])' % (STRING, SCALARNS)
KEYLINE_MARKED = r' *%s:# %s,?' % (STRING, VALUE)                 # '#' = the only gap where spaces may go
ELEMLINE = r' *(?:%s|%s|\{|\[|\{\}|\[\]|\}|\]),?' % (STRING, SCALARNS)


class Extract(Exception):
    pass


def const_str(node):
    if isinstance(node, ast.Constant) and isinstance(node.value, str):
        return node.value
    raise Extract("expected a string literal")


def extract(fn_node):
    """read the rewrite rule off prettyPrint's AST: guards and insertion position"""
    info = dict(guards=[], pos=None, structure=[])
    body = fn_node.body
    split_ok = any(isinstance(s, ast.Assign) and isinstance(s.value, ast.Call) and isinstance(s.value.func, ast.Attribute)
                   and s.value.func.attr == 'split' and len(s.value.args) == 1 and const_str(s.value.args[0]) == "\n"
                   and isinstance(s.targets[0], ast.Name) and s.targets[0].id == 'lines' for s in body if isinstance(s, ast.Assign))
    info['structure'].append(("lines = Mdata.split('\\n')", split_ok))
    ret = [s for s in body if isinstance(s, ast.Return)]
    ret_ok = len(ret) == 1 and isinstance(ret[0].value, ast.Call) and isinstance(ret[0].value.func, ast.Attribute) \
        and ret[0].value.func.attr == 'join' and const_str(ret[0].value.func.value) == "\n" \
        and isinstance(ret[0].value.args[0], ast.Name) and ret[0].value.args[0].id == 'lines'
    info['structure'].append(("returns '\\n'.join(lines)", ret_ok))
    loops = [s for s in body if isinstance(s, ast.For)]
    if len(loops) != 1:
        raise Extract("expected exactly one loop over the lines")
    loop = loops[0]
    rng_ok = isinstance(loop.iter, ast.Call) and getattr(loop.iter.func, 'id', None) == 'range' and isinstance(loop.target, ast.Name)
    info['structure'].append(("one pass over range(len(lines))", rng_ok))
    env = {}
    ifs = []
    writes = []
    for st in loop.body:
        if isinstance(st, ast.Assign) and isinstance(st.targets[0], ast.Name):
            env[st.targets[0].id] = st.value
        elif isinstance(st, ast.If):
            ifs.append(st)
        elif isinstance(st, ast.Expr) and isinstance(st.value, ast.Constant):
            pass
        else:
            raise Extract("unexpected statement in the loop: %s" % type(st).__name__)
    line_ok = 'line' in env and isinstance(env['line'], ast.Subscript) and getattr(env['line'].value, 'id', None) == 'lines'
    info['structure'].append(("line = lines[i]", line_ok))
    if len(ifs) != 1 or ifs[0].orelse:
        raise Extract("expected exactly one guarded rewrite")
    iff = ifs[0]
    # guards
    tests = iff.test.values if isinstance(iff.test, ast.BoolOp) and isinstance(iff.test.op, ast.And) else [iff.test]
    for t in tests:
        if isinstance(t, ast.Compare) and len(t.ops) == 1 and isinstance(t.comparators[0], ast.Name) and t.comparators[0].id == 'line':
            if isinstance(t.ops[0], ast.In):
                info['guards'].append(('in', const_str(t.left)))
                continue
            if isinstance(t.ops[0], ast.NotIn):
                info['guards'].append(('notin', const_str(t.left)))
                continue
        if isinstance(t, ast.Name) and t.id in env:
            v = env[t.id]
            if isinstance(v, ast.Call) and isinstance(v.func, ast.Attribute) and v.func.attr == 'match' and \
                    getattr(v.func.value, 'id', None) == 're' and getattr(v.args[1], 'id', None) == 'line':
                info['guards'].append(('match', const_str(v.args[0]), t.id))
                continue
        raise Extract("guard outside the supported idioms: %s" % ast.dump(t)[:80])
    # position: symbolic evaluation of the integer variable used in the slices
    pos = {}
    rewrite = None
    for st in iff.body:
        if isinstance(st, ast.Assign) and isinstance(st.targets[0], ast.Name):
            nm = st.targets[0].id
            v = st.value
            if isinstance(v, ast.Call) and isinstance(v.func, ast.Attribute) and v.func.attr == 'index' and \
                    getattr(v.func.value, 'id', None) == 'line':
                pos[nm] = ('index', const_str(v.args[0]), 0)
            elif isinstance(v, ast.Call) and isinstance(v.func, ast.Attribute) and v.func.attr == 'end' and not v.args:
                pos[nm] = ('mend', getattr(v.func.value, 'id', None), 0)
            elif isinstance(v, ast.BinOp) and isinstance(v.op, (ast.Add, ast.Sub)) and isinstance(v.right, (ast.Constant, ast.Name)) \
                    and isinstance(v.left, ast.Call) and isinstance(v.left.func, ast.Attribute) and v.left.func.attr == 'end':
                rv = v.right.value if isinstance(v.right, ast.Constant) else _const_name(v.right, fn_node)
                k = rv if isinstance(v.op, ast.Add) else -rv
                pos[nm] = ('mend', getattr(v.left.func.value, 'id', None), k)
            else:
                env[nm] = v
        elif isinstance(st, ast.AugAssign) and isinstance(st.target, ast.Name) and st.target.id in pos and \
                isinstance(st.op, (ast.Add, ast.Sub)):
            kind, a, k = pos[st.target.id]
            val = st.value.value if isinstance(st.value, ast.Constant) else _const_name(st.value, fn_node)
            pos[st.target.id] = (kind, a, k + (val if isinstance(st.op, ast.Add) else -val))
        elif isinstance(st, ast.Assign) and isinstance(st.targets[0], ast.Subscript) and getattr(st.targets[0].value, 'id', None) == 'lines':
            rewrite = st.value
        else:
            raise Extract("unexpected statement in the rewrite: %s" % type(st).__name__)
    if rewrite is None:
        raise Extract("no lines[i] = ... assignment")
    # lines[i] = line[:E] + S + line[E:]
    ok = False
    evar = None
    if isinstance(rewrite, ast.BinOp) and isinstance(rewrite.op, ast.Add) and isinstance(rewrite.left, ast.BinOp):
        a, s, b = rewrite.left.left, rewrite.left.right, rewrite.right
        if isinstance(a, ast.Subscript) and isinstance(b, ast.Subscript) and getattr(a.value, 'id', None) == 'line' and \
                getattr(b.value, 'id', None) == 'line' and isinstance(a.slice, ast.Slice) and isinstance(b.slice, ast.Slice) \
                and a.slice.lower is None and b.slice.upper is None and isinstance(a.slice.upper, ast.Name) and \
                isinstance(b.slice.lower, ast.Name) and a.slice.upper.id == b.slice.lower.id:
            evar = a.slice.upper.id
            sp = env.get(s.id) if isinstance(s, ast.Name) else s
            if isinstance(sp, ast.BinOp) and isinstance(sp.op, ast.Mult):
                sides = [sp.left, sp.right]
                ok = any(isinstance(x, ast.Constant) and x.value == " " for x in sides)
    info['structure'].append(("the rewritten line is line[:e] + (n * ' ') + line[e:]: only U+0020 is inserted, nothing removed", ok))
    if evar not in pos:
        raise Extract("insertion index is not computed by a supported idiom")
    info['pos'] = pos[evar]
    return info


def _const_name(node, fn_node):
    if isinstance(node, ast.Name):
        for st in fn_node.body:
            if isinstance(st, ast.Assign) and isinstance(st.targets[0], ast.Name) and st.targets[0].id == node.id and \
                    isinstance(st.value, ast.Constant):
                return st.value.value
    raise Extract("non-constant offset")


def alphabet_for(info):
    extra = set()
    for g in info['guards']:
        extra.update(g[1])
    if info['pos'][0] == 'index':
        extra.update(info['pos'][1])
    return BASE_ALPHABET + [c for c in sorted(extra) if c not in BASE_ALPHABET and len(c) == 1 and c not in '#@']


def code_insert_dfa(info, alphabet):
    """automaton (over alphabet + '@') of the lines the code rewrites, with '@' at the insertion point"""
    marks = ['@']
    ds = []
    kind, a, k = info['pos']
    anyc = '(?:%s)' % '|'.join(dfa.lit(c) for c in alphabet)
    if kind == 'index':
        if k != len(a):
            raise Extract("insertion %d characters after the start of %r: only len(literal) is supported" % (k, a))
        ds.append(dfa.first_occurrence_dfa(a, alphabet, '@'))
    else:
        rx = [g[1] for g in info['guards'] if g[0] == 'match' and g[2] == a]
        if not rx or k != 0:
            raise Extract("m.end() of an unknown match object / with an offset")
        pat = rx[0]
        if pat.startswith('^'):
            pat = pat[1:]
        ds.append(dfa.regex_dfa('(?:%s)@%s*' % (pat, anyc), alphabet + marks))
    for g in info['guards']:
        if g[0] == 'in':
            ds.append(dfa.ignore_marks(dfa.regex_dfa('%s*%s%s*' % (anyc, dfa.lit(g[1]), anyc), alphabet), marks))
        elif g[0] == 'notin':
            ds.append(dfa.ignore_marks(dfa.regex_dfa('%s*%s%s*' % (anyc, dfa.lit(g[1]), anyc), alphabet).complement(), marks))
    return ds


def witness_to_doc(w):
    """a JSON document whose dumps(indent=4) output contains the witness line (without marks)"""
    line = w.replace('#', '').replace('@', '').strip()
    if line.endswith(','):
        line = line[:-1]
    for cand in ('{%s}' % line, '[%s]' % line, line):
        try:
            v = json.loads(cand.replace('{}', '{}'))
            return v
        except Exception:
            pass
    for cand in ('{%s 0}' % line, '{%s}}' % line, '{%s]}' % line):
        try:
            return json.loads(cand)
        except Exception:
            pass
    return None


def pretty_backend(tier, seed):
    t0 = time.time()
    obs = []
    fi = lookup_qualname(PM + "prettyPrint")

    def ob(name, ok, detail='', solver='syntactic', replay=None, status=None):
        o = dict(name="prettyPrint: " + name, status=status or ('discharged' if ok else 'failed'), solver=solver, kind='P',
                 detail=detail, goal=detail, secs=round(time.time() - t0, 3))
        if replay is not None:
            o['replay'] = replay
        else:
            o['replay'] = dict(kind='custom', reproduced=False, native=detail)
        obs.append(o)
    try:
        info = extract(fi.node)
    except Extract as e:
        ob("rewrite rule is within the supported idioms", False, str(e), status='unknown')
        return obs, dict(extraction_failed=str(e))
    for nm, ok in info['structure']:
        # a shape outside the recognised rewrite is not by itself a violation: undecided here; the generated-document
        # companion (pretty_bounded) reports the violation when the real function shows one
        ob("structure: " + nm, ok, status=None if ok else 'unknown')
    alphabet = alphabet_for(info)
    try:
        code = code_insert_dfa(info, alphabet)
    except (Extract, dfa.Unsupported) as e:
        ob("position idiom is supported", False, str(e), status='unknown')
        return obs, {}
    marks = ['#', '@']
    both = alphabet + marks
    code = [dfa.ignore_marks(d, ['#']) for d in code]
    anyc = '(?:%s)' % '|'.join(dfa.lit(c) for c in alphabet)
    key = dfa.ignore_marks(dfa.regex_dfa(KEYLINE_MARKED, alphabet + ['#']), ['@'])
    elem = dfa.ignore_marks(dfa.regex_dfa(ELEMLINE, alphabet), marks)
    # make every automaton total over the same alphabet order
    def norm(d):
        return dfa.DFA(both, [{a: row[a] for a in both} for row in d.delta], d.start, d.accept)
    code = [norm(d) for d in code]
    key, elem = norm(key), norm(elem)
    one_at = norm(dfa.regex_dfa('(?:%s|#)*@(?:%s|#)*' % (anyc, anyc), both))
    adjacent = norm(dfa.regex_dfa('(?:%s)*(?:#@|@#)(?:%s)*' % (anyc, anyc), both))
    # (1) key/value lines: wherever the code inserts, it is exactly at '#'
    w1 = dfa.intersect_nonempty(code + [key, one_at, adjacent.complement()])
    # (2) lines without a key (array elements, brackets): the code must not insert at all ... unless the insertion
    #     lands between tokens; we require none, as the statement allows whitespace only between a key and its value
    no_hash = norm(dfa.regex_dfa('(?:%s|@)*' % anyc, both))
    w2 = dfa.intersect_nonempty(code + [elem, one_at, no_hash])
    for nm, w in (("position: on a key/value line the insertion point is exactly the gap after the key's colon", w1),
                  ("position: a line without a key (array element, bracket) is never rewritten", w2)):
        if w is None:
            ob(nm, True, "language of counterexample lines is empty (product automaton)", solver='dfa')
            continue
        doc = witness_to_doc(w)
        rep = dict(kind='custom', replay_fn='contracts.pretty:replay_doc', witness_line=w, doc=json.dumps(doc))
        ob(nm, False, "witness line (marks: # correct gap, @ code's insertion): %r" % w, solver='dfa', replay=rep)
    # (3) call sites pass json.dumps(..., indent=4) output and nothing else
    mod = lookup_qualname(PM + "main").module
    bad_sites, unknown_sites = [], []
    nsites = 0

    def classify(a):
        """'ok': json.dumps(x, indent=4) with default separators / escaping; 'bad': json.dumps with other settings;
        'unknown': anything else"""
        if isinstance(a, ast.Call) and isinstance(a.func, ast.Attribute) and a.func.attr == 'dumps' and \
                getattr(a.func.value, 'id', None) == 'json':
            good = any(k.arg == 'indent' and isinstance(k.value, ast.Constant) and k.value.value == 4 for k in a.keywords) and \
                not any(k.arg in ('separators', 'ensure_ascii') for k in a.keywords)
            return 'ok' if good else 'bad'
        return 'unknown'
    funcs = [f for f in ast.walk(mod.tree) if isinstance(f, (ast.FunctionDef, ast.AsyncFunctionDef))]
    for f in funcs:
        for n in ast.walk(f):
            if isinstance(n, ast.Call) and getattr(n.func, 'id', None) == 'prettyPrint':
                if any(n is not m and isinstance(m, (ast.FunctionDef, ast.AsyncFunctionDef)) and n in ast.walk(m) and m is not f
                       for m in ast.walk(f)):
                    continue          # belongs to a nested function: counted there
                nsites += 1
                a = n.args[0] if n.args else None
                kind = classify(a)
                if kind == 'unknown' and isinstance(a, ast.Name):
                    # a local that is only ever assigned such a json.dumps result in this function
                    rhs = [st.value for st in ast.walk(f) if isinstance(st, ast.Assign) and
                           any(isinstance(t, ast.Name) and t.id == a.id for t in st.targets)]
                    others = [st for st in ast.walk(f) if isinstance(st, (ast.AugAssign, ast.AnnAssign, ast.For, ast.With)) and
                              any(isinstance(x, ast.Name) and x.id == a.id and isinstance(x.ctx, ast.Store) for x in ast.walk(st))]
                    kinds = [classify(r) for r in rhs]
                    if rhs and not others and all(k == 'ok' for k in kinds):
                        kind = 'ok'
                    elif 'bad' in kinds:
                        kind = 'bad'
                if kind == 'bad':
                    bad_sites.append(n.lineno)
                elif kind == 'unknown':
                    unknown_sites.append(n.lineno)
    nm = "call sites (%d) pass json.dumps(x, indent=4) output with default separators/escaping" % nsites
    if bad_sites or nsites == 0:
        ob(nm, False, "json.dumps with other separators / escaping at lines %r: the line grammar assumed by the position lemma "
           "does not apply" % bad_sites, status='unknown')
    elif unknown_sites:
        ob(nm, False, "call sites outside the recognised idioms at lines %r" % unknown_sites, status='unknown')
    else:
        ob(nm, True, "")
    return obs, dict(alphabet=alphabet, rewrite_rule=dict(guards=[list(g) for g in info['guards']], position=list(info['pos'])))


def replay_doc(rec):
    """native replay of a witness document through the real json.dumps -> prettyPrint -> json.loads"""
    from pel.peltool.peltool import prettyPrint
    doc = json.loads(rec['doc']) if rec.get('doc') not in (None, 'null') else None
    if doc is None:
        return True, "no document could be built from the witness line"
    text = prettyPrint(json.dumps(doc, indent=4))
    try:
        back = json.loads(text)
    except Exception as e:
        return False, "printed text is not valid JSON: %s; text=%r" % (e, text[:200])
    if back != doc:
        return False, "printed text parses back to %r, not %r" % (back, doc)
    return True, "round trip ok for %r" % (doc,)


def pretty_bounded(tier, seed):
    """bounded companions: (a) real json.dumps(indent=4) lines are in the assumed line grammar;
    (b) dumps -> prettyPrint -> loads round trip over generated documents with hostile keys/values"""
    import random
    import re
    from pel.peltool.peltool import prettyPrint
    t0 = time.time()
    rng = random.Random(seed)
    atoms = ['"', '\\', ':', '{', '}', ' ', 'a', 'é', '":', '\\":', '\\', '[', ',', '\n', ' ', "'", '": ', 'x"y',
             '\u2028', '\u2029', '\x85', '\t', '\r', '\x0b', '\x0c', '\x1c', '\\n', '\\g<0>', '\\1']
    keyline = re.compile(r'^ *"(?:[^"\\]|\\.)*": (?:"(?:[^"\\]|\\.)*"|[-+.0-9a-zA-Z]+|\{|\[|\{\}|\[\]),?$')
    elemline = re.compile(r'^ *(?:"(?:[^"\\]|\\.)*"|[-+.0-9a-zA-Z]+|\{|\[|\{\}|\[\]|\}|\]),?$')

    def rstr():
        return ''.join(rng.choice(atoms) for _ in range(rng.randrange(0, 4)))

    def rval(depth):
        k = rng.random()
        if depth < 2 and k < 0.25:
            return {rstr(): rval(depth + 1) for _ in range(rng.randrange(0, 3))}
        if depth < 2 and k < 0.45:
            return [rval(depth + 1) for _ in range(rng.randrange(0, 3))]
        return rng.choice([rstr(), rstr(), rng.randrange(-5, 1000), 1.5, True, None])
    n = 3000 if tier == 'quick' else 30000
    bad_g = bad_r = None
    for _ in range(n):
        doc = rval(0)
        text = json.dumps(doc, indent=4)
        for ln in text.split("\n"):
            if not (keyline.match(ln) or elemline.match(ln)):
                bad_g = dict(doc=doc, line=ln)
        for space in (34, 29):
            try:
                out = prettyPrint(text, space)
            except Exception as e:
                # the printer itself failing on a document the decoder can produce is a violation, not a checker problem
                bad_r = dict(doc=doc, error="prettyPrint raised %s: %s" % (type(e).__name__, e))
                break
            try:
                if json.loads(out) != doc:
                    bad_r = dict(doc=doc, printed=out[:300])
            except Exception as e:
                bad_r = dict(doc=doc, error=str(e), printed=out[:300])
        if bad_g or bad_r:
            break
    # ---- through the real call site: PELs whose JSON / text user data carry the awkward characters, decoded by parsePEL; the
    # printed text must parse back to what the same decode yields with the alignment pass switched off
    bad_c = None
    ncs = 0
    try:
        from contracts import pelgen
        from pel.peltool import peltool as _pt
        from pel.peltool.config import Config
        from pel.datastream import DataStream
        import io, contextlib

        def decode(data, identity):
            saved = _pt.prettyPrint
            if identity:
                _pt.prettyPrint = lambda text, *a, **k: text
            try:
                c = Config()
                c.every_pel = True
                err, out_ = io.StringIO(), io.StringIO()
                with contextlib.redirect_stderr(err), contextlib.redirect_stdout(out_):
                    text = _pt.parsePEL(DataStream(data, byte_order='big', is_signed=False), c, False)[1]
                # whatever a decoder prints on stdout ends up in front of the document the command line prints
                return text if identity else out_.getvalue() + text
            finally:
                _pt.prettyPrint = saved
        for _ in range(300 if tier == 'quick' else 3000):
            doc = {rstr() or "k": rval(1) for _k in range(rng.randrange(1, 3))}
            pay = json.dumps(doc, ensure_ascii=bool(rng.randrange(2))).encode() + b'\0' * rng.randrange(0, 3)
            if rng.random() < 0.2:
                pay = pay[:rng.randrange(1, len(pay))] if len(pay) > 1 else b'{'       # JSON user data that is not valid JSON
            txt = ''.join(rng.choice(atoms + ['line', '\n']) for _k in range(rng.randrange(0, 8))).encode('utf-8', 'replace')
            secs = [pelgen.hdr(b'UD', 8 + len(pay), sub=1, comp=0x2000) + pay]
            if txt.strip():
                secs.append(pelgen.hdr(b'UD', 8 + len(txt), sub=3, comp=0x2000) + txt)
            data = pelgen.gen_ph(rng, 2 + len(secs), creator=ord('O')) + pelgen.gen_uh(rng) + b''.join(secs)
            ncs += 1
            try:
                plain, printed = decode(data, True), decode(data, False)
                want = json.loads(plain)
            except Exception as e:
                continue          # the decode itself (not the printing) failed or is not JSON: other properties
            try:
                got = json.loads(printed)
            except Exception as e:
                bad_c = dict(pel=data.hex(), error="printed text is not JSON: %s" % e, printed=printed[:300])
                break
            if got != want:
                bad_c = dict(pel=data.hex(), printed=printed[:300], note="printed text parses to a different document")
                break
    except Exception as e:
        import traceback as _tb
        if '/verif/' in (_tb.extract_tb(e.__traceback__)[-1].filename or ''):
            raise
        bad_c = dict(error="decode raised %s: %s" % (type(e).__name__, e))
    obs = [dict(name="printed text of decoded PELs parses back to the decoded document (through the real call sites, bounded)", kind='B',
                solver='bounded', evaluations=ncs, status='failed' if bad_c else 'discharged', secs=0.0,
                bound="%d generated PELs with JSON / text user data carrying quotes, colons, backslashes, line separators" % ncs,
                replay=dict(kind='custom', reproduced=True, native=bad_c)),
           dict(name="assumed line grammar of json.dumps(indent=4) (bounded)", kind='B', solver='bounded', evaluations=n,
                status='failed' if bad_g else 'discharged', secs=0.0, bound="%d generated documents, depth <= 2" % n,
                replay=dict(kind='custom', reproduced=True, native=bad_g)),
           dict(name="json.loads(prettyPrint(json.dumps(d, indent=4))) == d (bounded)", kind='B', solver='bounded', evaluations=2 * n,
                status='failed' if bad_r else 'discharged', secs=round(time.time() - t0, 2),
                bound="%d generated documents with quotes/colons/braces/backslashes/non-ASCII in keys and values" % n,
                replay=dict(kind='custom', reproduced=True, native=bad_r))]
    return obs, {}
