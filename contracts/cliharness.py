"""Bounded companions for the CLI properties: the real peltool.main() in child processes on generated directories.
(These are stand-ins labelled bounded; they also supply the replaying inputs for failed CLI obligations.)"""
import json
import os
import shutil
import subprocess
import sys
import tempfile

from pyvc.unit import Unit
from contracts.pelgen import gen_pel

HERE = os.path.dirname(os.path.abspath(__file__))
HELPER = os.path.join(HERE, "cli_helper.py")
GROUPS = ['Informational', 'Recovered', 'Predictive', 'Unrecoverable', 'Critical', 'Diagnostic', 'Symptom']


def run_cli(argv, fault=None, optimize=False):
    cmd = [sys.executable] + (["-O"] if optimize else []) + [HELPER, json.dumps({"argv": argv, "fault": fault})]
    r = subprocess.run(cmd, capture_output=True, text=True, timeout=120, env=dict(os.environ))
    try:
        return json.loads(r.stdout.strip().splitlines()[-1])
    except Exception:
        return {"stdout": r.stdout, "stderr": r.stderr, "code": r.returncode, "traceback": "helper failed: " + r.stderr[-500:]}


def snapshot(root):
    import hashlib
    out = {}
    for d, dirs, files in os.walk(root):
        for n in dirs:
            out[os.path.relpath(os.path.join(d, n), root)] = 'dir'
        for n in files:
            p = os.path.join(d, n)
            with open(p, 'rb') as f:
                out[os.path.relpath(p, root)] = hashlib.sha256(f.read()).hexdigest()
    return out


def sel_options(rng):
    opts = []
    for o in ('-s', '-N', '-H', '-t', '-O'):
        if rng.random() < 0.3:
            opts.append(o)
    if rng.random() < 0.15:
        opts.append('-E')
    if rng.random() < 0.4:
        opts += ['-S'] + rng.sample(GROUPS, rng.randrange(1, 4))
    return opts


def gen_dir(rng, n=None, junk=False):
    """{name: bytes} for the top level, plus {'archive/x': bytes}"""
    files = {}
    n = rng.randrange(0, 5) if n is None else n
    eids = rng.sample(range(0x50000001, 0x50000100), n + 1)
    for k in range(n):
        data, parts = gen_pel(rng, max_sections=3, eid=eids[k])
        name = rng.choice(["2024%04d_%08X", "pel%d_%08X.pel", "B%d_%08X.txt", "a%d_%08X"]) % (rng.randrange(10000), eids[k])
        files[name] = data
    sub = {"archive/old_%08X" % eids[n]: gen_pel(rng, max_sections=2, eid=eids[n])[0]}
    extra = {}
    if junk:
        for k in range(rng.randrange(1, 4)):
            # files no mode can decode: both headers are damaged / missing (the count mode reads only the headers)
            kind = rng.choice(['empty', 'trunc', 'random', 'badid', 'text'])
            base, _ = gen_pel(rng, max_sections=2, eid=0x60000000 + k)
            if kind == 'empty':
                b = b''
            elif kind == 'trunc':
                b = base[:rng.randrange(0, 48)]
            elif kind == 'random':
                b = b'\x00' + bytes(rng.randrange(256) for _ in range(rng.randrange(1, 200)))
            elif kind == 'badid':
                bb = bytearray(base)
                bb[rng.choice([0, 1, 48, 49])] ^= 0x20
                b = bytes(bb)
            else:
                b = b'hello, not a PEL\n'
            extra[rng.choice(["0junk%d", "zz_junk%d.pel", "M_junk%d"]) % k] = b
    return files, sub, extra


def write_tree(root, *groups):
    for g in groups:
        for name, data in g.items():
            p = os.path.join(root, name)
            os.makedirs(os.path.dirname(p), exist_ok=True)
            with open(p, 'wb') as f:
                f.write(data)


class _Harness(Unit):
    kind = 'B'
    target = "pel.peltool.peltool.main"
    junk = False

    def inputs(self, S):
        import random
        seed = S.rng.randrange(1 << 30) if hasattr(S, 'rng') else S.values.get('seed', 0)
        if hasattr(S, 'rng'):
            S.log['seed'] = seed
        return dict(seed=seed)

    def call_native(self, inp):
        import random
        rng = random.Random(inp['seed'])
        d = tempfile.mkdtemp(prefix="pyvc_cli_")
        try:
            return self.scenario(rng, d)
        finally:
            shutil.rmtree(d, ignore_errors=True)

    def check(self, P, inp, old, out):
        for name, ok, detail in out.value:
            P.prove(ok, name)
            if not ok:
                self.last_detail = detail


def jloads(s):
    try:
        return json.loads(s)
    except Exception:
        return None


class H08(_Harness):
    prop = "C08"
    name = "CLI: -n / -l / -a agree, order, --reverse, --extension (bounded)"

    def scenario(self, rng, d):
        files, sub, _ = gen_dir(rng)
        write_tree(d, files, sub)
        opts = sel_options(rng)
        ext = rng.choice([None, '.pel', '.txt'])
        eopt = ['-e', ext] if ext else []
        res = []
        n = run_cli(['-p', d, '-n'] + opts + eopt)
        l = run_cli(['-p', d, '-l'] + opts + eopt)
        a = run_cli(['-p', d, '-a'] + opts + eopt)
        lr = run_cli(['-p', d, '-l', '-r'] + opts + eopt)
        ar = run_cli(['-p', d, '-a', '-r'] + opts + eopt)
        jn, jl, ja, jlr, jar = jloads(n['stdout']), jloads(l['stdout']), jloads(a['stdout']), jloads(lr['stdout']), jloads(ar['stdout'])
        ok_json = all(x is not None for x in (jn, jl, ja, jlr, jar))
        res.append(("stdout of -n, -l, -a is one JSON document each; exit status 0", ok_json and all(r['code'] == 0 for r in (n, l, a, lr, ar)),
                    dict(opts=opts, n=n, l=l['stdout'][:300])))
        if not ok_json:
            return res
        cnt = jn.get("Number of PELs found")
        res.append(("count == number of list entries == number of documents", cnt == len(jl) == len(ja), dict(opts=opts, ext=ext, count=cnt, list=len(jl), all=len(ja))))
        eids_l = list(jl.keys())
        eids_a = [x["Private Header"]["Entry Id"] for x in ja]
        res.append(("--list and --all-pels refer to the same PELs in the same order", eids_l == eids_a, dict(l=eids_l, a=eids_a)))
        names = sorted(f for f in files if not ext or os.path.splitext(f)[1] == ext)
        by_name = []
        for f in names:
            eid = "0x%08X" % int.from_bytes(files[f][44:48], 'big')
            if eid in jl:
                by_name.append(eid)
        res.append(("presented in ascending file-name order, restricted to the extension", eids_l == by_name, dict(l=eids_l, want=by_name, names=names)))
        res.append(("--reverse presents exactly the reverse sequence", list(jlr.keys()) == eids_l[::-1] and
                    [x["Private Header"]["Entry Id"] for x in jar] == eids_a[::-1], dict()))
        okf = True
        for x in ja:
            e = jl.get(x["Private Header"]["Entry Id"])
            if e is None:
                okf = False
                continue
            ph, uh = x["Private Header"], x["User Header"]
            if e["PLID"] != ph["Platform Log Id"] or e["CreatorID"] != ph["Creator Subsystem"] or e["Subsystem"] != uh["Subsystem"] or \
                    e["Commit Time"] != ph["Committed at"] or e["Sev"] != uh["Event Severity"] or e["CompID"] != ph["Created by"]:
                okf = False
            if "Primary SRC" in x and e.get("SRC") != x["Primary SRC"]["Reference Code"]:
                okf = False
        res.append(("each list entry's SRC, PLID, creator, subsystem, commit time, severity, component equal the full decode", okf, dict()))
        return res


class H09(_Harness):
    prop = "C09"
    name = "CLI: junk files and sub-directories do not disturb the output for the others (bounded)"

    def scenario(self, rng, d):
        files, sub, junk = gen_dir(rng, junk=True)
        clean, dirty = os.path.join(d, "clean"), os.path.join(d, "dirty")
        os.makedirs(clean)
        os.makedirs(dirty)
        write_tree(clean, files)
        write_tree(dirty, files, sub, junk)
        os.makedirs(os.path.join(dirty, "emptydir"), exist_ok=True)
        opts = sel_options(rng)
        res = []
        plid = "%08X" % int.from_bytes(list(files.values())[0][40:44], 'big') if files else "50000001"
        for mode in (['-l'], ['-a'], ['-n'], ['--plid', plid], ['--src', 'BD'], ['-a', '-x'], ['-l', '-r'], ['--plid', plid, '-x'],
                     ['-a', '-x', '-r']):
            c = run_cli(['-p', clean] + mode + opts)
            x = run_cli(['-p', dirty] + mode + opts)
            res.append(("%s: same stdout with and without junk files / sub-directories" % ' '.join(mode), c['stdout'] == x['stdout'],
                        dict(mode=mode, opts=opts, clean=c['stdout'][:300], dirty=x['stdout'][:300], junk=list(junk))))
            res.append(("%s: exit status 0 and no traceback" % ' '.join(mode), x['code'] == 0 and not x['traceback'], dict(x=x['traceback'])))
            if '-x' not in mode:
                res.append(("%s: stdout is one well-formed JSON document" % ' '.join(mode), jloads(x['stdout']) is not None, dict(out=x['stdout'][:300])))
        return res


class H10(_Harness):
    prop = "C10"
    name = "CLI: look-ups by platform log id, BMC id, entry id, SRC (bounded)"

    def scenario(self, rng, d):
        files, sub, _ = gen_dir(rng, n=rng.randrange(1, 5))
        # make one PEL hidden / informational and one with a small platform log id
        names = sorted(files)
        small = gen_pel(rng, max_sections=1, eid=0x50000F00, plid=rng.choice([0x1234, 0x00000001, 0x0ABCDEF0]), sev=0x00, flags=0x4000)[0]
        files["small_50000F00"] = small
        # a hidden, informational PEL whose BMC event log id is a boundary value (0 / 1 / 0xFFFFFFFF)
        edge_bmc = rng.choice([0, 0, 1, 0xFFFFFFFF])
        files["edge_50000F01"] = gen_pel(rng, max_sections=1, eid=0x50000F01, obmc=edge_bmc, sev=0x00, flags=0x4000)[0]
        write_tree(d, files, sub)
        res = []
        full = {f: jloads(run_cli(['-f', os.path.join(d, f), '-E'])['stdout']) for f in files}
        ok = all(v is not None for v in full.values())
        res.append(("every generated PEL decodes with -f", ok, dict()))
        if not ok:
            return res
        target = rng.choice(list(files))
        plid = int(full[target]["Private Header"]["Platform Log Id"], 16)
        for arg in ("%08X" % plid, "0x%08x" % plid, "0X%08X" % plid):
            r = jloads(run_cli(['-p', d, '--plid', arg])['stdout'])
            want = sorted(full[f]["Private Header"]["Entry Id"] for f in files
                          if int(full[f]["Private Header"]["Platform Log Id"], 16) == plid)
            res.append(("--plid %s lists exactly the PELs with that platform log id (hidden ones included)" % arg,
                        r is not None and sorted(r.keys()) == want, dict(got=r and sorted(r), want=want)))
        bmc = full[target]["Private Header"]["BMC Event Log Id"]
        r = run_cli(['-p', d, '--bmc-id', bmc])
        j = jloads(r['stdout'])
        res.append(("--bmc-id N displays a PEL whose BMC event log id is N", j is not None and j["Private Header"]["BMC Event Log Id"] == bmc, dict(out=r['stdout'][:200])))
        r = run_cli(['-p', d, '--bmc-id', str(edge_bmc)])
        j = jloads(r['stdout'])
        res.append(("--bmc-id N finds a hidden, informational PEL (boundary values of N included)",
                    j is not None and int(j["Private Header"]["BMC Event Log Id"], 0) == edge_bmc, dict(n=edge_bmc, out=r['stdout'][:200])))
        r = run_cli(['-p', d, '--bmc-id', '99999999'])
        res.append(("--bmc-id of no PEL: PEL not found", r['stdout'].strip() == "PEL not found", dict(out=r['stdout'][:100])))
        eid = full[target]["Private Header"]["Entry Id"]
        r = run_cli(['-p', d, '-i', eid])
        j = jloads(r['stdout'])
        res.append(("--id E displays the PEL stored under entry id E", j is not None and j["Private Header"]["Entry Id"] == eid, dict(out=r['stdout'][:200])))
        r = run_cli(['-p', d, '-i', '0x5FFFFFFF'])
        res.append(("--id of no PEL: PEL not found", r['stdout'].strip() == "PEL not found", dict(out=r['stdout'][:100])))
        srcs = {f: v["Primary SRC"]["Reference Code"] for f, v in full.items() if "Primary SRC" in v}
        if srcs:
            s = rng.choice(list(srcs.values()))[:rng.choice([2, 4, 8])]
            r = jloads(run_cli(['-p', d, '--src', s])['stdout'])
            want = sorted(full[f]["Private Header"]["Entry Id"] for f in srcs if s in srcs[f])
            res.append(("--src S lists exactly the PELs whose reference code contains S", r is not None and sorted(r.keys()) == want, dict(s=s, got=r and sorted(r), want=want)))
        return res


class H11(_Harness):
    prop = "C11"
    name = "CLI: only delete options remove files, and only those they name (bounded)"

    def scenario(self, rng, d):
        files, sub, junk = gen_dir(rng, n=rng.randrange(1, 4), junk=True)
        root = os.path.join(d, "pels")
        outd = os.path.join(d, "out")
        os.makedirs(outd)
        write_tree(root, files, sub, junk)
        res = []
        before = snapshot(root)
        any_file = os.path.join(root, sorted(files)[0])
        some_eid = "%08X" % int.from_bytes(files[sorted(files)[0]][44:48], 'big')
        for mode in (['-l'], ['-a'], ['-n'], ['-i', '50000001'], ['--bmc-id', '1'], ['--plid', '50000001'], ['--src', 'BD'], ['-a', '-x'],
                     ['-i', some_eid, '-c'], ['-l', '-c'], ['-a', '-c', '-x'], ['--plid', some_eid, '-c'], ['-n', '-c']):
            run_cli(['-p', root] + mode + sel_options(rng))
        run_cli(['-f', any_file])
        res.append(("every non-deleting mode leaves the directory tree byte-for-byte unchanged", snapshot(root) == before, dict()))
        r = run_cli(['-p', root, '-j', '-o', outd, '-E'])
        created = sorted(os.listdir(outd))
        want = []
        for f in sorted(files):
            eid = "%08X" % int.from_bytes(files[f][44:48], 'big')
            want.append("%s.%s.json" % (f, eid))
        okj = snapshot(root) == before and all(c.endswith('.json') and any(c.startswith(f + '.') for f in list(files) + list(junk)) for c in created) \
            and all(w in created for w in want)
        res.append(("--json creates only files named <pel file>.<entry id>.json in the output directory", okj, dict(created=created, want=want)))
        # --delete E; a second top-level file carries the same id in its name (what an earlier -j without -o leaves
        # behind): at most ONE of them may go
        victim = sorted(files)[0]
        eid = "%08X" % int.from_bytes(files[victim][44:48], 'big')
        if rng.random() < 0.6:
            with open(os.path.join(root, "%s.%s.json" % (victim, eid)), 'w') as fh:
                fh.write("{}")
            before = snapshot(root)
        r = run_cli(['-p', root, '-d', eid])
        after = snapshot(root)
        gone = sorted(set(before) - set(after))
        res.append(("--delete E removes at most one top-level file whose name contains E, nothing else changes",
                    len(gone) <= 1 and all(eid in g and '/' not in g for g in gone) and all(after[k] == before[k] for k in after), dict(gone=gone)))
        r = run_cli(['-p', root, '-d', '5FFFFFFF'])
        res.append(("--delete of an unknown id: nothing removed, 'PEL not found'", snapshot(root) == after and 'PEL not found' in r['stdout'], dict()))
        aeid = list(sub)[0][-8:]
        r = run_cli(['-p', root, '-d', aeid])
        res.append(("--delete of an id that exists only in a sub-directory: nothing removed, 'PEL not found'",
                    snapshot(root) == after and 'PEL not found' in r['stdout'], dict(id=aeid, out=r['stdout'][:100])))
        r = run_cli(['-p', root, '-D'])
        r = run_cli(['-p', root, '-D'])          # a second time, on the now empty top level
        final = snapshot(root)
        res.append(("--delete-all removes all and only the regular top-level files; sub-directories are untouched",
                    all('/' in k or v == 'dir' for k, v in final.items()) and all(k in final for k in after if '/' in k or after[k] == 'dir'), dict(final=sorted(final))))
        return res


class H12(_Harness):
    prop = "C12"
    name = "CLI: --clean removes the input only after its output is completely written (bounded)"

    def scenario(self, rng, d):
        res = []
        files, sub, junk = gen_dir(rng, n=rng.randrange(1, 3), junk=True)
        root, outd = os.path.join(d, "pels"), os.path.join(d, "out")
        os.makedirs(outd)
        write_tree(root, files, junk)
        before = snapshot(root)
        fault = rng.choice([None, {"kind": "open", "nth": 1}, {"kind": "write", "nth": 1}, {"kind": "close", "nth": 1},
                            {"kind": "close", "nth": 2}, {"kind": "write", "nth": 2}])
        opts = rng.choice([['-E'], [], ['-H', '-O']])
        run_cli(['-p', root, '-j', '-o', outd, '-c'] + opts, fault=fault)
        after = snapshot(root)
        ok = True
        detail = {}
        for f in before:
            if f in after:
                if after[f] != before[f]:
                    ok = False
                continue
            # removed: a complete, valid JSON output for it must exist
            outs = [o for o in os.listdir(outd) if o.startswith(f + '.')]
            good = False
            for o in outs:
                try:
                    with open(os.path.join(outd, o)) as fh:
                        j = json.load(fh)
                    good = good or isinstance(j, dict) and "Private Header" in j
                except Exception:
                    pass
            if not good:
                ok = False
                detail = dict(removed=f, outputs=outs, fault=fault, opts=opts)
        res.append(("--json --clean: a file is removed only if its JSON output exists and is complete; all others are unmodified", ok, detail))
        # --file --clean
        files2 = {}
        data, _ = gen_pel(rng, max_sections=2, sev=rng.choice([0x00, 0x40]), flags=rng.choice([0x0000, 0x4000, 0xA800, 0x2000]))
        kind = rng.choice(['good', 'trunc', 'badid', 'junk'])
        if kind == 'trunc':
            data = data[:rng.randrange(49, len(data))]
        elif kind == 'badid':
            b = bytearray(data)
            b[rng.choice([0, 48])] ^= 0x20
            data = bytes(b)
        elif kind == 'junk':
            data = b'not a pel at all'
        p = os.path.join(d, "single.pel")
        with open(p, 'wb') as fh:
            fh.write(data)
        hexm = rng.random() < 0.4
        fault = rng.choice([None, None, {"kind": "stdout", "nth": 1}, {"kind": "stdout", "nth": rng.choice([2, 3, 5])}])
        r = run_cli(['-f', p, '-c'] + (['-x'] if hexm else []), fault=fault)
        if hexm:
            printed = 'PEL End' in r['stdout']
        else:
            printed = jloads(r['stdout']) is not None and r['stdout'].strip() != ''
        still = os.path.exists(p) and open(p, 'rb').read() == data
        res.append(("--file --clean: the file is removed only after its document was printed; otherwise it is still there, unmodified",
                    still or printed, dict(kind=kind, fault=fault, code=r['code'], out=r['stdout'][:80], err=r['stderr'][:200])))
        return res


class H05(_Harness):
    prop = "C05"
    name = "CLI: -f on prefixes / corruptions / random bytes: exit 0 or 1, stderr diagnostics, no traceback (bounded)"
    modes = ('assert', 'O')

    def scenario(self, rng, d):
        res = []
        data, parts = gen_pel(rng)
        optimize = bool(sys.flags.optimize)
        cases = [('full', data)]
        for _ in range(6):
            cases.append(('prefix', data[:rng.randrange(0, len(data))]))
        for _ in range(4):
            b = bytearray(data)
            b[rng.randrange(len(b))] = rng.randrange(256)
            cases.append(('corrupt', bytes(b)))
        cases.append(('random', bytes(rng.randrange(256) for _ in range(rng.randrange(0, 300)))))
        ok1 = ok2 = ok3 = True
        det = {}
        for k, (kind, b) in enumerate(cases):
            p = os.path.join(d, "c%d" % k)
            with open(p, 'wb') as fh:
                fh.write(b)
            r = run_cli(['-f', p, '-E'], optimize=optimize)
            if r['code'] not in (0, 1) or r['traceback']:
                ok1 = False
                det = dict(kind=kind, r=r, n=len(b))
            if r['stdout'].strip() and jloads(r['stdout']) is None:
                ok2 = False
                det = dict(kind=kind, out=r['stdout'][:200])
            if kind == 'prefix' and r['stdout'].strip():
                ok3 = False
                det = dict(kind=kind, n=len(b), total=len(data), out=r['stdout'][:100])
        res.append(("exit status 0 or 1 and no traceback for any input", ok1, det))
        res.append(("whatever is printed on stdout is a JSON document", ok2, det))
        res.append(("a proper prefix of a well-formed PEL is never decoded", ok3, det))
        # the same damaged files offered through a directory mode: reported per file on stderr, never a traceback
        sub = os.path.join(d, "dir")
        os.mkdir(sub)
        order = list(range(len(cases)))
        rng.shuffle(order)
        for j, k in enumerate(order):
            with open(os.path.join(sub, "%02d_%s" % (j, cases[k][0])), 'wb') as fh:
                fh.write(cases[k][1])
        ok4, det4 = True, {}
        for mode in (['-a'], ['-l'], ['-n'], ['-a', '-x'], ['--plid', '0x%08X' % int.from_bytes(data[40:44], 'big')]):
            r = run_cli(['-p', sub, '-E'] + mode, optimize=optimize)
            if r['code'] != 0 or r['traceback'] or (mode[-1] != '-x' and jloads(r['stdout']) is None):
                ok4 = False
                det4 = dict(mode=mode, r=r, names=sorted(os.listdir(sub)))
        res.append(("directory modes over the same damaged files: exit 0, no traceback, stdout still one JSON document", ok4, det4))
        return res


UNITS = [H08, H09, H10, H11, H12, H05]


class H07(_Harness):
    prop = "C07"
    name = "CLI: selection options vs the documented rule on generated directories (bounded)"

    def scenario(self, rng, d):
        from contracts.select import spec_select
        from contracts.common import T
        files, sub, _ = gen_dir(rng, n=rng.randrange(2, 6))
        write_tree(d, files)
        opts = sel_options(rng)
        cfg = dict(serviceable='-s' in opts, non_serviceable='-N' in opts, hidden='-H' in opts, critSysTerm='-t' in opts,
                   only='-O' in opts, every_pel='-E' in opts)
        groups = [T('severityGroupValues')[g] for g in opts[opts.index('-S') + 1:]] if '-S' in opts else []
        want = []
        for f in sorted(files):
            b = files[f]
            sev, flags = b[48 + 8 + 2], int.from_bytes(b[48 + 8 + 10:48 + 8 + 12], 'big')
            if spec_select(sev, flags, cfg, groups):
                want.append("0x%08X" % int.from_bytes(b[44:48], 'big'))
        res = []
        l = jloads(run_cli(['-p', d, '-l'] + opts)['stdout'])
        n = jloads(run_cli(['-p', d, '-n'] + opts)['stdout'])
        res.append(("-l lists exactly the PELs the documented rule selects (several PELs in one run)", l is not None and list(l.keys()) == want,
                    dict(opts=opts, got=l and list(l), want=want)))
        res.append(("-n counts exactly those", n is not None and n.get("Number of PELs found") == len(want), dict(opts=opts, n=n, want=len(want))))
        return res


UNITS = [H08, H09, H10, H11, H12, H05, H07]


class H13(_Harness):
    prop = "C13"
    name = "CLI: --hex displays reproduce each file's bytes between the markers, also for large PELs (bounded)"

    def scenario(self, rng, d):
        from pel.hexdump import parse
        from contracts.pelgen import gen_ph, gen_uh, hdr
        files, sub, _ = gen_dir(rng, n=rng.randrange(1, 3))
        # one large PEL (> 16 KiB): many user-data sections
        secs = [hdr(b'UD', 8 + 4000, comp=0x1234) + bytes(rng.randrange(256) for _ in range(4000)) for _ in range(rng.randrange(5, 8))]
        big = gen_ph(rng, 2 + len(secs), eid=0x50000AAA) + gen_uh(rng, sev=0x40, flags=0xA800) + b''.join(secs)
        files["zz_big_50000AAA"] = big
        write_tree(d, files)
        res = []

        def blocks(out):
            cur, outb = None, []
            for ln in out.split("\n"):
                if ln.startswith("-------------- PEL Begin"):
                    cur = []
                elif ln.startswith("-------------- PEL End"):
                    outb.append(bytes(parse(cur)))
                    cur = None
                elif cur is not None:
                    cur.append(ln)
            return outb
        r = run_cli(['-p', d, '-a', '-x', '-E'])
        want = [files[f] for f in sorted(files)]
        res.append(("-a -x: one delimited dump per PEL, each reproducing exactly the file's bytes", blocks(r['stdout']) == want,
                    dict(n=len(blocks(r['stdout'])), sizes=[len(b) for b in blocks(r['stdout'])], want=[len(w) for w in want])))
        f = rng.choice(sorted(files))
        r = run_cli(['-f', os.path.join(d, f), '-x', '-E'])
        res.append(("-f -x reproduces the file's bytes", blocks(r['stdout']) == [files[f]], dict(f=f)))
        r = run_cli(['-p', d, '-l', '-x', '-E'])
        res.append(("-l -x reproduces every selected file's bytes", blocks(r['stdout']) == want, dict()))
        return res


UNITS = [H08, H09, H10, H11, H12, H05, H07, H13]
