"""Child-process helper of the CLI harness: runs the real peltool.main() with a given argv, optional fault injection
on output primitives, and reports stdout / stderr / exit status as JSON.  Standard library only.

  python cli_helper.py '<json spec>'      spec = {"argv": [...], "fault": {"kind": "write"|"close"|"open"|"stdout", "nth": k}}
"""
import builtins
import io
import json
import os
import sys
import traceback


def main():
    spec = json.loads(sys.argv[1])
    fault = spec.get("fault") or {}
    counters = {"write": 0, "close": 0, "open": 0, "stdout": 0}
    real_open = builtins.open

    class FaultyFile:
        def __init__(self, f):
            self._f = f

        def _hit(self, kind):
            counters[kind] += 1
            if fault.get("kind") == kind and counters[kind] == fault.get("nth", 1):
                raise OSError(28, "injected ENOSPC in %s" % kind)

        def write(self, data):
            self._hit("write")
            return self._f.write(data)

        def writelines(self, lines):
            self._hit("write")
            return self._f.writelines(lines)

        def close(self):
            try:
                self._hit("close")
            except OSError:
                # a failing flush/close loses the buffered data: simulate by discarding what was written
                try:
                    self._f.seek(0)
                    self._f.truncate(0)
                except Exception:
                    pass
                self._f.close()
                raise
            self._f.close()

        def __enter__(self):
            return self

        def __exit__(self, *a):
            self.close()
            return False

        def __getattr__(self, n):
            return getattr(self._f, n)

    def fake_open(path, mode='r', *a, **kw):
        if any(c in mode for c in 'wax+'):
            counters["open"] += 1
            if fault.get("kind") == "open" and counters["open"] == fault.get("nth", 1):
                raise OSError(28, "injected ENOSPC in open")
            return FaultyFile(real_open(path, mode, *a, **kw))
        return real_open(path, mode, *a, **kw)

    class FaultyStdout(io.StringIO):
        def write(self, s):
            counters["stdout"] += 1
            if fault.get("kind") == "stdout" and counters["stdout"] >= fault.get("nth", 1):
                raise BrokenPipeError(32, "injected EPIPE")
            return io.StringIO.write(self, s)
    out, err = FaultyStdout(), io.StringIO()
    from pel.peltool import peltool
    builtins.open = fake_open
    peltool.open = fake_open if False else peltool.__dict__.get('open', fake_open)
    sys.argv = ["peltool.py"] + spec["argv"]
    code = None
    tb = None
    so, se = sys.stdout, sys.stderr
    sys.stdout, sys.stderr = out, err
    try:
        try:
            peltool.main()
            code = 0
        except SystemExit as e:
            code = e.code if isinstance(e.code, int) or e.code is None else 1
            if e.code is not None and not isinstance(e.code, int):
                err.write(str(e.code) + "\n")
            if code is None:
                code = 0
        except BaseException:
            code = 1
            tb = traceback.format_exc()
    finally:
        sys.stdout, sys.stderr = so, se
        builtins.open = real_open
    print(json.dumps({"stdout": out.getvalue(), "stderr": err.getvalue(), "code": code, "traceback": tb}))


if __name__ == '__main__':
    main()
