"""AST interpreter over symbolic values.  Source is re-read from /repo on every run."""
import ast
import builtins
import importlib
import os
import sys
import types

import z3

from . import MODULES, ensure_repo_on_path
from .values import (Unsupported, Raised, ExcObj, SBytes, SStr, Opq, Fmt, Choice, Obj, OpaqueVal, PyStr, I,
                     is_z3, is_symint, is_symbool, is_intlike, is_str, zint, zbool, simp, mkstr, segs_of,
                     str_term, val_eq, ufun, obj_cls, obj_fields, lit)
from .engine import PathEnd, Infeasible
from .seq import Chunk as _Chunk
from . import ops
from .ops import raise_py, truthy, is_concrete

ensure_repo_on_path()


# ------------------------------------------------------------------ program model
class FuncInfo:
    def __init__(self, name, qualname, node, module, cls=None):
        self.name = name
        self.qualname = qualname
        self.node = node
        self.module = module
        self.cls = cls
        self._defaults = None
        # ordinal numbering of loops inside the function, in source order
        self.loops = {}
        k = 0
        for n in ast.walk(node):
            pass
        for n in _ordered_walk(node):
            if isinstance(n, (ast.For, ast.While)):
                self.loops[id(n)] = k
                k += 1

    def __repr__(self):
        return "<func %s>" % self.qualname


def _ordered_walk(node):
    for child in ast.iter_child_nodes(node):
        yield child
        for x in _ordered_walk(child):
            yield x


class ClassInfo:
    def __init__(self, name, qualname, node, module, pyclass):
        self.name = name
        self.qualname = qualname
        self.node = node
        self.module = module
        self.pyclass = pyclass
        self.methods = {}

    def find_method(self, name):
        if name in self.methods:
            return self.methods[name]
        for base in self.pyclass.__mro__[1:]:
            bi = class_info_of(base)
            if bi is not None and name in bi.methods:
                return bi.methods[name]
        return None

    def __repr__(self):
        return "<class %s>" % self.qualname


class ModuleInfo:
    def __init__(self, name, pymod, tree, path):
        self.name = name
        self.pymod = pymod
        self.tree = tree
        self.path = path
        self.funcs = {}
        self.classes = {}


_MODULES = {}


def is_repo_file(path):
    return bool(path) and os.path.abspath(path).startswith(os.path.abspath(MODULES) + os.sep)


def load_module(name):
    if name in _MODULES:
        return _MODULES[name]
    pymod = importlib.import_module(name)
    path = getattr(pymod, '__file__', None)
    if not is_repo_file(path):
        raise Unsupported("module %s is not a repository module" % name)
    with open(path) as f:
        src = f.read()
    tree = ast.parse(src, filename=path)
    mi = ModuleInfo(name, pymod, tree, path)
    for node in tree.body:
        if isinstance(node, ast.FunctionDef):
            mi.funcs[node.name] = FuncInfo(node.name, name + '.' + node.name, node, mi)
        elif isinstance(node, ast.ClassDef):
            pyclass = getattr(pymod, node.name, None)
            ci = ClassInfo(node.name, name + '.' + node.name, node, mi, pyclass)
            for sub in node.body:
                if isinstance(sub, ast.FunctionDef):
                    ci.methods[sub.name] = FuncInfo(sub.name, ci.qualname + '.' + sub.name, sub, mi, ci)
            mi.classes[node.name] = ci
    _MODULES[name] = mi
    return mi


def class_info_of(pyclass):
    mod = getattr(pyclass, '__module__', None)
    if mod is None or mod in ('builtins',):
        return None
    m = sys.modules.get(mod)
    if m is None or not is_repo_file(getattr(m, '__file__', None)):
        return None
    mi = load_module(mod)
    ci = mi.classes.get(pyclass.__name__)
    if ci is not None and ci.pyclass is pyclass:
        return ci
    return None


def func_info_of(pyfunc):
    mod = getattr(pyfunc, '__module__', None)
    m = sys.modules.get(mod) if mod else None
    if m is None or not is_repo_file(getattr(m, '__file__', None)):
        return None
    mi = load_module(mod)
    qn = pyfunc.__qualname__
    if '.' in qn:
        cname, fname = qn.split('.', 1)
        ci = mi.classes.get(cname)
        if ci:
            return ci.methods.get(fname)
        return None
    return mi.funcs.get(qn)


def lookup_qualname(qualname):
    """'pel.datastream.DataStream.get_mem' -> FuncInfo | ClassInfo"""
    parts = qualname.split('.')
    for k in range(len(parts) - 1, 0, -1):
        modname = '.'.join(parts[:k])
        try:
            mi = load_module(modname)
        except (ImportError, Unsupported):
            continue
        rest = parts[k:]
        if len(rest) == 1:
            return mi.funcs.get(rest[0]) or mi.classes.get(rest[0])
        if len(rest) == 2 and rest[0] in mi.classes:
            return mi.classes[rest[0]].methods.get(rest[1])
    return None


class BoundMethod:
    def __init__(self, obj, func):
        self.obj = obj
        self.func = func


class MethodRef:
    """a method of a non-object value (str, bytes, list, dict, opaque...)"""

    def __init__(self, val, name):
        self.val = val
        self.name = name


def _own_nodes(fn_node):
    """the nodes of a function body, not descending into nested functions / lambdas / classes"""
    stack = list(fn_node.body)
    while stack:
        n = stack.pop()
        yield n
        for c in ast.iter_child_nodes(n):
            if not isinstance(c, (ast.FunctionDef, ast.AsyncFunctionDef, ast.Lambda, ast.ClassDef)):
                stack.append(c)


class Frame:
    def __init__(self, func, locals_):
        self.func = func
        self.locals = locals_
        self.globals_declared = set()


class _Return(Exception):
    def __init__(self, value):
        self.value = value


class _Break(Exception):
    pass


class _Continue(Exception):
    pass


EFFECT_MODULES = ('os', 'sys', 'io', 'importlib', 'glob', 'shutil', 'subprocess', 'pathlib', 'posix', 'nt',
                  'posixpath', 'genericpath', 'tempfile', 'socket', '_io', 'argparse', 'fnmatch')


class Interp:
    def __init__(self, ctx):
        self.ctx = ctx
        self.depth = 0
        from . import models
        self.models = models

    # ---------------------------------------------------------------- calls
    def call(self, fn, args, kwargs=None):
        kwargs = kwargs or {}
        ctx = self.ctx
        if isinstance(fn, FuncInfo):
            return self.call_function(fn, list(args), kwargs)
        if isinstance(fn, BoundMethod):
            return self.call_function(fn.func, [fn.obj] + list(args), kwargs)
        if isinstance(fn, ClassInfo):
            return self.instantiate(fn, list(args), kwargs)
        if isinstance(fn, MethodRef):
            return self.models.call_method(self, fn.val, fn.name, list(args), kwargs)
        if isinstance(fn, Choice):
            fn = ops.resolve_choice(ctx, fn)
            return self.call(fn, args, kwargs)
        if isinstance(fn, OpaqueVal):
            return self.models.call_opaque(self, fn, list(args), kwargs)
        if isinstance(fn, (types.FunctionType, types.MethodType)):
            fi = func_info_of(fn if isinstance(fn, types.FunctionType) else fn.__func__)
            if fi is not None:
                if isinstance(fn, types.MethodType):
                    return self.call_function(fi, [fn.__self__] + list(args), kwargs)
                return self.call_function(fi, list(args), kwargs)
        if isinstance(fn, type):
            ci = class_info_of(fn)
            if ci is not None:
                return self.instantiate(ci, list(args), kwargs)
        if fn is None:
            raise_py(TypeError, "'NoneType' object is not callable")
        if callable(fn):
            return self.models.call_native(self, fn, list(args), kwargs)
        raise_py(TypeError, "object is not callable")

    def instantiate(self, ci, args, kwargs):
        ctx = self.ctx
        key = ci.qualname
        if key in ctx.contracts and ctx.target != key and ctx.target != key + '.__init__':
            ctx.used_contracts.add(key)
            return ctx.contracts[key].model(self, *args, **kwargs)
        if ci.pyclass is not None and issubclass(ci.pyclass, BaseException):
            return ExcObj(ci.pyclass, tuple(args))
        import enum
        if ci.pyclass is not None and issubclass(ci.pyclass, enum.Enum):
            if is_concrete(args):
                try:
                    return ci.pyclass(*args)
                except Exception as e:
                    raise Raised(ExcObj(type(e), e.args))
            raise Unsupported("enum lookup with symbolic value")
        o = Obj(ci)
        ctx.new_ids.add(id(o))
        init = ci.find_method('__init__')
        if init is not None:
            self.call_function(init, [o] + args, kwargs)
        elif args or kwargs:
            raise_py(TypeError, "%s() takes no arguments" % ci.name)
        return o

    def defaults_of(self, fi):
        if fi._defaults is None:
            a = fi.node.args
            d = {}
            pos = a.posonlyargs + a.args
            fr = Frame(fi, {})
            for arg, dnode in zip(pos[len(pos) - len(a.defaults):], a.defaults):
                v = self.eval(dnode, fr)
                d[arg.arg] = v
            for arg, dnode in zip(a.kwonlyargs, a.kw_defaults):
                if dnode is not None:
                    d[arg.arg] = self.eval(dnode, fr)
            fi._defaults = d
        for v in fi._defaults.values():
            if isinstance(v, (list, dict, set, bytearray)):
                self.ctx.shared_ids[id(v)] = "default argument of %s" % fi.qualname
        return fi._defaults

    def bind_args(self, fi, args, kwargs):
        a = fi.node.args
        pos = [x.arg for x in a.posonlyargs + a.args]
        loc = {}
        if len(args) > len(pos) and not a.vararg:
            raise_py(TypeError, "%s() takes %d positional arguments but %d were given" % (fi.name, len(pos), len(args)))
        for name, v in zip(pos, args):
            loc[name] = v
        if a.vararg:
            loc[a.vararg.arg] = tuple(args[len(pos):])
        kwonly = [x.arg for x in a.kwonlyargs]
        extra = {}
        for k, v in kwargs.items():
            if k in loc:
                raise_py(TypeError, "%s() got multiple values for argument '%s'" % (fi.name, k))
            if k in pos or k in kwonly:
                loc[k] = v
            elif a.kwarg:
                extra[k] = v
            else:
                raise_py(TypeError, "%s() got an unexpected keyword argument '%s'" % (fi.name, k))
        if a.kwarg:
            loc[a.kwarg.arg] = extra
        defaults = self.defaults_of(fi)
        for name in pos + kwonly:
            if name not in loc:
                if name in defaults:
                    loc[name] = defaults[name]
                else:
                    raise_py(TypeError, "%s() missing required argument: '%s'" % (fi.name, name))
        return loc

    def call_function(self, fi, args, kwargs):
        ctx = self.ctx
        if fi.qualname in ctx.contracts and ctx.target != fi.qualname:
            ctx.used_contracts.add(fi.qualname)
            return ctx.contracts[fi.qualname].model(self, *args, **kwargs)
        if ctx.target != fi.qualname:
            ctx.inlined.add(fi.qualname)
        return self.run_body(fi, args, kwargs)

    def run_body(self, fi, args, kwargs):
        loc = self.bind_args(fi, args, kwargs)
        fr = Frame(fi, loc)
        self.depth += 1
        if self.depth > 60:
            raise Unsupported("call depth exceeded")
        if getattr(fi, 'is_generator', None) is None:
            fi.is_generator = any(isinstance(n, (ast.Yield, ast.YieldFrom)) for n in _own_nodes(fi.node))
        if fi.is_generator:
            # a generator function: run eagerly and hand back the list of yielded values.  This is the lazy semantics
            # exactly when the body has no effect of its own besides producing values, which is checked: it may not emit
            # anything on the ghost traces beyond reading the directory listing, nor write to the heap.
            ctx = self.ctx
            fr.yielded = []
            before = (len(ctx.stdout), len(ctx.stderr), len(ctx.imports), len(ctx.plugin_calls),
                      len([e for e in ctx.fs if e[0] not in ('walk',)]))
            log = self.start_write_log()
            try:
                try:
                    self.exec_block(fi.node.body, fr)
                except _Return:
                    pass
            finally:
                writes = list(self.ctx.write_log or [])
                self.ctx.write_log = log
                self.depth -= 1
            after = (len(ctx.stdout), len(ctx.stderr), len(ctx.imports), len(ctx.plugin_calls),
                     len([e for e in ctx.fs if e[0] not in ('walk',)]))
            if after != before or [w for w in writes if w[0] not in ctx.new_ids]:
                raise Unsupported("generator function %s has effects of its own (lazy evaluation order would matter)" % fi.qualname)
            if log is not None:
                log.extend(writes)
            return list(fr.yielded)
        try:
            self.exec_block(fi.node.body, fr)
        except _Return as r:
            return r.value
        finally:
            self.depth -= 1
        return None

    def ex_Yield(self, node, fr):
        if not hasattr(fr, 'yielded'):
            raise Unsupported("yield outside a generator function body")
        fr.yielded.append(self.eval(node.value, fr) if node.value is not None else None)
        return None

    # ---------------------------------------------------------------- statements
    def exec_block(self, stmts, fr):
        for s in stmts:
            self.exec_stmt(s, fr)

    def exec_stmt(self, node, fr):
        ctx = self.ctx
        ctx.steps += 1
        if ctx.steps > ctx.max_steps:
            raise Unsupported("step budget exceeded")
        m = getattr(self, 'st_' + type(node).__name__, None)
        if m is None:
            raise Unsupported("statement %s (line %d of %s)" % (type(node).__name__, node.lineno, fr.func.qualname))
        return m(node, fr)

    def st_Expr(self, node, fr):
        self.eval(node.value, fr)

    def st_Pass(self, node, fr):
        pass

    def st_Return(self, node, fr):
        raise _Return(self.eval(node.value, fr) if node.value is not None else None)

    def st_Break(self, node, fr):
        raise _Break()

    def st_Continue(self, node, fr):
        raise _Continue()

    def st_Global(self, node, fr):
        fr.globals_declared.update(node.names)

    def st_Import(self, node, fr):
        for alias in node.names:
            mod = self.import_native(alias.name)
            fr.locals[alias.asname or alias.name.split('.')[0]] = mod if alias.asname else \
                self.import_native(alias.name.split('.')[0])

    def st_ImportFrom(self, node, fr):
        mod = self.import_native(node.module)
        for alias in node.names:
            fr.locals[alias.asname or alias.name] = self.getattr_(mod, alias.name)

    def import_native(self, name):
        try:
            return importlib.import_module(name)
        except ImportError as e:
            raise Raised(ExcObj(type(e), e.args))

    def st_Assert(self, node, fr):
        if not self.ctx.assert_on:
            return
        if not truthy(self.ctx, self.eval(node.test, fr)):
            args = ()
            if node.msg is not None:
                args = (self.eval(node.msg, fr),)
            raise Raised(ExcObj(AssertionError, args))

    def st_Assign(self, node, fr):
        v = self.eval(node.value, fr)
        for t in node.targets:
            self.assign(t, v, fr)

    def st_AnnAssign(self, node, fr):
        if node.value is not None:
            self.assign(node.target, self.eval(node.value, fr), fr)

    def st_AugAssign(self, node, fr):
        t = node.target
        opname = type(node.op).__name__
        if isinstance(t, ast.Name):
            cur = self.load_name(t.id, fr)
            new = self.aug(opname, cur, self.eval(node.value, fr))
            self.store_name(t.id, new, fr)
        elif isinstance(t, ast.Attribute):
            o = self.eval(t.value, fr)
            cur = self.getattr_(o, t.attr)
            new = self.aug(opname, cur, self.eval(node.value, fr))
            self.setattr_(o, t.attr, new)
        elif isinstance(t, ast.Subscript):
            o = self.eval(t.value, fr)
            k = self.eval_index(t.slice, fr)
            cur = self.subscript(o, k)
            new = self.aug(opname, cur, self.eval(node.value, fr))
            self.store_subscript(o, k, new)
        else:
            raise Unsupported("augmented assignment target")

    def aug(self, opname, cur, val):
        if opname == 'Add' and isinstance(cur, list):
            self.note_write(cur, None)
            cur.extend(self.iterate(val))
            return cur
        return ops.binop(self.ctx, opname, cur, val)

    def assign(self, t, v, fr):
        if isinstance(t, ast.Name):
            self.store_name(t.id, v, fr)
        elif isinstance(t, ast.Attribute):
            self.setattr_(self.eval(t.value, fr), t.attr, v)
        elif isinstance(t, ast.Subscript):
            o = self.eval(t.value, fr)
            k = self.eval_index(t.slice, fr)
            self.store_subscript(o, k, v)
        elif isinstance(t, (ast.Tuple, ast.List)):
            items = self.iterate(v)
            if len(items) != len(t.elts):
                raise_py(ValueError, "not enough/too many values to unpack (expected %d)" % len(t.elts))
            for sub, x in zip(t.elts, items):
                self.assign(sub, x, fr)
        else:
            raise Unsupported("assignment target %s" % type(t).__name__)

    def st_Delete(self, node, fr):
        for t in node.targets:
            if isinstance(t, ast.Name):
                fr.locals.pop(t.id, None)
            elif isinstance(t, ast.Subscript):
                o = self.eval(t.value, fr)
                k = self.eval_index(t.slice, fr)
                if isinstance(o, (dict, list)) and is_concrete(k):
                    self.note_write(o, k)
                    try:
                        del o[k]
                    except Exception as e:
                        raise Raised(ExcObj(type(e), e.args))
                else:
                    raise Unsupported("del with symbolic key")
            else:
                raise Unsupported("del target")

    def st_If(self, node, fr):
        t = self.eval(node.test, fr)
        if is_z3(t) and not node.orelse and len(node.body) == 1 and isinstance(node.body[0], ast.Assign) \
                and len(node.body[0].targets) == 1 and isinstance(node.body[0].targets[0], (ast.Name, ast.Attribute)) \
                and self.is_pure_expr(node.body[0].value):
            # `if c: x = e` with a pure right-hand side: merge as x = ite(c, e, x) instead of forking
            tgt = node.body[0].targets[0]
            c = simp(t if is_symbool(t) else (t != 0))
            if is_z3(c):
                try:
                    oldv = self.eval(ast.Name(id=tgt.id, ctx=ast.Load()), fr) if isinstance(tgt, ast.Name) else \
                        self.getattr_(self.eval(tgt.value, fr), tgt.attr)
                    newv = self.eval(node.body[0].value, fr)
                    m = self.merge_values(c, newv, oldv)
                except Raised:
                    m = None
                if m is not None:
                    self.assign(tgt, m, fr)
                    return
        if truthy(self.ctx, t):
            self.exec_block(node.body, fr)
        else:
            self.exec_block(node.orelse, fr)

    def st_Raise(self, node, fr):
        if node.exc is None:
            cur = getattr(fr, 'current_exc', None)
            if cur is None:
                raise_py(RuntimeError, "No active exception to reraise")
            raise Raised(cur)
        e = self.eval(node.exc, fr)
        if isinstance(e, type) and issubclass(e, BaseException):
            e = ExcObj(e, ())
        if isinstance(e, ClassInfo):
            e = self.instantiate(e, [], {})
        if not isinstance(e, ExcObj):
            raise_py(TypeError, "exceptions must derive from BaseException")
        raise Raised(e)

    def st_Try(self, node, fr):
        try:
            try:
                self.exec_block(node.body, fr)
            except Raised as r:
                handled = False
                for h in node.handlers:
                    if self.handler_matches(h, r.exc, fr):
                        handled = True
                        if h.name:
                            fr.locals[h.name] = r.exc
                        prev = getattr(fr, 'current_exc', None)
                        fr.current_exc = r.exc
                        try:
                            self.exec_block(h.body, fr)
                        finally:
                            fr.current_exc = prev
                            if h.name:
                                fr.locals.pop(h.name, None)
                        break
                if not handled:
                    raise
            else:
                self.exec_block(node.orelse, fr)
        finally:
            if node.finalbody:
                # NOTE: a control-flow exception raised inside finalbody replaces the pending one, as in CPython
                self.exec_block(node.finalbody, fr)

    def handler_matches(self, h, exc, fr):
        if h.type is None:
            return True
        t = self.eval(h.type, fr)
        ts = t if isinstance(t, tuple) else (t,)
        for c in ts:
            if isinstance(c, ClassInfo):
                c = c.pyclass
            if isinstance(c, type) and issubclass(exc.cls, c):
                return True
        return False

    def st_With(self, node, fr):
        if len(node.items) != 1:
            raise Unsupported("with: multiple items")
        item = node.items[0]
        mgr = self.eval(item.context_expr, fr)
        val = self.models.ctx_enter(self, mgr)
        if item.optional_vars is not None:
            self.assign(item.optional_vars, val, fr)
        try:
            self.exec_block(node.body, fr)
        except Raised as r:
            # __exit__ is called with the exception; our managers never suppress
            self.models.ctx_exit(self, mgr, r.exc)
            raise
        except (_Return, _Break, _Continue):
            self.models.ctx_exit(self, mgr, None)
            raise
        else:
            self.models.ctx_exit(self, mgr, None)

    # ---- loops
    def loop_key(self, node, fr):
        return (fr.func.qualname, fr.func.loops.get(id(node)))

    def st_While(self, node, fr):
        ctx = self.ctx
        inv = ctx.invariants.get(self.loop_key(node, fr))
        if inv is not None:
            return self.while_with_invariant(node, fr, inv)
        n = 0
        while True:
            if not truthy(ctx, self.eval(node.test, fr)):
                self.exec_block(node.orelse, fr)
                return
            n += 1
            if n > ctx.max_unroll:
                raise Unsupported("while loop in %s needs an invariant (unrolled %d times)" % (fr.func.qualname, n))
            try:
                self.exec_block(node.body, fr)
            except _Break:
                return
            except _Continue:
                continue

    def st_For(self, node, fr):
        ctx = self.ctx
        inv = ctx.invariants.get(self.loop_key(node, fr))
        it = self.eval(node.iter, fr)
        if isinstance(it, self.models.Handle) and not any(c in it.mode for c in 'wax+b') and \
                isinstance(it.content, (list, self.models.LazySeq)):
            # iterating a text file yields its lines (the environment supplies them as a list)
            ctx.assumed_models.add("iterating a text file yields its lines, in order")
            it = it.content
        from .seq import Chunk as _Chunk
        concrete_iter = isinstance(it, (list, tuple, range, dict, str, bytes)) and not (
            isinstance(it, (list, tuple)) and any(isinstance(e, _Chunk) for e in it))
        if inv is not None and not concrete_iter:
            return self.for_with_invariant(node, fr, inv, it)
        n = 0
        from .seq import Chunk
        if isinstance(it, (list, tuple)) and any(isinstance(e, Chunk) for e in it):
            raise Unsupported("for loop over a list with a symbolic-length part in %s needs an invariant" % fr.func.qualname)
        for x in self.iterate_lazy(it):
            n += 1
            if n > max(ctx.max_unroll, 300 if is_concrete(it) else 0):
                raise Unsupported("for loop in %s needs an invariant (unrolled %d times)" % (fr.func.qualname, n))
            self.assign(node.target, x, fr)
            try:
                self.exec_block(node.body, fr)
            except _Break:
                return
            except _Continue:
                continue
        self.exec_block(node.orelse, fr)

    def check_loop_frame(self, node, fr, inv):
        assigned = set()
        for sub in node.body:
            for n in ast.walk(sub):
                if isinstance(n, ast.Name) and isinstance(n.ctx, (ast.Store, ast.Del)):
                    assigned.add(n.id)
        if isinstance(node, ast.For):
            for n in ast.walk(node.target):
                if isinstance(n, ast.Name):
                    assigned.add(n.id)
        declared = set(inv.modifies_locals)
        extra = assigned - declared - set(getattr(inv, 'scratch_locals', ()))
        # locals the invariant does not know about (e.g. a new temporary): havoc them by unbinding, so that a
        # read before a (re)assignment raises instead of silently using a stale value
        return extra

    def unbind(self, fr, names):
        for n in names:
            fr.locals.pop(n, None)

    def while_with_invariant(self, node, fr, inv):
        ctx = self.ctx
        extra = self.check_loop_frame(node, fr, inv)
        name = "%s#loop%d" % (fr.func.qualname.split('.', 2)[-1] if False else fr.func.qualname, fr.func.loops[id(node)])
        ctx.prove(inv.inv(self, fr, None), name + ".inv.entry", kind='invariant')
        body_case = ctx.decide(ctx.fresh('loopcase', 'bool'))
        inv.havoc(self, fr, None)
        self.unbind(fr, extra)
        ctx.assume(inv.inv(self, fr, None))
        if body_case:
            if not truthy(ctx, self.eval(node.test, fr)):
                raise Infeasible()
            var0 = inv.variant(self, fr) if hasattr(inv, 'variant') else None
            log = self.start_write_log()
            try:
                self.exec_block(node.body, fr)
            except _Break:
                self.end_write_log(log, inv, fr, name)
                return
            except _Continue:
                pass
            self.end_write_log(log, inv, fr, name)
            if hasattr(inv, 'unfold'):
                inv.unfold(self, fr, None)
            ctx.prove(inv.inv(self, fr, None), name + ".inv.preserved", kind='invariant')
            if var0 is not None:
                var1 = inv.variant(self, fr)
                ctx.prove(z3.And(zint(var0) >= 0, zint(var1) < zint(var0)), name + ".variant.decreases",
                          kind='termination')
            raise PathEnd()
        else:
            if truthy(ctx, self.eval(node.test, fr)):
                raise Infeasible()
            self.exec_block(node.orelse, fr)

    def for_with_invariant(self, node, fr, inv, it):
        ctx = self.ctx
        extra = self.check_loop_frame(node, fr, inv)
        name = "%s#loop%d" % (fr.func.qualname, fr.func.loops[id(node)])
        seq = self.models.as_indexable(self, it)   # (start, stop, elem(i))
        start, stop, elem = seq
        ctx.prove(inv.inv(self, fr, start), name + ".inv.entry", kind='invariant')
        body_case = ctx.decide(ctx.fresh('loopcase', 'bool'))
        if body_case:
            i = ctx.fresh('i', 'int')
            ctx.assume(z3.And(zint(start) <= i, i < zint(stop)))
            inv.havoc(self, fr, i)
            self.unbind(fr, extra)
            ctx.assume(inv.inv(self, fr, i))
            self.assign(node.target, elem(i), fr)
            if hasattr(inv, 'on_element'):
                inv.on_element(self, fr, i)
            log = self.start_write_log()
            ctx.ghost[name + '.exit_index'] = i
            ctx.ghost[name + '.exit'] = 'break-or-return'
            try:
                self.exec_block(node.body, fr)
            except _Break:
                self.end_write_log(log, inv, fr, name)
                return
            except _Continue:
                pass
            self.end_write_log(log, inv, fr, name)
            if hasattr(inv, 'unfold'):
                inv.unfold(self, fr, i)
            ctx.prove(inv.inv(self, fr, simp(i + 1)), name + ".inv.preserved", kind='invariant')
            raise PathEnd()
        else:
            end = simp(z3.If(zint(stop) >= zint(start), zint(stop), zint(start)))
            inv.havoc(self, fr, end)
            self.unbind(fr, extra)
            ctx.ghost[name + '.exit_index'] = end
            ctx.ghost[name + '.exit'] = 'exhausted'
            ctx.assume(inv.inv(self, fr, end))
            if hasattr(inv, 'at_exit'):
                inv.at_exit(self, fr, end)
            self.exec_block(node.orelse, fr)

    def start_write_log(self):
        prev = self.ctx.write_log
        self.ctx.write_log = []
        return prev

    def end_write_log(self, prev, inv, fr, name):
        log = self.ctx.write_log
        self.ctx.write_log = prev
        allowed = inv.heap_targets(self, fr) if hasattr(inv, 'heap_targets') else []
        allowed_ids = set()
        for a in allowed:
            if isinstance(a, tuple):
                allowed_ids.add((id(a[0]), a[1]))
            else:
                allowed_ids.add((id(a), None))
        for (oid, key, desc) in log:
            if oid in self.ctx.new_ids:
                continue
            if (oid, key) in allowed_ids or (oid, None) in allowed_ids:
                continue
            self.ctx.fail(name + ".frame", "loop body writes %s which the invariant does not declare" % desc)
        if prev is not None:
            prev.extend(log)

    def note_write(self, container, key, desc=None):
        ctx = self.ctx
        cid = id(container)
        if cid in ctx.shared_ids:
            ctx.fail("frame.shared_state", "write to shared mutable state: %s" % ctx.shared_ids[cid], kind='frame')
        if ctx.write_log is not None:
            ctx.write_log.append((cid, key if isinstance(key, str) else None,
                                  desc or ("%s[%r]" % (type(container).__name__, key))))

    # ---------------------------------------------------------------- iteration
    def iterate(self, v):
        """materialise an iterable of concrete length as a list"""
        return list(self.iterate_lazy(v))

    def iterate_lazy(self, v):
        ctx = self.ctx
        if isinstance(v, (list, tuple)):
            for x in list(v):
                yield x
            return
        if isinstance(v, dict):
            for x in list(v.keys()):
                yield x
            return
        if isinstance(v, (str, bytes, bytearray, memoryview, range, set, frozenset)) or \
                type(v).__name__ in ('dict_keys', 'dict_values', 'dict_items', 'enumerate', 'zip', 'generator',
                                     'map', 'filter', 'reversed', 'odict_keys', 'odict_values', 'odict_items',
                                     'list_iterator', 'tuple_iterator'):
            for x in v:
                yield x
            return
        if isinstance(v, self.models.SymRange):
            i = v.start
            k = 0
            cap = getattr(ctx, 'max_unroll', None) or 64
            if is_z3(simp(zint(v.stop) - zint(v.start))) and not ctx.is_true(zint(v.stop) - zint(v.start) <= cap * (v.step if isinstance(v.step, int) and v.step > 0 else 1)):
                # unrolling only makes sense when the path condition bounds the number of iterations
                raise Unsupported("iteration over a range of unbounded symbolic length without a loop invariant")
            while True:
                if not ctx.decide(zint(i) < zint(v.stop)):
                    return
                yield simp(i)
                i = simp(zint(i) + v.step)
                k += 1
                if k > cap:
                    raise Unsupported("iteration over a symbolic range: more than %d elements unrolled" % cap)
            return
        if isinstance(v, self.models.LazySeq):
            for x in v.iterate(self):
                yield x
            return
        if isinstance(v, SStr):
            for c in ops.expand_str(ctx, v):
                yield mkstr([c])
            return
        if isinstance(v, SBytes):
            if not hasattr(ctx, 'byte_terms'):
                ctx.byte_terms = set()
            if isinstance(v.ln, int):
                for k in range(v.ln):
                    b = simp(v.at(k))
                    if is_z3(b):
                        ctx.assume(z3.And(b >= 0, b <= 255))
                        ctx.byte_terms.add(b.get_id())
                    yield b
                return
            k = 0
            while True:
                if not ctx.decide(I(k) < zint(v.ln)):
                    return
                b = simp(v.at(k))
                ctx.assume(z3.And(b >= 0, b <= 255))
                if is_z3(b):
                    ctx.byte_terms.add(b.get_id())
                yield b
                k += 1
            return
        if isinstance(v, Choice):
            for x in self.iterate_lazy(ops.resolve_choice(ctx, v)):
                yield x
            return
        if v is None:
            raise_py(TypeError, "'NoneType' object is not iterable")
        if is_intlike(v):
            raise_py(TypeError, "'int' object is not iterable")
        if hasattr(v, '__iter__') and is_concrete(v):
            for x in v:
                yield x
            return
        raise Unsupported("iteration over %s" % type(v).__name__)

    # ---------------------------------------------------------------- names / attributes
    def load_name(self, name, fr):
        if name in fr.locals and name not in fr.globals_declared:
            return fr.locals[name]
        return self.load_global(name, fr.func.module)

    def load_global(self, name, mi):
        ctx = self.ctx
        key = (mi.name, name)
        if key in ctx.globals:
            return ctx.globals[key]
        d = mi.pymod.__dict__
        if name in d:
            return self.wrap_native(d[name], "%s.%s" % (mi.name, name))
        if hasattr(builtins, name):
            return getattr(builtins, name)
        raise_py(NameError, "name '%s' is not defined" % name)

    def wrap_native(self, v, desc=None):
        if isinstance(v, types.FunctionType):
            fi = func_info_of(v)
            if fi is not None:
                return fi
        elif isinstance(v, type):
            ci = class_info_of(v)
            if ci is not None:
                return ci
        elif isinstance(v, (list, dict, set, bytearray)) and desc:
            self.ctx.shared_ids.setdefault(id(v), "module/class level object %s" % desc)
        return v

    def store_name(self, name, v, fr):
        if name in fr.globals_declared:
            key = (fr.func.module.name, name)
            ctx = self.ctx
            if key not in ctx.globals:
                ctx.fail("frame.shared_state", "write to module global %s.%s not in the declared inventory" % key,
                         kind='frame')
            if ctx.write_log is not None:
                ctx.write_log.append((id(fr.func.module), name, "global %s.%s" % key))
            ctx.globals[key] = v
        else:
            fr.locals[name] = v

    def getattr_(self, o, name):
        ctx = self.ctx
        if isinstance(o, Obj):
            f = obj_fields(o)
            if name in f:
                return f[name]
            ci = obj_cls(o)
            if isinstance(ci, ClassInfo):
                m = ci.find_method(name)
                if m is not None:
                    return BoundMethod(o, m)
                if ci.pyclass is not None and hasattr(ci.pyclass, name):
                    return self.wrap_native(getattr(ci.pyclass, name), "%s.%s" % (ci.qualname, name))
            raise_py(AttributeError, "'%s' object has no attribute '%s'" % (getattr(ci, 'name', '?'), name))
        if isinstance(o, ClassInfo):
            m = o.find_method(name)
            if m is not None:
                return m
            if o.pyclass is not None and hasattr(o.pyclass, name):
                return self.wrap_native(getattr(o.pyclass, name), "%s.%s" % (o.qualname, name))
            raise_py(AttributeError, "type object '%s' has no attribute '%s'" % (o.name, name))
        if isinstance(o, types.ModuleType):
            if is_repo_file(getattr(o, '__file__', None)):
                mi = load_module(o.__name__)
                key = (mi.name, name)
                if key in ctx.globals:
                    return ctx.globals[key]
                if name in o.__dict__:
                    return self.wrap_native(o.__dict__[name], "%s.%s" % (mi.name, name))
            try:
                return self.wrap_native(getattr(o, name))
            except AttributeError as e:
                raise Raised(ExcObj(AttributeError, e.args))
        if isinstance(o, ExcObj):
            if name == 'args':
                return o.args
            if name == '__class__':
                return o.cls
            raise_py(AttributeError, name)
        if isinstance(o, tuple) and hasattr(o, '_fields') and name in o._fields:
            return getattr(o, name)
        if isinstance(o, (SStr, SBytes, Choice, OpaqueVal, str, bytes, bytearray, memoryview, list, dict, tuple,
                          set)) or is_z3(o):
            if isinstance(o, OpaqueVal) and o.extra and name in o.extra:
                return o.extra[name]
            return MethodRef(o, name)
        if isinstance(o, self.models.Handle):
            return self.models.handle_attr(self, o, name)
        if isinstance(o, (self.models.SymRegex, self.models.LazySeq, self.models.ArgParserStub, self.models.AbsMatch)):
            return MethodRef(o, name)
        if o is None:
            raise_py(AttributeError, "'NoneType' object has no attribute '%s'" % name)
        if isinstance(o, int):
            return MethodRef(o, name)
        # other native objects: enum members, namedtuples holding symbolic values, compiled regexes ...
        try:
            v = getattr(o, name)
        except AttributeError as e:
            raise Raised(ExcObj(AttributeError, e.args))
        if isinstance(v, (types.BuiltinMethodType, types.MethodType)) and not isinstance(o, type):
            return MethodRef(o, name)
        return self.wrap_native(v)

    def setattr_(self, o, name, v):
        ctx = self.ctx
        if isinstance(o, Obj):
            self.note_write(o, name, "%s.%s" % (getattr(obj_cls(o), 'name', 'obj'), name))
            obj_fields(o)[name] = v
            return
        if isinstance(o, ClassInfo):
            ctx.fail("frame.shared_state", "write to class attribute %s.%s" % (o.qualname, name), kind='frame')
            raise Unsupported("assignment to class attribute")
        if isinstance(o, types.ModuleType):
            ctx.fail("frame.shared_state", "write to module attribute %s.%s" % (o.__name__, name), kind='frame')
            raise Unsupported("assignment to module attribute")
        if o is None:
            raise_py(AttributeError, "'NoneType' object has no attribute '%s'" % name)
        raise Unsupported("attribute assignment on %s" % type(o).__name__)

    # ---------------------------------------------------------------- subscripts
    def eval_index(self, node, fr):
        if isinstance(node, ast.Slice):
            lo = self.eval(node.lower, fr) if node.lower is not None else None
            hi = self.eval(node.upper, fr) if node.upper is not None else None
            st = self.eval(node.step, fr) if node.step is not None else None
            return slice(lo, hi, st)
        return self.eval(node, fr)

    def subscript(self, o, k):
        ctx = self.ctx
        if isinstance(o, Choice):
            o = ops.resolve_choice(ctx, o)
        if isinstance(k, Choice):
            k = ops.resolve_choice(ctx, k)
        if isinstance(k, slice):
            lo, hi, st = k.start, k.stop, k.step
            if is_str(o):
                return ops.str_slice(ctx, o, lo, hi, st)
            if isinstance(o, (SBytes, bytes, bytearray, memoryview)):
                return ops.bytes_slice(ctx, o, lo, hi, st)
            if isinstance(o, (list, tuple)):
                if all(x is None or isinstance(x, int) for x in (lo, hi, st)):
                    return o[lo:hi:st]
                if (st is None or isinstance(st, int)) and len(o) <= 64 and not any(isinstance(e, _Chunk) for e in o):
                    # a symbolic bound on a short concrete-length list: settle it by case distinction (Python clamps to 0..len)
                    def settle(b):
                        if b is None or isinstance(b, int):
                            return b
                        n = len(o)
                        for v in range(-n, n + 1):
                            if ctx.decide(zint(b) == v):
                                return v
                        return n if ctx.decide(zint(b) > n) else -n - 1
                    return o[settle(lo):settle(hi):st]
                raise Unsupported("list slice with symbolic bounds")
            if isinstance(o, self.models.LazySeq):
                return o.slice(self, lo, hi)
            raise Unsupported("slice of %s" % type(o).__name__)
        if is_str(o):
            return ops.str_index(ctx, o, k)
        if isinstance(o, (self.models.FMap, self.models.FSlot)):
            return o.getitem(self, k)
        if isinstance(o, (SBytes, bytes, bytearray, memoryview)):
            return ops.bytes_index(ctx, o, k)
        if isinstance(o, (list, tuple)):
            if isinstance(k, int) and not isinstance(k, bool) or isinstance(k, bool):
                try:
                    return o[k]
                except IndexError as e:
                    raise Raised(ExcObj(IndexError, e.args))
            if is_symint(k):
                n = len(o)
                if not ctx.decide(z3.And(k >= -n, k < n)):
                    raise_py(IndexError, "list index out of range")
                alts = []
                for j in range(n):
                    alts.append((simp(z3.Or(k == j, k == j - n)), o[j]))
                for c, v in alts[:-1]:
                    if ctx.decide(c):
                        return v
                return alts[-1][1]
            raise_py(TypeError, "list indices must be integers or slices")
        if isinstance(o, dict):
            if is_concrete(k) and all(is_concrete(key) for key in o.keys()):
                try:
                    return o[k]
                except KeyError as e:
                    raise Raised(ExcObj(KeyError, e.args))
                except TypeError as e:
                    raise Raised(ExcObj(TypeError, e.args))
            alts = []
            for key, v in o.items():
                e = val_eq(key, k)
                if e is True:
                    return v
                if e is not False:
                    alts.append((e, v))
            if not alts:
                raise_py(KeyError, k)
            anyc = simp(z3.Or(*[zbool(c) for c, _ in alts]))
            if not ctx.decide(anyc):
                raise_py(KeyError, k)
            if len(alts) == 1:
                return alts[0][1]
            # guards are disjoint (distinct concrete keys)
            last = alts[-1]
            rest = simp(z3.And(*[z3.Not(zbool(c)) for c, _ in alts[:-1]]))
            return Choice(alts[:-1] + [(rest, last[1])])
        if isinstance(o, self.models.LazySeq):
            return o.index(self, k)
        if isinstance(o, self.models.SymDict):
            return o.get(self, k, raise_=True)
        if isinstance(o, OpaqueVal):
            return self.models.opaque_subscript(self, o, k)
        if o is None:
            raise_py(TypeError, "'NoneType' object is not subscriptable")
        if is_concrete(o) and is_concrete(k):
            try:
                return o[k]
            except Exception as e:
                raise Raised(ExcObj(type(e), e.args))
        raise Unsupported("subscript of %s" % type(o).__name__)

    def store_subscript(self, o, k, v):
        ctx = self.ctx
        if isinstance(k, Choice) and isinstance(o, dict):
            k = ops.resolve_choice(ctx, k)
        if id(o) in ctx.shared_ids:
            self.note_write(o, None)          # a write to shared state is reported even if the key is symbolic
        if isinstance(o, (self.models.FMap, self.models.FSlot)):
            return o.setitem(self, k, v)
        if isinstance(o, dict):
            if is_concrete(k):
                self.note_write(o, k)
                o[k] = v
                return
            if hasattr(o, 'sym_set'):
                return o.sym_set(self, k, v)
            raise Unsupported("dict store with symbolic key")
        if isinstance(o, list):
            if isinstance(k, int):
                self.note_write(o, None)
                try:
                    o[k] = v
                except IndexError as e:
                    raise Raised(ExcObj(IndexError, e.args))
                return
            raise Unsupported("list store with symbolic index")
        if isinstance(o, self.models.SymDict):
            return o.set(self, k, v)
        if o is None:
            raise_py(TypeError, "'NoneType' object does not support item assignment")
        raise Unsupported("subscript store on %s" % type(o).__name__)

    # ---------------------------------------------------------------- expressions
    def eval(self, node, fr):
        m = getattr(self, 'ex_' + type(node).__name__, None)
        if m is None:
            raise Unsupported("expression %s (line %d of %s)" % (type(node).__name__, getattr(node, 'lineno', 0),
                                                               fr.func.qualname))
        return m(node, fr)

    def ex_Constant(self, node, fr):
        return node.value

    def ex_Name(self, node, fr):
        return self.load_name(node.id, fr)

    def ex_Attribute(self, node, fr):
        return self.getattr_(self.eval(node.value, fr), node.attr)

    def ex_Subscript(self, node, fr):
        o = self.eval(node.value, fr)
        return self.subscript(o, self.eval_index(node.slice, fr))

    def ex_Tuple(self, node, fr):
        return tuple(self.eval_elts(node.elts, fr))

    def ex_List(self, node, fr):
        l = list(self.eval_elts(node.elts, fr))
        self.ctx.new_ids.add(id(l))
        return l

    def ex_Set(self, node, fr):
        vals = self.eval_elts(node.elts, fr)
        if is_concrete(vals):
            return set(vals)
        raise Unsupported("set of symbolic values")

    def eval_elts(self, elts, fr):
        out = []
        for e in elts:
            if isinstance(e, ast.Starred):
                out.extend(self.iterate(self.eval(e.value, fr)))
            else:
                out.append(self.eval(e, fr))
        return out

    def ex_Dict(self, node, fr):
        d = self.models.HDict() if not node.keys else {}
        for k, v in zip(node.keys, node.values):
            if k is None:
                d.update(self.eval(v, fr))
                continue
            kv = self.eval(k, fr)
            vv = self.eval(v, fr)
            if not is_concrete(kv) and isinstance(d, dict):
                sd = self.models.SymDict()
                for kk, vv2 in d.items():
                    sd.set(self, kk, vv2)
                sd.set(self, kv, vv)
                d = sd
                continue
            if isinstance(d, dict):
                d[kv] = vv
            else:
                d.set(self, kv, vv)
        self.ctx.new_ids.add(id(d))
        return d

    def ex_BoolOp(self, node, fr):
        is_and = isinstance(node.op, ast.And)
        v = None
        for sub in node.values:
            v = self.eval(sub, fr)
            t = truthy(self.ctx, v)
            if is_and and not t:
                return v if not is_z3(v) else False
            if (not is_and) and t:
                return v if not is_z3(v) else (True if is_symbool(v) else v)
        if is_z3(v) and is_symbool(v):
            # value of the last operand under the decision already taken
            return truthy(self.ctx, v)
        return v

    def ex_UnaryOp(self, node, fr):
        return ops.unaryop(self.ctx, type(node.op).__name__, self.eval(node.operand, fr))

    def ex_BinOp(self, node, fr):
        a = self.eval(node.left, fr)
        b = self.eval(node.right, fr)
        return ops.binop(self.ctx, type(node.op).__name__, a, b)

    PURE_CALLS = {'chr', 'ord', 'len', 'int', 'str', 'hex', 'min', 'max', 'abs'}

    def is_pure_expr_for_map(self, node):
        """element expressions we accept as pure functions of the loop variable: arithmetic, formatting, attribute reads,
        calls of the built-ins above and of str.format / % on literals"""
        for n in ast.walk(node):
            if isinstance(n, ast.Call):
                f = n.func
                if isinstance(f, ast.Name) and f.id in self.PURE_CALLS:
                    continue
                if isinstance(f, ast.Attribute) and f.attr in ('format', 'upper', 'lower', 'hex', 'strip', 'rstrip', 'lstrip') and \
                        isinstance(f.value, (ast.Constant, ast.Name, ast.Attribute)):
                    continue
                return False
            if isinstance(n, (ast.Await, ast.Yield, ast.YieldFrom, ast.NamedExpr, ast.Lambda, ast.ListComp, ast.GeneratorExp,
                              ast.SetComp, ast.DictComp)) and n is not node:
                return False
        return True

    def is_pure_expr(self, node):
        for n in ast.walk(node):
            if isinstance(n, ast.Call):
                if not (isinstance(n.func, ast.Name) and n.func.id in self.PURE_CALLS):
                    return False
            elif isinstance(n, (ast.Lambda, ast.ListComp, ast.GeneratorExp, ast.DictComp, ast.SetComp, ast.Await,
                                ast.Yield, ast.YieldFrom, ast.NamedExpr)):
                return False
        return True

    def ex_IfExp(self, node, fr):
        t = self.eval(node.test, fr)
        if is_z3(t) and self.is_pure_expr(node.body) and self.is_pure_expr(node.orelse):
            # path merging for small pure conditional expressions: c ? a : b as an ite term
            c = simp(t if is_symbool(t) else (t != 0))
            if is_z3(c):
                try:
                    a = self.eval(node.body, fr)
                    b = self.eval(node.orelse, fr)
                except Raised:
                    a = b = None
                m = self.merge_values(c, a, b)
                if m is not None:
                    return m
                return a if self.ctx.decide(c) else b
        if truthy(self.ctx, t):
            return self.eval(node.body, fr)
        return self.eval(node.orelse, fr)

    def merge_values(self, c, a, b):
        if a is None or b is None:
            return None
        if (is_intlike(a) and not isinstance(a, bool)) and (is_intlike(b) and not isinstance(b, bool)):
            return simp(z3.If(c, zint(a), zint(b)))
        if (isinstance(a, bool) or is_symbool(a)) and (isinstance(b, bool) or is_symbool(b)):
            from .values import zbool
            return simp(z3.If(c, zbool(a), zbool(b)))
        if isinstance(a, str) and isinstance(b, str):
            if a == b:
                return a
            return Choice([(c, a), (simp(z3.Not(c)), b)])
        if is_str(a) and is_str(b):
            sa, sb = segs_of(a), segs_of(b)
            if len(sa) == len(sb) and all(isinstance(x, int) or is_symint(x) for x in sa + sb):
                return mkstr([x if (isinstance(x, int) and isinstance(y, int) and x == y) else simp(z3.If(c, zint(x), zint(y)))
                              for x, y in zip(sa, sb)])
        return None

    def ex_Compare(self, node, fr):
        left = self.eval(node.left, fr)
        if len(node.ops) > 1 and all(isinstance(c, (ast.Name, ast.Constant)) for c in node.comparators):
            # chained comparison over simple operands: conjunction, no branching needed
            conj = []
            for op, comp in zip(node.ops, node.comparators):
                right = self.eval(comp, fr)
                r = ops.compare(self.ctx, type(op).__name__, left, right)
                if r is False:
                    return False
                if r is not True:
                    conj.append(r)
                left = right
            if not conj:
                return True
            from .values import zbool
            return simp(z3.And(*[zbool(c) for c in conj])) if len(conj) > 1 else conj[0]
        result = True
        for op, comp in zip(node.ops, node.comparators):
            right = self.eval(comp, fr)
            r = ops.compare(self.ctx, type(op).__name__, left, right)
            if len(node.ops) == 1:
                return r
            if not truthy(self.ctx, r):
                return False
            left = right
        return result

    def ex_Call(self, node, fr):
        fn = self.eval(node.func, fr)
        args = self.eval_elts(node.args, fr)
        kwargs = {}
        for kw in node.keywords:
            if kw.arg is None:
                kwargs.update(self.eval(kw.value, fr))
            else:
                kwargs[kw.arg] = self.eval(kw.value, fr)
        return self.call(fn, args, kwargs)

    def ex_JoinedStr(self, node, fr):
        parts = []
        for v in node.values:
            if isinstance(v, ast.Constant):
                parts.append(v.value)
            else:
                parts.append(self.ex_FormattedValue(v, fr))
        return mkstr(parts)

    def ex_FormattedValue(self, node, fr):
        v = self.eval(node.value, fr)
        if node.conversion not in (-1, 115):
            raise Unsupported("f-string conversion !r/!a")
        spec = ''
        if node.format_spec is not None:
            spec = self.ex_JoinedStr(node.format_spec, fr)
            if not isinstance(spec, str):
                # dynamic width: fork over its digits
                chars = ops.expand_str(self.ctx, spec)
                out = []
                for c in chars:
                    if isinstance(c, int):
                        out.append(chr(c))
                        continue
                    for cand in range(48, 58):
                        if self.ctx.decide(c == cand):
                            out.append(chr(cand))
                            break
                    else:
                        raise Unsupported("dynamic format spec")
                spec = ''.join(out)
        return ops.format_value(self.ctx, v, spec)

    def ex_ListComp(self, node, fr):
        out = []
        gens = node.generators
        if len(gens) == 1 and not gens[0].ifs and not gens[0].is_async and isinstance(gens[0].target, ast.Name):
            src = self.eval(gens[0].iter, fr)
            if isinstance(src, list) and any(isinstance(e, _Chunk) for e in src):
                # mapping a pure expression of the loop variable over a list with an opaque sub-sequence: the opaque part maps
                # to an opaque part (a function of the expression's text and of that sub-sequence)
                tgt = gens[0].target.id
                free = {n.id for n in ast.walk(node.elt) if isinstance(n, ast.Name) and isinstance(n.ctx, ast.Load)} - {tgt}
                if free & set(fr.locals) or not self.is_pure_expr_for_map(node.elt):
                    raise Unsupported("comprehension over a list with an opaque sub-sequence whose element expression is not a pure "
                                      "function of the loop variable")
                from .seq import Val as _Val
                key = lit(ast.dump(node.elt))
                sub = Frame(fr.func, dict(fr.locals))
                for e in src:
                    if isinstance(e, _Chunk):
                        out.append(_Chunk(ufun('v_map', PyStr, _Val, _Val)(key, e.term)))
                    else:
                        sub.locals[tgt] = e
                        out.append(self.eval(node.elt, sub))
                self.ctx.new_ids.add(id(out))
                return out
        self.comp(node.generators, 0, fr, lambda f: out.append(self.eval(node.elt, f)))
        self.ctx.new_ids.add(id(out))
        return out

    def ex_GeneratorExp(self, node, fr):
        return self.ex_ListComp(node, fr)

    def ex_SetComp(self, node, fr):
        out = self.ex_ListComp(node, fr)
        if is_concrete(out):
            return set(out)
        raise Unsupported("set comprehension of symbolic values")

    def ex_DictComp(self, node, fr):
        out = {}

        def add(f):
            k = self.eval(node.key, f)
            if not is_concrete(k):
                raise Unsupported("dict comprehension with symbolic key")
            out[k] = self.eval(node.value, f)
        self.comp(node.generators, 0, fr, add)
        return out

    def comp(self, gens, k, fr, emit):
        if k == len(gens):
            emit(fr)
            return
        g = gens[k]
        sub = Frame(fr.func, dict(fr.locals)) if k == 0 else fr
        n = 0
        for x in self.iterate_lazy(self.eval(g.iter, fr)):
            n += 1
            if n > 4096:
                raise Unsupported("comprehension too long")
            self.assign(g.target, x, sub)
            if all(truthy(self.ctx, self.eval(c, sub)) for c in g.ifs):
                self.comp(gens, k + 1, sub, emit)

    def ex_Lambda(self, node, fr):
        raise Unsupported("lambda")

    def ex_Starred(self, node, fr):
        raise Unsupported("starred expression")
