"""Symbolic value layer.

Concrete Python values are used as they are.  Symbolic values:
  * z3 ArithRef / BoolRef        - Python int / bool (ints are mathematical)
  * SBytes(arr, off, ln)         - bytes / memoryview / bytearray views over a z3 Array Int->Int
  * SStr(segs)                   - strings as ropes: code points (int or z3 Int), Opq (opaque
                                   term of the uninterpreted sort PyStr), Fmt (integer rendering)
  * Choice([(cond, value)...])   - guarded union of concrete values (table look-ups)
  * Obj(cls, fields)             - instance of a repository class
  * ExcObj(cls, args)            - exception instance
Lists, dicts and tuples are native containers holding such values.
"""
import z3


class Unsupported(Exception):
    """The code left the supported subset: the obligation is UNDECIDED, never a violation."""


PyStr = z3.DeclareSort('PyStr')
ByteArr = z3.ArraySort(z3.IntSort(), z3.IntSort())
I = z3.IntVal


def is_z3(x):
    return isinstance(x, z3.ExprRef)


def is_symint(x):
    return isinstance(x, z3.ArithRef)


def is_symbool(x):
    return isinstance(x, z3.BoolRef)


def is_intlike(x):
    return (isinstance(x, int)) or is_symint(x)


def zint(x):
    """python int / bool / z3 int / z3 bool -> z3 Int term"""
    if isinstance(x, bool):
        return I(1 if x else 0)
    if isinstance(x, int):
        return I(x)
    if is_symint(x):
        return x
    if is_symbool(x):
        return z3.If(x, I(1), I(0))
    raise Unsupported("not an int: %r" % (x,))


def zbool(x):
    if isinstance(x, bool):
        return z3.BoolVal(x)
    if is_symbool(x):
        return x
    raise Unsupported("not a bool: %r" % (x,))


def simp(t):
    if is_z3(t):
        t = z3.simplify(t)
        if z3.is_int_value(t):
            return t.as_long()
        if z3.is_true(t):
            return True
        if z3.is_false(t):
            return False
    return t


# ---------------------------------------------------------------- literals
_LITS = {}


def lit(s):
    """distinct constant of sort PyStr for a concrete Python string"""
    t = _LITS.get(s)
    if t is None:
        t = z3.Const('lit!%d!%s' % (len(_LITS), ''.join(c if c.isalnum() else '_' for c in s[:24])), PyStr)
        _LITS[s] = t
    return t


def lits_distinct():
    vs = list(_LITS.values())
    if len(vs) > 1:
        return z3.Distinct(*vs)
    return z3.BoolVal(True)


def lit_table():
    return dict(_LITS)


_FUNCS = {}


def ufun(name, *sorts):
    key = (name,) + tuple(str(s) for s in sorts)
    f = _FUNCS.get(key)
    if f is None:
        f = z3.Function(name, *sorts)
        _FUNCS[key] = f
    return f


# ---------------------------------------------------------------- bytes
class RootBuf:
    """identity of an underlying buffer (for read-footprint tracking)"""
    _n = 0

    def __init__(self, name):
        RootBuf._n += 1
        self.name = name
        self.reads = []          # list of (lo, hi) terms recorded by direct indexing/slicing


class SBytes:
    __slots__ = ('arr', 'off', 'ln', 'kind', 'root')

    def __init__(self, arr, off, ln, kind='bytes', root=None):
        self.arr = arr
        self.off = simp(off)
        self.ln = simp(ln)
        self.kind = kind
        self.root = root

    def __repr__(self):
        return "SBytes(%s,off=%s,len=%s,%s)" % (self.arr, self.off, self.ln, self.kind)

    def at(self, i):
        """byte at index i (no bounds check here)"""
        return z3.Select(self.arr, zint(self.off) + zint(i))

    def view(self, start, n, kind=None):
        return SBytes(self.arr, zint(self.off) + zint(start), n, kind or self.kind, self.root)


def concrete_bytes_to_s(b, kind=None):
    arr = z3.K(z3.IntSort(), I(0))
    for i, v in enumerate(bytes(b)):
        arr = z3.Store(arr, I(i), I(v))
    if kind is None:
        kind = 'bytearray' if isinstance(b, bytearray) else ('memoryview' if isinstance(b, memoryview) else 'bytes')
    return SBytes(arr, 0, len(b), kind)


# ---------------------------------------------------------------- strings
class Opq:
    """opaque string segment: a term of sort PyStr; length unknown unless given"""
    __slots__ = ('term', 'length')

    def __init__(self, term, length=None):
        self.term = term
        self.length = length

    def __repr__(self):
        return "Opq(%s)" % (self.term,)


class Fmt:
    """integer rendering, kept canonical so that '%08X' % x, '{:08X}'.format(x) and f'{x:08X}'
    are one and the same term.  conv in 'X','x','d'; fill ' ' or '0'."""
    __slots__ = ('val', 'conv', 'width', 'fill')

    def __init__(self, val, conv, width, fill):
        self.val = val
        self.conv = conv
        self.width = width
        self.fill = fill if width else '0'

    def key(self):
        return (self.conv, self.width, self.fill)

    def term(self):
        f = ufun('fmt_%s_%d_%s' % (self.conv, self.width, 'z' if self.fill == '0' else 's'), z3.IntSort(), PyStr)
        return f(zint(self.val))

    def __repr__(self):
        return "Fmt(%s,%s%d%s)" % (self.val, self.fill, self.width, self.conv)


class Choice:
    """guarded union of values: exactly one cond holds (conds are exhaustive and disjoint)"""
    __slots__ = ('alts',)

    def __init__(self, alts):
        self.alts = alts

    def __repr__(self):
        return "Choice(%d alts)" % len(self.alts)

    def map(self, f):
        return Choice([(c, f(v)) for c, v in self.alts])

    def cond_where(self, pred):
        cs = [c for c, v in self.alts if pred(v)]
        if not cs:
            return False
        return simp(z3.Or(*[zbool(c) for c in cs])) if len(cs) > 1 else simp(cs[0])

    def term(self):
        """as a PyStr term (values must be str)"""
        t = None
        for c, v in reversed(self.alts):
            vt = str_term(v)
            t = vt if t is None else z3.If(zbool(c), vt, t)
        return t


def hexdigit(n, upper=True):
    """code point of the hex digit for nibble n (z3 or int)"""
    if isinstance(n, int):
        return ord(('%X' if upper else '%x') % n)
    return z3.If(n < 10, n + 48, n + (55 if upper else 87))


class SStr:
    """rope of segments; a segment is a code point (int | z3 Int), Opq, or Fmt"""
    __slots__ = ('segs',)

    def __init__(self, segs):
        out = []
        for s in segs:
            if isinstance(s, str):
                out.extend(ord(c) for c in s)
            elif isinstance(s, SStr):
                out.extend(s.segs)
            elif isinstance(s, Choice):
                out.append(Opq(s.term()))
            else:
                if is_symint(s):
                    s = simp(s)
                out.append(s)
        self.segs = tuple(out)

    def __repr__(self):
        parts = []
        for s in self.segs:
            if isinstance(s, int):
                parts.append(chr(s))
            else:
                parts.append('<%s>' % (s,))
        return "SStr(%s)" % ''.join(parts)

    def all_chars(self):
        return all(isinstance(s, int) or is_symint(s) for s in self.segs)

    def is_concrete(self):
        return all(isinstance(s, int) for s in self.segs)

    def concrete(self):
        return ''.join(chr(s) for s in self.segs)


def mkstr(segs):
    s = SStr(segs)
    if s.is_concrete():
        return s.concrete()
    return s


def is_str(x):
    return isinstance(x, (str, SStr))


def segs_of(x):
    if isinstance(x, str):
        return tuple(ord(c) for c in x)
    if isinstance(x, SStr):
        return x.segs
    if isinstance(x, Choice):
        return (Opq(x.term()),)
    raise Unsupported("not a string: %r" % (x,))


def str_term(x):
    """canonical PyStr term of a string value"""
    if isinstance(x, Choice):
        return x.term()
    segs = segs_of(x)
    parts = []
    run = []

    def flush():
        if run:
            if all(isinstance(c, int) for c in run):
                parts.append(lit(''.join(chr(c) for c in run)))
            else:
                f = ufun('chars_%d' % len(run), *([z3.IntSort()] * len(run) + [PyStr]))
                parts.append(f(*[zint(c) for c in run]))
            del run[:]
    for s in segs:
        if isinstance(s, int) or is_symint(s):
            run.append(s)
        else:
            flush()
            parts.append(s.term if isinstance(s, Opq) else s.term())
    flush()
    if not parts:
        return lit('')
    t = parts[-1]
    cat = ufun('cat', PyStr, PyStr, PyStr)
    for p in reversed(parts[:-1]):
        t = cat(p, t)
    return t


def str_eq(a, b):
    """equality of two string values -> bool | z3 Bool"""
    if isinstance(a, str) and isinstance(b, str):
        return a == b
    if isinstance(a, Choice):
        return choice_eq(a, b)
    if isinstance(b, Choice):
        return choice_eq(b, a)
    sa, sb = segs_of(a), segs_of(b)
    # a canonical integer rendering against a concrete numeral
    for x, y in ((sa, b), (sb, a)):
        if len(x) == 1 and isinstance(x[0], Fmt) and isinstance(y, str):
            f = x[0]
            try:
                n = int(y, 10 if f.conv == 'd' else 16)
            except ValueError:
                return False
            if n < 0:
                return False
            canon = (('%d' if f.conv == 'd' else '%X' if f.conv == 'X' else '%x') % n).rjust(f.width, f.fill)
            return simp(zint(f.val) == n) if canon == y else False
    ca = all(isinstance(s, int) or is_symint(s) for s in sa)
    cb = all(isinstance(s, int) or is_symint(s) for s in sb)
    if ca and cb:
        if len(sa) != len(sb):
            return False
        cs = []
        for x, y in zip(sa, sb):
            if isinstance(x, int) and isinstance(y, int):
                if x != y:
                    return False
            else:
                cs.append(zint(x) == zint(y))
        if not cs:
            return True
        return simp(z3.And(*cs)) if len(cs) > 1 else simp(cs[0])
    # segment-wise comparison when the segment structure is identical
    if len(sa) == len(sb):
        cs = []
        ok = True
        for x, y in zip(sa, sb):
            xi = isinstance(x, int) or is_symint(x)
            yi = isinstance(y, int) or is_symint(y)
            if xi and yi:
                cs.append(zint(x) == zint(y))
            elif isinstance(x, Fmt) and isinstance(y, Fmt) and x.key() == y.key():
                cs.append(zint(x.val) == zint(y.val))
            elif isinstance(x, Opq) and isinstance(y, Opq):
                cs.append(x.term == y.term)
            else:
                ok = False
                break
        if ok:
            return simp(z3.And(*cs)) if cs else True
    return simp(str_term(a) == str_term(b))


def _hashable_concrete(v):
    return v is None or isinstance(v, (str, int, bool, bytes))


def choice_eq(ch, other):
    if isinstance(other, Choice) and all(_hashable_concrete(v) for _, v in ch.alts) \
            and all(_hashable_concrete(v) for _, v in other.alts):
        # exactly one alternative holds on each side: equal iff some value is selected by both
        ga, gb = {}, {}
        for c, v in ch.alts:
            ga.setdefault((type(v).__name__, v), []).append(zbool(c))
        for c, v in other.alts:
            gb.setdefault((type(v).__name__, v), []).append(zbool(c))
        cs = []
        for k, la in ga.items():
            lb = gb.get(k)
            if lb:
                cs.append(z3.And(z3.Or(*la) if len(la) > 1 else la[0], z3.Or(*lb) if len(lb) > 1 else lb[0]))
        return simp(z3.Or(*cs)) if cs else False
    if isinstance(other, Choice):
        cs = []
        for c, v in ch.alts:
            for d, w in other.alts:
                e = val_eq(v, w)
                if e is False:
                    continue
                cs.append(z3.And(zbool(c), zbool(d), zbool(e)))
        return simp(z3.Or(*cs)) if cs else False
    cs = []
    for c, v in ch.alts:
        e = val_eq(v, other)
        if e is False:
            continue
        cs.append(z3.And(zbool(c), zbool(e)))
    return simp(z3.Or(*cs)) if cs else False


def val_eq(a, b):
    """Python == on values -> bool | z3 Bool (structural for containers)"""
    if isinstance(a, Choice) or isinstance(b, Choice):
        if isinstance(a, Choice):
            return choice_eq(a, b)
        return choice_eq(b, a)
    if a is None or b is None:
        return a is None and b is None
    if isinstance(a, (bool, int)) and isinstance(b, (bool, int)):
        return a == b
    if (is_symbool(a) or isinstance(a, bool)) and (is_symbool(b) or isinstance(b, bool)):
        return simp(zbool(a) == zbool(b))
    # a value taken out of an opaque document (sort Val) may be a string / an integer: equality with one is equality of terms
    for x, y in ((a, b), (b, a)):
        if isinstance(x, OpaqueVal) and str(x.term.sort()) == 'Val' and (is_str(y) or (is_intlike(y) and not isinstance(y, bool))):
            from .seq import val_term
            return simp(x.term == val_term(y))
    if is_intlike(a) or is_symbool(a):
        if is_intlike(b) or is_symbool(b):
            return simp(zint(a) == zint(b))
        return False
    if is_str(a):
        if is_str(b):
            return str_eq(a, b)
        return False
    if is_str(b) or is_intlike(b) or is_symbool(b):
        return False
    if isinstance(a, (list, tuple)) and isinstance(b, (list, tuple)):
        if type(a) is not type(b) and (isinstance(a, tuple) != isinstance(b, tuple)):
            return False
        from .seq import Chunk, list_term
        if any(isinstance(x, Chunk) for x in a) or any(isinstance(x, Chunk) for x in b):
            return simp(list_term(a) == list_term(b))
        if len(a) != len(b):
            return False
        cs = []
        for x, y in zip(a, b):
            e = val_eq(x, y)
            if e is False:
                return False
            if e is not True:
                cs.append(e)
        return simp(z3.And(*cs)) if cs else True
    if isinstance(a, dict) and isinstance(b, dict):
        if list(a.keys()) != list(b.keys()) and set(a.keys()) != set(b.keys()):
            return False
        cs = []
        for k in a:
            e = val_eq(a[k], b[k])
            if e is False:
                return False
            if e is not True:
                cs.append(e)
        return simp(z3.And(*cs)) if cs else True
    if isinstance(a, SBytes) or isinstance(b, SBytes):
        return bytes_eq(a, b)
    if isinstance(a, (bytes, bytearray, memoryview)) and isinstance(b, (bytes, bytearray, memoryview)):
        return bytes(a) == bytes(b)
    if isinstance(a, OpaqueVal) and isinstance(b, OpaqueVal):
        if a.term.sort() == b.term.sort():
            return simp(a.term == b.term)
        return False
    if a is b:
        return True
    if is_z3(a) and is_z3(b):
        if a.sort() == b.sort():
            return simp(a == b)
        return False
    try:
        r = (a == b)
        if isinstance(r, bool):
            return r
    except Exception:
        pass
    raise Unsupported("equality of %r and %r" % (type(a), type(b)))


def bytes_eq(a, b):
    if not isinstance(a, SBytes):
        a = concrete_bytes_to_s(a)
    if not isinstance(b, SBytes):
        b = concrete_bytes_to_s(b)
    la, lb = a.ln, b.ln
    if isinstance(la, int) and isinstance(lb, int):
        if la != lb:
            return False
        cs = [a.at(i) == b.at(i) for i in range(la)]
        return simp(z3.And(*cs)) if cs else True
    # symbolic length: same array, same offset, same length is sufficient (sound, not complete)
    if a.arr.eq(b.arr):
        return simp(z3.And(zint(a.off) == zint(b.off), zint(la) == zint(lb)))
    k = z3.Int('k!beq')
    return z3.And(zint(la) == zint(lb),
                  z3.ForAll([k], z3.Implies(z3.And(k >= 0, k < zint(la)), a.at(k) == b.at(k))))


class OpaqueVal:
    """an opaque value of some uninterpreted sort (JSON values, modules, ...) with a tag"""
    __slots__ = ('term', 'tag', 'extra')

    def __init__(self, term, tag, extra=None):
        self.term = term
        self.tag = tag
        self.extra = extra

    def __repr__(self):
        return "OpaqueVal(%s:%s)" % (self.tag, self.term)


# ---------------------------------------------------------------- objects
class Obj:
    """instance of a repository class; fields in a plain dict"""

    def __init__(self, cls, fields=None):
        object.__setattr__(self, '_cls', cls)
        object.__setattr__(self, '_f', dict(fields or {}))

    def __getattr__(self, name):
        f = object.__getattribute__(self, '_f')
        if name in f:
            return f[name]
        raise AttributeError(name)

    def __setattr__(self, name, v):
        object.__getattribute__(self, '_f')[name] = v

    def __repr__(self):
        c = object.__getattribute__(self, '_cls')
        return "Obj<%s>" % (getattr(c, 'qualname', c),)


def obj_cls(o):
    return object.__getattribute__(o, '_cls')


def obj_fields(o):
    return object.__getattribute__(o, '_f')


class ExcObj:
    def __init__(self, cls, args=(), note=None):
        self.cls = cls
        self.args = tuple(args)
        self.note = note

    def __repr__(self):
        return "ExcObj(%s%r)" % (self.cls.__name__, self.args)


class Raised(Exception):
    """a Python exception propagating through the interpreted program"""

    def __init__(self, exc):
        Exception.__init__(self, repr(exc))
        self.exc = exc
