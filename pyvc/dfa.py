"""Small regular-language engine: regex subset -> NFA over a finite representative alphabet, product,
complement, emptiness with shortest witness.  Used for the JSON pretty-printer position lemma (C06): the SMT
string solvers time out on it, automata decide it in milliseconds for lines of any length."""
import itertools


class Unsupported(Exception):
    pass


MARKS = ('#', '@')


# ---------------------------------------------------------------- regex parsing (subset of Python's re)
class Node:
    def __init__(self, kind, *args):
        self.kind = kind
        self.args = args


def parse_regex(rx):
    pos = [0]

    def peek():
        return rx[pos[0]] if pos[0] < len(rx) else None

    def eat():
        c = rx[pos[0]]
        pos[0] += 1
        return c

    def alt():
        branches = [seq()]
        while peek() == '|':
            eat()
            branches.append(seq())
        return branches[0] if len(branches) == 1 else Node('alt', branches)

    def seq():
        items = []
        while peek() is not None and peek() not in '|)':
            items.append(rep())
        return Node('seq', items)

    def rep():
        a = atom()
        while peek() in ('*', '+', '?', '{'):
            c = peek()
            if c == '{':
                j = rx.index('}', pos[0])
                body = rx[pos[0] + 1:j]
                if not body.isdigit():
                    raise Unsupported("repetition {%s}" % body)
                pos[0] = j + 1
                a = Node('seq', [a] * int(body))
                continue
            eat()
            if peek() == '?':
                raise Unsupported("lazy quantifier")
            a = Node({'*': 'star', '+': 'plus', '?': 'opt'}[c], a)
        return a

    def escape():
        c = eat()
        if c == 's':
            return Node('set', lambda ch: ch in ' \t\n\r\f\v', False)
        if c == 'd':
            return Node('set', lambda ch: ch.isdigit(), False)
        if c == 'w':
            return Node('set', lambda ch: ch.isalnum() or ch == '_', False)
        if c in 'SDW':
            raise Unsupported("negated class escape")
        if c in 'AbBZ' or c.isdigit():
            raise Unsupported("escape \\%s" % c)
        m = {'n': '\n', 't': '\t', 'r': '\r'}.get(c, c)
        return Node('set', lambda ch, m=m: ch == m, False)

    def atom():
        c = eat()
        if c == '(':
            if rx.startswith('?:', pos[0]):
                pos[0] += 2
            elif peek() == '?':
                raise Unsupported("group extension")
            a = alt()
            if peek() != ')':
                raise Unsupported("unbalanced group")
            eat()
            return a
        if c == '[':
            neg = False
            if peek() == '^':
                eat()
                neg = True
            preds = []
            first = True
            while True:
                ch = eat()
                if ch == ']' and not first:
                    break
                first = False
                if ch == '\\':
                    preds.append(escape().args[0])
                    continue
                if peek() == '-' and pos[0] + 1 < len(rx) and rx[pos[0] + 1] != ']':
                    eat()
                    hi = eat()
                    preds.append(lambda x, lo=ch, hi=hi: lo <= x <= hi)
                else:
                    preds.append(lambda x, ch=ch: x == ch)
            return Node('set', lambda x, preds=preds: any(p(x) for p in preds), neg)
        if c == '.':
            return Node('set', lambda ch: ch != '\n', False)
        if c == '\\':
            return escape()
        if c == '^':
            return Node('bol')
        if c == '$':
            return Node('eol')
        return Node('set', lambda ch, c=c: ch == c, False, c)
    tree = alt()
    if pos[0] != len(rx):
        raise Unsupported("trailing regex text")
    return tree


# ---------------------------------------------------------------- NFA
class NFA:
    """states 0..n-1; trans: list of (src, frozenset(symbols) | None for epsilon, dst)"""

    def __init__(self):
        self.n = 0
        self.trans = []
        self.start = None
        self.accept = set()

    def new(self):
        self.n += 1
        return self.n - 1


def build(tree, alphabet, nfa=None):
    """Thompson construction; returns (nfa, start, end)"""
    nfa = nfa or NFA()

    def go(t):
        if t.kind == 'set':
            pred, neg = t.args[0], t.args[1]
            literal = t.args[2] if len(t.args) > 2 else None
            if literal in MARKS:
                syms = frozenset([literal]) if literal in alphabet else frozenset()
            else:
                # marks are not characters: classes, negated classes and '.' never match them
                syms = frozenset(a for a in alphabet if a not in MARKS and (pred(a) != neg) and len(a) == 1)
            s, e = nfa.new(), nfa.new()
            nfa.trans.append((s, syms, e))
            return s, e
        if t.kind == 'seq':
            s = nfa.new()
            cur = s
            for it in t.args[0]:
                a, b = go(it)
                nfa.trans.append((cur, None, a))
                cur = b
            return s, cur
        if t.kind == 'alt':
            s, e = nfa.new(), nfa.new()
            for br in t.args[0]:
                a, b = go(br)
                nfa.trans.append((s, None, a))
                nfa.trans.append((b, None, e))
            return s, e
        if t.kind in ('star', 'plus', 'opt'):
            a, b = go(t.args[0])
            s, e = nfa.new(), nfa.new()
            nfa.trans.append((s, None, a))
            nfa.trans.append((b, None, e))
            if t.kind in ('star', 'opt'):
                nfa.trans.append((s, None, e))
            if t.kind in ('star', 'plus'):
                nfa.trans.append((b, None, a))
            return s, e
        if t.kind in ('bol', 'eol'):
            s = nfa.new()
            return s, s
        raise Unsupported(t.kind)
    s, e = go(tree)
    return nfa, s, e


class DFA:
    """complete DFA over `alphabet`: delta[state][sym] -> state"""

    def __init__(self, alphabet, delta, start, accept):
        self.alphabet = alphabet
        self.delta = delta
        self.start = start
        self.accept = accept

    def complement(self):
        return DFA(self.alphabet, self.delta, self.start, set(range(len(self.delta))) - set(self.accept))


def determinize(nfa, start, accept_states, alphabet):
    eps = {}
    by = {}
    for s, sy, d in nfa.trans:
        if sy is None:
            eps.setdefault(s, []).append(d)
        else:
            by.setdefault(s, []).append((sy, d))

    def closure(states):
        st = list(states)
        seen = set(states)
        while st:
            x = st.pop()
            for y in eps.get(x, ()):
                if y not in seen:
                    seen.add(y)
                    st.append(y)
        return frozenset(seen)
    s0 = closure({start})
    idx = {s0: 0}
    order = [s0]
    delta = []
    k = 0
    while k < len(order):
        cur = order[k]
        row = {}
        for a in alphabet:
            nxt = set()
            for s in cur:
                for sy, d in by.get(s, ()):
                    if a in sy:
                        nxt.add(d)
            nx = closure(nxt)
            if nx not in idx:
                idx[nx] = len(order)
                order.append(nx)
            row[a] = idx[nx]
        delta.append(row)
        k += 1
    acc = {i for st, i in idx.items() if st & accept_states}
    return DFA(list(alphabet), delta, 0, acc)


def regex_dfa(rx, alphabet):
    """DFA of the language of `rx` (full match) over `alphabet` (symbols are 1-char strings; marks allowed)"""
    nfa, s, e = build(parse_regex(rx), alphabet)
    return determinize(nfa, s, {e}, alphabet)


def lit(s):
    """regex text matching the literal string s"""
    return ''.join('\\' + c if c in '\\.[]{}()*+?|^$' else c for c in s)


def ignore_marks(d, marks):
    """extend a DFA over Sigma to Sigma + marks: marks are skipped (self loops)"""
    alphabet = list(d.alphabet) + [m for m in marks if m not in d.alphabet]
    delta = []
    for q, row in enumerate(d.delta):
        r = dict(row)
        for m in marks:
            if m not in row:
                r[m] = q
        delta.append(r)
    return DFA(alphabet, delta, d.start, set(d.accept))


def intersect_nonempty(dfas):
    """shortest string accepted by all DFAs (same alphabet), or None"""
    alphabet = dfas[0].alphabet
    start = tuple(d.start for d in dfas)
    seen = {start: None}
    queue = [start]
    k = 0
    while k < len(queue):
        cur = queue[k]
        k += 1
        if all(q in d.accept for q, d in zip(cur, dfas)):
            out = []
            x = cur
            while seen[x] is not None:
                x, a = seen[x]
                out.append(a)
            return ''.join(reversed(out))
        for a in alphabet:
            nxt = tuple(d.delta[q][a] for q, d in zip(cur, dfas))
            if nxt not in seen:
                seen[nxt] = (cur, a)
                queue.append(nxt)
    return None


def first_occurrence_dfa(literal, alphabet, mark):
    """strings  x + literal + mark + y  where x+literal contains `literal` only as its suffix (str.index), over alphabet+mark"""
    n = len(literal)
    # KMP automaton on Sigma
    def step(k, a):
        s = literal[:k] + a
        while s and not literal.startswith(s):
            s = s[1:]
        return len(s)
    # states: 0..n-1 (matched prefix length, before the first occurrence), n = just completed (expect mark), n+1 = after mark (anything)
    states = n + 3
    DEAD = n + 2
    alph = list(alphabet) + [mark]
    delta = []
    for k in range(n):
        row = {}
        for a in alphabet:
            row[a] = step(k, a)
        row[mark] = DEAD
        delta.append(row)
    row = {a: DEAD for a in alphabet}
    row[mark] = n + 1
    delta.append(row)                      # state n: the occurrence has just ended, the mark must follow
    row = {a: n + 1 for a in alphabet}
    row[mark] = DEAD
    delta.append(row)                      # state n+1
    delta.append({a: DEAD for a in alph})  # dead
    return DFA(alph, delta, 0, {n + 1})
