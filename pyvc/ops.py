"""Primitive operations on symbolic values: arithmetic, comparison, truthiness, strings, bytes."""
import z3
from .values import (Unsupported, Raised, ExcObj, SBytes, SStr, Opq, Fmt, Choice, Obj, OpaqueVal, PyStr, I,
                     is_z3, is_symint, is_symbool, is_intlike, is_str, zint, zbool, simp, mkstr, segs_of,
                     str_term, str_eq, val_eq, bytes_eq, ufun, hexdigit, lit, concrete_bytes_to_s)


def raise_py(cls, *args):
    raise Raised(ExcObj(cls, args))


def is_concrete(v, depth=0):
    if v is None or isinstance(v, (bool, int, float, str, bytes)):
        return True
    if is_z3(v) or isinstance(v, (SBytes, SStr, Choice, Obj, OpaqueVal, Opq, Fmt, ExcObj)):
        return False
    if type(v).__module__.startswith('pyvc.'):
        return False
    if depth > 6:
        return False
    if isinstance(v, (list, tuple, set, frozenset)):
        return all(is_concrete(x, depth + 1) for x in v)
    if isinstance(v, dict):
        if getattr(v, 'sym', None):
            return False
        return all(is_concrete(k, depth + 1) and is_concrete(x, depth + 1) for k, x in v.items())
    if isinstance(v, (bytearray, memoryview)):
        return True
    return True   # other native objects (modules, enums, functions, compiled regexes...)


# ------------------------------------------------------------------ integers
def _runs(mask):
    """contiguous runs of 1-bits of a non-negative mask: list of (lo, width)"""
    runs = []
    i = 0
    while mask >> i:
        if (mask >> i) & 1:
            j = i
            while (mask >> j) & 1:
                j += 1
            runs.append((i, j - i))
            i = j
        else:
            i += 1
    return runs


def bitand_const(x, c):
    """x & c for symbolic x (mathematical int, two's complement semantics) and concrete c"""
    if c == 0:
        return 0
    if c < 0:
        # x & c == x - (x & ~c), ~c >= 0
        return simp(zint(x) - zint(bitand_const(x, ~c)))
    t = I(0)
    for lo, w in _runs(c):
        t = t + ((zint(x) / I(1 << lo)) % I(1 << w)) * I(1 << lo)
    return simp(t)


def int_binop(ctx, op, a, b):
    ca, cb = isinstance(a, int), isinstance(b, int)
    za, zb = zint(a), zint(b)
    if op == 'Add':
        return simp(za + zb)
    if op == 'Sub':
        return simp(za - zb)
    if op == 'Mult':
        return simp(za * zb)
    if op in ('FloorDiv', 'Mod'):
        if cb:
            if b == 0:
                raise_py(ZeroDivisionError, "integer division or modulo by zero")
            if b > 0:
                return simp(za / zb) if op == 'FloorDiv' else simp(za % zb)
            # negative constant divisor: a // b == (-a) // (-b) floor ... use identity with ceil
            # floor(a/b) for b<0 == floor((-a)/(-b))
            if op == 'FloorDiv':
                return simp((-za) / I(-b))
            return simp(-((-za) % I(-b)))
        if ctx.decide(zb == 0):
            raise_py(ZeroDivisionError, "integer division or modulo by zero")
        if ctx.decide(zb > 0):
            return simp(za / zb) if op == 'FloorDiv' else simp(za % zb)
        if op == 'FloorDiv':
            return simp((-za) / (-zb))
        return simp(-((-za) % (-zb)))
    if op == 'BitAnd':
        if cb:
            return bitand_const(a, b)
        if ca:
            return bitand_const(b, a)
        raise Unsupported("& of two symbolic ints")
    if op == 'BitOr':
        if cb:
            return simp(za + I(b) - zint(bitand_const(a, b)))
        if ca:
            return simp(zb + I(a) - zint(bitand_const(b, a)))
        raise Unsupported("| of two symbolic ints")
    if op == 'BitXor':
        if cb:
            return simp(za + I(b) - 2 * zint(bitand_const(a, b)))
        if ca:
            return simp(zb + I(a) - 2 * zint(bitand_const(b, a)))
        raise Unsupported("^ of two symbolic ints")
    if op == 'LShift':
        if cb:
            if b < 0:
                raise_py(ValueError, "negative shift count")
            return simp(za * I(1 << b))
        raise Unsupported("<< by symbolic amount")
    if op == 'RShift':
        if cb:
            if b < 0:
                raise_py(ValueError, "negative shift count")
            return simp(za / I(1 << b))
        raise Unsupported(">> by symbolic amount")
    if op == 'Pow':
        if cb and 0 <= b <= 4:
            t = I(1)
            for _ in range(b):
                t = t * za
            return simp(t)
        raise Unsupported("** with symbolic operand")
    if op == 'Div':
        from .models import TrueDiv
        return TrueDiv(a, b)
    raise Unsupported("int op " + op)


_NATIVE_OPS = {
    'Add': lambda a, b: a + b, 'Sub': lambda a, b: a - b, 'Mult': lambda a, b: a * b,
    'Div': lambda a, b: a / b, 'FloorDiv': lambda a, b: a // b, 'Mod': lambda a, b: a % b,
    'Pow': lambda a, b: a ** b, 'LShift': lambda a, b: a << b, 'RShift': lambda a, b: a >> b,
    'BitOr': lambda a, b: a | b, 'BitXor': lambda a, b: a ^ b, 'BitAnd': lambda a, b: a & b,
}


def binop(ctx, op, a, b):
    if is_concrete(a) and is_concrete(b):
        try:
            return _NATIVE_OPS[op](a, b)
        except Exception as e:   # the native exception is what Python would raise
            raise Raised(ExcObj(type(e), e.args))
    if isinstance(a, Choice) and not is_str(b):
        a = resolve_choice(ctx, a)
        return binop(ctx, op, a, b)
    if isinstance(b, Choice) and not is_str(a):
        b = resolve_choice(ctx, b)
        return binop(ctx, op, a, b)
    if is_symbool(a):
        a = zint(a)
    if is_symbool(b):
        b = zint(b)
    if is_intlike(a) and is_intlike(b):
        return int_binop(ctx, op, a, b)
    if op == 'Add':
        if (is_str(a) or isinstance(a, Choice)) and (is_str(b) or isinstance(b, Choice)):
            # a guarded union inside a concatenation is resolved by case split so that ropes stay canonical
            if isinstance(a, Choice):
                a = resolve_choice(ctx, a)
            if isinstance(b, Choice):
                b = resolve_choice(ctx, b)
            return mkstr([a, b])
        if isinstance(a, list) and isinstance(b, list):
            return a + b
        if isinstance(a, tuple) and isinstance(b, tuple):
            return a + b
        if isinstance(a, (SBytes, bytes, bytearray)) and isinstance(b, (SBytes, bytes, bytearray)):
            return bytes_concat(ctx, a, b)
    if op == 'Mod' and is_str(a):
        return percent_format(ctx, a, b)
    if op == 'Mult':
        if is_str(a) and isinstance(b, int):
            return mkstr([a] * max(b, 0))
        if is_str(b) and isinstance(a, int):
            return mkstr([b] * max(a, 0))
        if isinstance(a, list) and isinstance(b, int):
            return a * b
        if is_str(a) or is_str(b):
            raise Unsupported("str * symbolic int")
    if is_str(a) and not is_str(b) or is_str(b) and not is_str(a):
        if op == 'Add':
            raise_py(TypeError, "can only concatenate str to str")
    if a is None or b is None:
        raise_py(TypeError, "unsupported operand type(s) for %s: NoneType" % op)
    raise Unsupported("binop %s on %s and %s" % (op, type(a).__name__, type(b).__name__))


def unaryop(ctx, op, a):
    if op == 'Not':
        return not truthy(ctx, a)
    if is_concrete(a):
        try:
            if op == 'USub':
                return -a
            if op == 'UAdd':
                return +a
            if op == 'Invert':
                return ~a
        except Exception as e:
            raise Raised(ExcObj(type(e), e.args))
    if is_intlike(a) or is_symbool(a):
        z = zint(a)
        if op == 'USub':
            return simp(-z)
        if op == 'UAdd':
            return z
        if op == 'Invert':
            return simp(-z - 1)
    raise Unsupported("unary %s on %s" % (op, type(a).__name__))


def resolve_choice(ctx, ch):
    """fork on the alternatives of a Choice; returns the chosen concrete value"""
    for c, v in ch.alts[:-1]:
        if ctx.decide(c):
            return v
    c, v = ch.alts[-1]
    ctx.assume(c)
    return v


# ------------------------------------------------------------------ truthiness
def str_len(ctx, s):
    if isinstance(s, str):
        return len(s)
    if isinstance(s, Choice):
        return simp(ufun('slen', PyStr, z3.IntSort())(s.term()))
    n = 0
    sym = []
    for seg in s.segs:
        if isinstance(seg, int) or is_symint(seg):
            n += 1
        else:
            if isinstance(seg, Opq) and seg.length is not None:
                sym.append(zint(seg.length))
            else:
                t = ufun('slen', PyStr, z3.IntSort())(seg.term if isinstance(seg, Opq) else seg.term())
                ctx.assume(t >= (max(seg.width, 1) if isinstance(seg, Fmt) else 0))
                sym.append(t)
    if not sym:
        return n
    t = I(n)
    for x in sym:
        t = t + x
    return simp(t)


def truthy(ctx, v):
    if v is None:
        return False
    if type(v).__name__ == 'HDict':
        return v.total() > 0
    if type(v).__name__ == 'LazySeq':
        return ctx.decide(zint(v.total_len()) != 0)
    if type(v).__name__ == 'SymDict':
        return len(v.items) > 0
    if isinstance(v, (list, tuple)) and v and all(type(e).__name__ == 'Chunk' for e in v):
        from .seq import seq_len
        t = I(0)
        for e in v:
            ln = zint(e.length) if e.length is not None else seq_len(e.term)
            ctx.assume(ln >= 0)
            t = t + ln
        return ctx.decide(t != 0)
    if isinstance(v, (bool, int, float, str, bytes, bytearray, list, tuple, dict, set, frozenset)):
        return bool(v)
    if is_symbool(v):
        return ctx.decide(v)
    if is_symint(v):
        return ctx.decide(v != 0)
    if isinstance(v, SStr):
        for seg in v.segs:
            if isinstance(seg, int) or is_symint(seg) or isinstance(seg, Fmt):
                return True
        return ctx.decide(zint(str_len(ctx, v)) != 0)
    if isinstance(v, SBytes):
        return ctx.decide(zint(v.ln) != 0)
    if isinstance(v, Choice):
        c = v.cond_where(lambda x: bool(x))
        return ctx.decide(c)
    if isinstance(v, OpaqueVal):
        return ctx.decide(ufun('truthy_' + v.tag, v.term.sort(), z3.BoolSort())(v.term))
    if isinstance(v, memoryview):
        return len(v) != 0
    return True


# ------------------------------------------------------------------ comparison
def compare(ctx, op, a, b):
    """returns bool | z3 Bool"""
    if op == 'Is':
        return is_same(a, b)
    if op == 'IsNot':
        r = is_same(a, b)
        return (not r)
    if op == 'In':
        return contains(ctx, b, a)
    if op == 'NotIn':
        r = contains(ctx, b, a)
        return (not r) if isinstance(r, bool) else simp(z3.Not(r))
    if op == 'Eq':
        return val_eq(a, b)
    if op == 'NotEq':
        r = val_eq(a, b)
        return (not r) if isinstance(r, bool) else simp(z3.Not(r))
    if is_concrete(a) and is_concrete(b):
        try:
            return {'Lt': lambda: a < b, 'LtE': lambda: a <= b, 'Gt': lambda: a > b, 'GtE': lambda: a >= b}[op]()
        except Exception as e:
            raise Raised(ExcObj(type(e), e.args))
    if isinstance(a, Choice):
        a = resolve_choice(ctx, a)
        return compare(ctx, op, a, b)
    if isinstance(b, Choice):
        b = resolve_choice(ctx, b)
        return compare(ctx, op, a, b)
    if (is_intlike(a) or is_symbool(a)) and (is_intlike(b) or is_symbool(b)):
        za, zb = zint(a), zint(b)
        return simp({'Lt': za < zb, 'LtE': za <= zb, 'Gt': za > zb, 'GtE': za >= zb}[op])
    if a is None or b is None:
        raise_py(TypeError, "'%s' not supported between NoneType and value" % op)
    if is_str(a) and is_str(b):
        sa, sb = segs_of(a), segs_of(b)
        if len(sa) == 1 and len(sb) == 1 and all(isinstance(s, int) or is_symint(s) for s in sa + sb):
            return compare(ctx, op, sa[0], sb[0])
        lt = str_lt(ctx, a, b) if op in ('Lt', 'GtE') else str_lt(ctx, b, a)
        if op in ('Lt', 'Gt'):
            return lt
        return simp(z3.Not(lt))
    raise Unsupported("compare %s on %s and %s" % (op, type(a).__name__, type(b).__name__))


def str_lt(ctx, a, b):
    """a < b on opaque strings: an uninterpreted strict total order (axioms instantiated on the terms involved)"""
    if isinstance(a, str) and isinstance(b, str):
        return a < b
    ctx.assumed_models.add("string ordering of opaque names: an arbitrary strict total order (consistent on concrete strings)")
    f = ufun('str_lt', PyStr, PyStr, z3.BoolSort())
    terms = getattr(ctx, 'str_order_terms', None)
    if terms is None:
        terms = ctx.str_order_terms = []
    for x, v in ((str_term(a), a), (str_term(b), b)):
        if any(x.eq(t) for t, _ in terms):
            continue
        ctx.assume(z3.Not(f(x, x)))
        for t, tv in terms:
            ctx.assume(z3.And(z3.Or(f(x, t), f(t, x), x == t), z3.Not(z3.And(f(x, t), f(t, x)))))
            if isinstance(v, str) and isinstance(tv, str):
                ctx.assume(f(x, t) == z3.BoolVal(v < tv))
            for u, _ in terms:
                if not u.eq(t):
                    ctx.assume(z3.And(z3.Implies(z3.And(f(x, t), f(t, u)), f(x, u)), z3.Implies(z3.And(f(t, x), f(x, u)), f(t, u)),
                                      z3.Implies(z3.And(f(t, u), f(u, x)), f(t, x))))
        terms.append((x, v))
    return simp(f(str_term(a), str_term(b)))


def is_same(a, b):
    if a is None or b is None:
        return a is None and b is None
    if isinstance(a, bool) and isinstance(b, bool):
        return a is b
    if isinstance(b, bool) and is_symbool(a):
        # `ret is False` on a symbolic bool: identity on bools is equality
        return simp(zbool(a) == zbool(b))
    if isinstance(a, bool) and is_symbool(b):
        return simp(zbool(a) == zbool(b))
    return a is b


def contains(ctx, container, item):
    if isinstance(container, Choice) and not all(isinstance(v, str) for _, v in container.alts):
        container = resolve_choice(ctx, container)
    if is_concrete(container) and is_concrete(item):
        try:
            return item in container
        except Exception as e:
            raise Raised(ExcObj(type(e), e.args))
    if isinstance(container, (dict, list, tuple, set, frozenset)):
        cs = []
        for k in (container.keys() if isinstance(container, dict) else container):
            e = val_eq(k, item)
            if e is True:
                return True
            if e is not False:
                cs.append(zbool(e))
        if not cs:
            return False
        return simp(z3.Or(*cs)) if len(cs) > 1 else simp(cs[0])
    if is_str(container) or isinstance(container, Choice):
        if not (is_str(item) or isinstance(item, Choice)):
            raise_py(TypeError, "'in <string>' requires string as left operand")
        return str_contains(ctx, container, item)
    if type(container).__name__ == 'SymDict':
        cs = []
        for kk, _ in container.items:
            e = val_eq(kk, item)
            if e is True:
                return True
            if e is not False:
                cs.append(zbool(e))
        if not cs:
            return False
        return simp(z3.Or(*cs)) if len(cs) > 1 else simp(cs[0])
    if isinstance(container, OpaqueVal) and container.tag == 'val' and (is_str(item) or isinstance(item, Choice)):
        from .seq import v_has, Val
        if container.term.sort() == Val:
            return simp(v_has(container.term, str_term(item)))
    if type(container).__name__ == 'FMap':
        return container.contains(item)
    if isinstance(container, OpaqueVal) and container.tag == 'dictlike':
        return simp(ufun('has_key', container.term.sort(), PyStr, z3.BoolSort())(container.term, str_term(item)))
    if container is None:
        raise_py(TypeError, "argument of type 'NoneType' is not iterable")
    raise Unsupported("`in` on %s" % type(container).__name__)


def str_contains(ctx, hay, needle):
    if isinstance(hay, Choice) or isinstance(needle, Choice):
        return simp(ufun('contains', PyStr, PyStr, z3.BoolSort())(str_term(hay), str_term(needle)))
    sh, sn = segs_of(hay), segs_of(needle)
    hc = all(isinstance(s, int) or is_symint(s) for s in sh)
    nc = all(isinstance(s, int) or is_symint(s) for s in sn)
    if hc and nc:
        if len(sn) == 0:
            return True
        if len(sn) > len(sh):
            return False
        alts = []
        for p in range(len(sh) - len(sn) + 1):
            cs = []
            bad = False
            for x, y in zip(sh[p:p + len(sn)], sn):
                if isinstance(x, int) and isinstance(y, int):
                    if x != y:
                        bad = True
                        break
                else:
                    cs.append(zint(x) == zint(y))
            if bad:
                continue
            if not cs:
                return True
            alts.append(z3.And(*cs))
        if not alts:
            return False
        return simp(z3.Or(*alts))
    return simp(ufun('contains', PyStr, PyStr, z3.BoolSort())(str_term(hay), str_term(needle)))


# ------------------------------------------------------------------ formatting
def fmt_int(ctx, v, conv, width=0, fill=' ', prefix=''):
    """canonical rendering of an int as a string value"""
    if isinstance(v, bool):
        v = int(v)
    if isinstance(v, int):
        if conv == 'd':
            s = str(v)
        elif conv == 'X':
            s = '%X' % v
        else:
            s = '%x' % v
        if fill == '0' and v < 0:
            s = '-' + s[1:].rjust(width - 1, '0')
        else:
            s = s.rjust(width, fill)
        return prefix + s
    if is_symbool(v):
        v = zint(v)
    if not is_symint(v):
        raise Unsupported("fmt_int of %r" % (v,))
    if ctx is not None and 0 < width <= (16 if getattr(ctx, 'eager_fmt', False) else 2):
        base = 10 if conv == 'd' else 16
        known_byte = v.get_id() in getattr(ctx, 'byte_terms', ()) and base ** width >= 256
        if known_byte or ctx.is_true(z3.And(v >= 0, v < base ** width)):
            # value provably fits the field: exactly `width` characters
            chars = []
            for i in range(width):
                p = base ** (width - 1 - i)
                d = (v / I(p)) % I(base) if i > 0 else v / I(p)      # v < base**width: the top digit needs no mod
                dig = (d + 48) if base == 10 else hexdigit(d, conv == 'X')
                if fill != '0' and i < width - 1:
                    dig = z3.If(v < p, I(ord(fill)), dig)
                chars.append(simp(dig))
            EXPANSIONS[_exp_key(chars)] = (v, conv)
            return mkstr([prefix] + chars)
    return mkstr([prefix, Fmt(v, conv, width, fill if width else '0')])


EXPANSIONS = {}


def _exp_key(chars):
    return tuple(c.get_id() if is_z3(c) else ('c', c) for c in chars)


def expansion_value(chars, base):
    """if these characters are the eager expansion of a formatted int, that int"""
    r = EXPANSIONS.get(_exp_key(chars))
    if r is not None and ((base == 16 and r[1] in 'xX') or (base == 10 and r[1] == 'd')):
        return r[0]
    return None


def to_str(ctx, v):
    """str(v)"""
    if isinstance(v, str) or isinstance(v, SStr):
        return v
    if isinstance(v, Choice):
        return v
    if v is None or isinstance(v, (bool, float)):
        return str(v)
    if isinstance(v, int):
        return str(v)
    if is_symint(v):
        return fmt_int(ctx, v, 'd')
    if is_symbool(v):
        return Choice([(v, 'True'), (simp(z3.Not(v)), 'False')])
    if isinstance(v, ExcObj):
        return exc_str(ctx, v)
    if is_concrete(v):
        return str(v)
    if isinstance(v, OpaqueVal):
        return mkstr([Opq(ufun('str_of_' + v.tag, v.term.sort(), PyStr)(v.term))])
    if isinstance(v, (list, tuple, dict)):
        return mkstr([Opq(ufun('repr_container', PyStr, PyStr)(lit(repr(type(v)))))])
    raise Unsupported("str() of %s" % type(v).__name__)


def exc_str(ctx, e):
    if len(e.args) == 1 and is_str(e.args[0]):
        return e.args[0]
    if len(e.args) == 0:
        if e.note is not None:
            return mkstr([Opq(e.note)])
        return ''
    if all(is_concrete(a) for a in e.args):
        try:
            return str(e.cls(*e.args))
        except Exception:
            pass
    return mkstr([Opq(ufun('exc_str', PyStr, PyStr)(lit(e.cls.__name__)))])


def parse_spec(spec):
    """format-spec mini language subset: [0][width][dXxs]"""
    import re
    m = re.fullmatch(r'(0?)(\d*)([dXxs]?)', spec)
    if not m:
        raise Unsupported("format spec %r" % spec)
    fill = '0' if m.group(1) else ' '
    width = int(m.group(2)) if m.group(2) else 0
    conv = m.group(3) or ''
    return fill, width, conv


def format_value(ctx, v, spec):
    """format(v, spec) for the supported subset"""
    if spec == '':
        return to_str(ctx, v)
    fill, width, conv = parse_spec(spec)
    if conv in ('d', 'X', 'x') or (conv == '' and (is_intlike(v) and not isinstance(v, bool))):
        if isinstance(v, Choice):
            v = resolve_choice(ctx, v)
        if not (is_intlike(v) or is_symbool(v)):
            if conv == '':
                pass
            else:
                raise_py(ValueError, "Unknown format code '%s' for object of type '%s'" % (conv, pytype_name(v)))
        else:
            return fmt_int(ctx, v, conv or 'd', width, fill)
    if conv in ('s', ''):
        s = to_str(ctx, v)
        if isinstance(s, Choice):
            s = resolve_choice(ctx, s)
        if width == 0:
            return s
        if isinstance(s, str):
            return format(s, spec)
        raise Unsupported("padded %s format of symbolic string")
    raise Unsupported("format spec %r" % spec)


def pytype_name(v):
    if is_str(v):
        return 'str'
    if is_intlike(v):
        return 'int'
    if v is None:
        return 'NoneType'
    return type(v).__name__


def percent_format(ctx, fmt, args):
    import re
    if not isinstance(fmt, str):
        # symbolic format string: assumed contract (function of format text and arguments; may raise)
        return opaque_format(ctx, 'pct', fmt, args)
    if not isinstance(args, tuple):
        args = (args,)
    if is_concrete(args):
        try:
            return fmt % args
        except Exception as e:
            raise Raised(ExcObj(type(e), e.args))
    out = []
    pos = 0
    ai = 0
    for m in re.finditer(r'%(0?)(\d*)([dXxsc%])', fmt):
        out.append(fmt[pos:m.start()])
        pos = m.end()
        if m.group(3) == '%':
            out.append('%')
            continue
        if ai >= len(args):
            raise_py(TypeError, "not enough arguments for format string")
        a = args[ai]
        ai += 1
        fill = '0' if m.group(1) else ' '
        width = int(m.group(2)) if m.group(2) else 0
        conv = m.group(3)
        if conv in 'dXx':
            if isinstance(a, Choice):
                a = resolve_choice(ctx, a)
            if not (is_intlike(a) or is_symbool(a)):
                raise_py(TypeError, "%%%s format: a real number is required, not %s" % (conv, pytype_name(a)))
            out.append(fmt_int(ctx, a, conv, width, fill))
        elif conv == 's':
            s = to_str(ctx, a)
            if isinstance(s, Choice):
                s = resolve_choice(ctx, s)
            if width:
                if isinstance(s, str):
                    s = s.rjust(width)
                else:
                    raise Unsupported("%Ns of symbolic string")
            out.append(s)
        elif conv == 'c':
            if is_intlike(a):
                out.append(mkstr([a]))
            else:
                out.append(a)
    if '%' in re.sub(r'%(0?)(\d*)([dXxsc%])', '', fmt):
        raise Unsupported("percent format %r" % fmt)
    out.append(fmt[pos:])
    if ai != len(args):
        raise_py(TypeError, "not all arguments converted during string formatting")
    return mkstr(out)


def format_terms(ctx, kind, fmt, args):
    """(ok, result, err_is_type) terms of the assumed contract for formatting with a symbolic format string"""
    if not isinstance(args, (tuple, list)):
        args = (args,)
    key = ufun('fmtargs_nil', PyStr)()
    for a in args:
        if is_intlike(a) or is_symbool(a):
            key = ufun('fmtargs_int', PyStr, z3.IntSort(), PyStr)(key, zint(a))
        else:
            key = ufun('fmtargs_str', PyStr, PyStr, PyStr)(key, str_term(to_str(ctx, a)))
    ft = str_term(fmt)
    ok = ufun('fmt_ok_' + kind, PyStr, PyStr, z3.BoolSort())(ft, key)
    res = ufun('fmt_res_' + kind, PyStr, PyStr, PyStr)(ft, key)
    et = ufun('fmt_err_is_type_' + kind, PyStr, PyStr, z3.BoolSort())(ft, key)
    return ok, res, et, ufun('fmt_err_msg', PyStr, PyStr, PyStr)(ft, key)


def opaque_format(ctx, kind, fmt, args):
    """assumed contract for formatting with a symbolic format string"""
    ctx.assumed_models.add("str %s-formatting with a symbolic format: function of (format, args); may raise "
                           "TypeError/ValueError/OverflowError" % kind)
    ok, res, et, msg = format_terms(ctx, kind, fmt, args)
    if ctx.decide(ok):
        return mkstr([Opq(res)])
    if ctx.decide(et):
        raise Raised(ExcObj(TypeError, (), note=msg))
    # e.g. '%c' % 0x110000 raises OverflowError
    if ctx.decide(ufun('fmt_err_is_overflow_' + kind, PyStr, z3.BoolSort())(msg)):
        raise Raised(ExcObj(OverflowError, (), note=msg))
    raise Raised(ExcObj(ValueError, (), note=msg))


def expand_fmt(ctx, f):
    """turn a Fmt segment into characters (forks on the number of digits)"""
    v = zint(f.val)
    base = 10 if f.conv == 'd' else 16
    if ctx.decide(v < 0):
        raise Unsupported("character expansion of a negative formatted int")
    nd = None
    if f.width > 0 and ctx.is_true(v < base ** f.width):
        nd = f.width            # fits the field: exactly `width` characters, no case split
        chars = []
        for i in range(nd):
            p = base ** (nd - 1 - i)
            d = (v / I(p)) % I(base) if i > 0 else v / I(p)
            dig = (d + 48) if base == 10 else hexdigit(d, f.conv == 'X')
            if f.fill != '0' and i < nd - 1:
                dig = z3.If(v < p, I(ord(f.fill)), dig)
            chars.append(simp(dig))
        EXPANSIONS[_exp_key(chars)] = (v, f.conv)
        return chars
    for k in range(1, 21):
        if ctx.decide(v < base ** k):
            nd = k
            break
    if nd is None:
        raise Unsupported("formatted int too wide to expand")
    digs = []
    for i in reversed(range(nd)):
        d = simp((v / I(base ** i)) % I(base))
        if base == 10:
            digs.append(simp(d + 48) if is_z3(d) else d + 48)
        else:
            digs.append(simp(hexdigit(d, f.conv == 'X')) if is_z3(d) else hexdigit(d, f.conv == 'X'))
    pad = [ord(f.fill)] * max(0, f.width - nd)
    return pad + digs


def expand_str(ctx, s):
    """string value -> list of code points, expanding Fmt segments; Unsupported on opaque ones"""
    if isinstance(s, Choice):
        s = resolve_choice(ctx, s)
    out = []
    for seg in segs_of(s):
        if isinstance(seg, int) or is_symint(seg):
            out.append(seg)
        elif isinstance(seg, Fmt):
            out.extend(expand_fmt(ctx, seg))
        else:
            raise Unsupported("character access into an opaque string")
    return out


# ------------------------------------------------------------------ string methods
def str_index(ctx, s, i):
    if isinstance(s, str) and isinstance(i, int):
        try:
            return s[i]
        except IndexError as e:
            raise Raised(ExcObj(IndexError, e.args))
    if not isinstance(i, int):
        raise Unsupported("string index by symbolic int")
    segs = segs_of(s) if not isinstance(s, Choice) else None
    if segs is not None and not all(isinstance(x, int) or is_symint(x) for x in segs):
        # try to answer without expanding when the index falls into a leading/trailing char run
        rng = range(0, i + 1) if i >= 0 else range(i, 0)
        try:
            if all(isinstance(segs[j], int) or is_symint(segs[j]) for j in rng):
                return mkstr([segs[i]])
        except IndexError:
            pass
    chars = expand_str(ctx, s)
    n = len(chars)
    if not (-n <= i < n):
        raise_py(IndexError, "string index out of range")
    return mkstr([chars[i]])


def str_slice(ctx, s, lo, hi, step=None):
    if step not in (None, 1):
        raise Unsupported("string slice with step")
    if isinstance(s, str) and (lo is None or isinstance(lo, int)) and (hi is None or isinstance(hi, int)):
        return s[lo:hi]
    if not ((lo is None or isinstance(lo, int)) and (hi is None or isinstance(hi, int))):
        raise Unsupported("string slice with symbolic bounds")
    if isinstance(s, Choice):
        return s.map(lambda v: v[lo:hi])
    segs = list(segs_of(s))
    allc = all(isinstance(x, int) or is_symint(x) for x in segs)
    if allc:
        return mkstr(segs[lo:hi])
    # prefix / suffix handling without expansion
    def ischar(x):
        return isinstance(x, int) or is_symint(x)
    a = 0 if lo is None else lo
    if a >= 0 and all(ischar(x) for x in segs[:a]) and len(segs) >= a:
        if hi is None:
            return mkstr(segs[a:])
        if hi >= 0 and all(ischar(x) for x in segs[:hi]) and len(segs) >= hi:
            return mkstr(segs[a:hi])
        if hi < 0 and all(ischar(x) for x in segs[hi:]) and len(segs) >= -hi:
            return mkstr(segs[a:hi])
    if a < 0 and hi is None and all(ischar(x) for x in segs[a:]) and len(segs) >= -a:
        return mkstr(segs[a:])
    if any(isinstance(x, Fmt) for x in segs) and not any(isinstance(x, Opq) for x in segs):
        chars = expand_str(ctx, s)
        return mkstr(chars[lo:hi])
    f = ufun('substr_%s_%s' % (lo, hi), PyStr, PyStr)
    ctx.assumed_models.add("str slicing of an opaque string: function of (string, bounds)")
    return mkstr([Opq(f(str_term(s)))])


def str_map_case(ctx, s, upper):
    if isinstance(s, str):
        return s.upper() if upper else s.lower()
    if isinstance(s, Choice):
        return s.map(lambda v: v.upper() if upper else v.lower())
    out = []
    for seg in s.segs:
        if isinstance(seg, int):
            out.append(ord(chr(seg).upper() if upper else chr(seg).lower()) if seg < 128 else seg)
        elif is_symint(seg):
            # ASCII case mapping; code points >= 128 go through an uninterpreted function
            f = ufun('casemap_hi_%s' % ('u' if upper else 'l'), z3.IntSort(), z3.IntSort())
            if upper:
                out.append(z3.If(z3.And(seg >= 97, seg <= 122), seg - 32, z3.If(seg < 128, seg, f(seg))))
            else:
                out.append(z3.If(z3.And(seg >= 65, seg <= 90), seg + 32, z3.If(seg < 128, seg, f(seg))))
        elif isinstance(seg, Fmt):
            conv = seg.conv
            if conv in 'Xx':
                conv = 'X' if upper else 'x'
            out.append(Fmt(seg.val, conv, seg.width, seg.fill))
        else:
            out.append(Opq(ufun('upper' if upper else 'lower', PyStr, PyStr)(seg.term)))
    return mkstr(out)


def str_strip(ctx, s, chars, mode):
    name = {'b': 'strip', 'l': 'lstrip', 'r': 'rstrip'}[mode]
    if isinstance(s, str) and (chars is None or isinstance(chars, str)):
        return getattr(s, name)(chars)
    if chars is not None and not isinstance(chars, str):
        raise Unsupported("strip with symbolic chars")
    if isinstance(s, Choice):
        return s.map(lambda v: getattr(v, name)(chars))
    if isinstance(s, SStr) and s.all_chars() and getattr(ctx, 'exact_strip', False) and len(s.segs) <= 64:
        # exact, by case split on each end character (units that need the characters of the stripped text)
        cs = list(s.segs)
        codes = [ord(c) for c in chars] if chars is not None else [9, 10, 11, 12, 13, 28, 29, 30, 31, 32]
        if chars is None:
            for x in cs:
                if is_z3(x) and not ctx.is_true(x < 128):
                    raise Unsupported("whitespace strip of non-ASCII symbolic text")

        def in_set(x):
            if isinstance(x, int):
                return x in codes
            return simp(z3.Or(*[x == k for k in codes]))
        if mode in ('b', 'r'):
            while cs and ctx.decide(in_set(cs[-1])):
                cs.pop()
        if mode in ('b', 'l'):
            while cs and ctx.decide(in_set(cs[0])):
                cs.pop(0)
        return mkstr(cs)
    if isinstance(s, SStr) and s.all_chars() and chars is not None and len(s.segs) <= 128:
        # exact on concrete-shape strings when the path condition determines which end characters are in `chars`
        cs = list(s.segs)
        codes = [ord(c) for c in chars]

        def status(x):
            if isinstance(x, int):
                return x in codes
            c = simp(z3.Or(*[x == k for k in codes]))
            if ctx.is_true(c):
                return True
            if ctx.is_true(z3.Not(c)):
                return False
            return None
        determined = True
        if mode in ('b', 'r'):
            while cs:
                st = status(cs[-1])
                if st is None and chars == '\n':
                    # line-ending idiom: fork on a trailing newline
                    st = ctx.decide(cs[-1] == 10)
                if st is None:
                    determined = False
                    break
                if not st:
                    break
                cs.pop()
        if determined and mode in ('b', 'l'):
            while cs:
                st = status(cs[0])
                if st is None:
                    determined = False
                    break
                if not st:
                    break
                cs.pop(0)
        if determined:
            return mkstr(cs)
    ctx.assumed_models.add("str.strip/rstrip/lstrip on symbolic text: function of (string, chars)")
    f = ufun('%s_%s' % (name, 'ws' if chars is None else '_'.join('%02x' % ord(c) for c in chars)), PyStr, PyStr)
    return mkstr([Opq(f(str_term(s)))])


def str_startswith(ctx, s, prefix, ends=False):
    if isinstance(s, str) and isinstance(prefix, str):
        return s.endswith(prefix) if ends else s.startswith(prefix)
    if isinstance(s, Choice):
        if isinstance(prefix, str):
            return s.cond_where(lambda v: v.endswith(prefix) if ends else v.startswith(prefix))
    if isinstance(prefix, tuple):
        raise Unsupported("startswith(tuple)")
    ss, ps = list(segs_of(s)), list(segs_of(prefix))
    if ends:
        ss.reverse()
        ps.reverse()

    def ischar(x):
        return isinstance(x, int) or is_symint(x)
    if all(ischar(x) for x in ps) and len(ss) >= len(ps) and all(ischar(x) for x in ss[:len(ps)]):
        cs = []
        for x, y in zip(ss, ps):
            if isinstance(x, int) and isinstance(y, int):
                if x != y:
                    return False
            else:
                cs.append(zint(x) == zint(y))
        return simp(z3.And(*cs)) if cs else True
    if all(ischar(x) for x in ss) and all(ischar(x) for x in ps) and len(ss) < len(ps):
        return False
    if any(isinstance(x, Fmt) for x in ss + ps) and not any(isinstance(x, Opq) for x in ss + ps):
        a = expand_str(ctx, s)
        b = expand_str(ctx, prefix)
        return str_startswith(ctx, mkstr(a), mkstr(b), ends)
    f = ufun('endswith' if ends else 'startswith', PyStr, PyStr, z3.BoolSort())
    return simp(f(str_term(s), str_term(prefix)))


def str_join(ctx, sep, items):
    out = []
    first = True
    for it in items:
        if not (is_str(it) or isinstance(it, Choice)):
            raise_py(TypeError, "sequence item: expected str instance")
        if isinstance(it, Choice):
            it = resolve_choice(ctx, it)
        if not first:
            out.append(sep)
        out.append(it)
        first = False
    return mkstr(out)


def str_ljust(ctx, s, width, fill=' ', right=False):
    if isinstance(s, str) and isinstance(width, int):
        return s.rjust(width, fill) if right else s.ljust(width, fill)
    if not isinstance(width, int):
        raise Unsupported("ljust with symbolic width")
    segs = segs_of(s)
    if all(isinstance(x, int) or is_symint(x) for x in segs):
        pad = [ord(fill)] * max(0, width - len(segs))
        return mkstr(pad + list(segs)) if right else mkstr(list(segs) + pad)
    ctx.assumed_models.add("str.ljust on opaque text: function of (string, width)")
    return mkstr([Opq(ufun('%s_%d_%02x' % ('rjust' if right else 'ljust', width, ord(fill)), PyStr, PyStr)(str_term(s)))])


# ------------------------------------------------------------------ bytes
def as_sbytes(b):
    if isinstance(b, SBytes):
        return b
    if isinstance(b, (bytes, bytearray, memoryview)):
        return concrete_bytes_to_s(b)
    raise Unsupported("not bytes: %r" % type(b))


def bytes_len(b):
    if isinstance(b, SBytes):
        return b.ln
    return len(b)


def note_read(ctx, sb, lo, hi):
    if sb.root is not None:
        sb.root.reads.append((simp(lo), simp(hi)))


def bytes_index(ctx, b, i):
    if not isinstance(b, SBytes):
        if isinstance(i, int):
            try:
                return b[i]
            except IndexError as e:
                raise Raised(ExcObj(IndexError, e.args))
        b = as_sbytes(b)
    ln = zint(b.ln)
    zi = zint(i)
    if not ctx.decide(z3.And(zi >= -ln, zi < ln)):
        raise_py(IndexError, "index out of range")
    if isinstance(i, int):
        idx = zi if i >= 0 else zi + ln
    else:
        idx = z3.If(zi >= 0, zi, zi + ln)
    note_read(ctx, b, zint(b.off) + idx, zint(b.off) + idx + 1)
    v = simp(b.at(idx))
    if is_z3(v):
        ctx.assume(z3.And(v >= 0, v <= 255))
    return v


def _clamp(ctx, x, ln, default):
    """CPython slice index adjustment for step 1"""
    if x is None:
        return default
    zl = zint(ln)
    zx = zint(x)
    if isinstance(x, int) and isinstance(ln, int):
        if x < 0:
            x += ln
            if x < 0:
                x = 0
        elif x > ln:
            x = ln
        return x
    adj = z3.If(zx < 0, z3.If(zx + zl < 0, I(0), zx + zl), z3.If(zx > zl, zl, zx))
    return simp(adj)


def bytes_slice(ctx, b, lo, hi, step=None):
    if step not in (None, 1):
        raise Unsupported("bytes slice with step")
    if not isinstance(b, SBytes):
        if (lo is None or isinstance(lo, int)) and (hi is None or isinstance(hi, int)):
            return b[lo:hi]
        b = as_sbytes(b)
    ln = b.ln
    if lo is not None and hi is not None and not (isinstance(lo, int) and isinstance(hi, int) and isinstance(ln, int)) \
            and ctx.is_true(z3.And(zint(lo) >= 0, zint(hi) >= zint(lo), zint(hi) <= zint(ln))):
        n = simp(zint(hi) - zint(lo))
        note_read(ctx, b, zint(b.off) + zint(lo), zint(b.off) + zint(hi))
        return SBytes(b.arr, simp(zint(b.off) + zint(lo)), n, b.kind, b.root)
    s = _clamp(ctx, lo, ln, 0)
    e = _clamp(ctx, hi, ln, ln)
    if isinstance(s, int) and isinstance(e, int):
        n = max(0, e - s)
    else:
        n = simp(z3.If(zint(e) - zint(s) > 0, zint(e) - zint(s), I(0)))
    note_read(ctx, b, zint(b.off) + zint(s), zint(b.off) + zint(s) + zint(n))
    return SBytes(b.arr, simp(zint(b.off) + zint(s)), n, b.kind, b.root)


def bytes_concat(ctx, a, b):
    a, b = as_sbytes(a), as_sbytes(b)
    if isinstance(a.ln, int) and isinstance(b.ln, int):
        arr = z3.K(z3.IntSort(), I(0))
        for i in range(a.ln):
            arr = z3.Store(arr, I(i), a.at(i))
        for i in range(b.ln):
            arr = z3.Store(arr, I(a.ln + i), b.at(i))
        return SBytes(arr, 0, a.ln + b.ln, a.kind)
    raise Unsupported("concatenation of symbolic-length bytes")


def int_from_bytes(ctx, b, byteorder, signed=False):
    if not isinstance(b, SBytes):
        if isinstance(byteorder, str) and isinstance(signed, bool):
            try:
                return int.from_bytes(b, byteorder=byteorder, signed=signed)
            except Exception as e:
                raise Raised(ExcObj(type(e), e.args))
        b = as_sbytes(b)
    if isinstance(byteorder, Choice):
        byteorder = resolve_choice(ctx, byteorder)
    if byteorder not in ('big', 'little'):
        if isinstance(byteorder, str):
            raise_py(ValueError, "byteorder must be either 'little' or 'big'")
        if byteorder is None or isinstance(byteorder, (int, bytes, list, tuple, dict)):
            raise_py(TypeError, "from_bytes() argument 'byteorder' must be str, not %s" % pytype_name(byteorder))
        raise Unsupported("symbolic byteorder")
    if not isinstance(signed, bool):
        signed = truthy(ctx, signed)
    n = b.ln
    if isinstance(n, int):
        t = I(0)
        for i in range(n):
            v = b.at(i)
            ctx.assume(z3.And(v >= 0, v <= 255))
            w = (n - 1 - i) if byteorder == 'big' else i
            t = t + v * I(256 ** w)
        if signed and n > 0:
            t = z3.If(t >= I(256 ** n // 2), t - I(256 ** n), t)
        return simp(t)
    f = ufun('int_from_bytes_%s_%s' % (byteorder, 's' if signed else 'u'), b.arr.sort(), z3.IntSort(),
             z3.IntSort(), z3.IntSort())
    r = f(b.arr, zint(b.off), zint(n))
    if not signed:
        ctx.assume(r >= 0)
    ctx.assumed_models.add("int.from_bytes on a symbolic-length view: function of the bytes")
    return r


def bytes_hex(ctx, b, upper=False):
    if not isinstance(b, SBytes):
        return bytes(b).hex()
    if isinstance(b.ln, int):
        out = []
        for i in range(b.ln):
            v = b.at(i)
            ctx.assume(z3.And(v >= 0, v <= 255))
            hi, lo = simp(v / 16), simp(v % 16)
            out.append(simp(hexdigit(hi, upper)) if is_z3(hi) else hexdigit(hi, upper))
            out.append(simp(hexdigit(lo, upper)) if is_z3(lo) else hexdigit(lo, upper))
        return mkstr(out)
    ctx.assumed_models.add("bytes.hex on a symbolic-length view: function of the bytes")
    f = ufun('hexstr', b.arr.sort(), z3.IntSort(), z3.IntSort(), PyStr)
    return mkstr([Opq(f(b.arr, zint(b.off), zint(b.ln)), length=simp(2 * zint(b.ln)))])


def decode_term(b, codec='utf8'):
    return ufun('decode_' + codec, b.arr.sort(), z3.IntSort(), z3.IntSort(), PyStr)(b.arr, zint(b.off), zint(b.ln))


def bytes_decode(ctx, b, encoding='utf-8', errors='strict'):
    """bytes.decode: ASCII content -> the same characters; otherwise an assumed function of the
    bytes that may raise UnicodeDecodeError (uninterpreted predicate utf8_valid)"""
    if not isinstance(b, SBytes):
        try:
            return bytes(b).decode(encoding, errors)
        except Exception as e:
            raise Raised(ExcObj(type(e), e.args))
    enc = encoding.lower().replace('-', '').replace('_', '')
    if enc not in ('utf8', 'ascii'):
        raise Unsupported("decode with encoding %r" % encoding)
    if errors not in ('strict', 'ignore'):
        raise Unsupported("decode errors=%r" % errors)
    if isinstance(b.ln, int):
        bs = [b.at(i) for i in range(b.ln)]
        for v in bs:
            ctx.assume(z3.And(v >= 0, v <= 255))
        ascii_ = z3.And(*[v < 128 for v in bs]) if bs else True
        if ctx.decide(ascii_):
            return mkstr([simp(v) for v in bs])
    ctx.assumed_models.add("bytes.decode on non-ASCII or symbolic-length content: function of the bytes; "
                           "raises UnicodeDecodeError iff not utf8_valid(bytes)")
    if errors == 'ignore':
        return mkstr([Opq(decode_term(b, enc + '_ignore'))])
    valid = ufun(enc + '_valid', b.arr.sort(), z3.IntSort(), z3.IntSort(), z3.BoolSort())(b.arr, zint(b.off), zint(b.ln))
    if ctx.decide(valid):
        return mkstr([Opq(decode_term(b, enc))])
    raise_py(UnicodeDecodeError, enc, b'', 0, 1, 'invalid start byte')


def hexval(c):
    """value of a hex digit code point (z3)"""
    c = zint(c)
    return z3.If(c <= 57, c - 48, z3.If(c <= 70, c - 55, c - 87))


def is_hexdigit(c):
    c = zint(c)
    return z3.Or(z3.And(c >= 48, c <= 57), z3.And(c >= 65, c <= 70), z3.And(c >= 97, c <= 102))


def bytes_fromhex(ctx, s):
    if isinstance(s, str):
        try:
            return bytes.fromhex(s)
        except Exception as e:
            raise Raised(ExcObj(type(e), e.args))
    chars = expand_str(ctx, s)
    # CPython skips ASCII whitespace between bytes; we support exactly 2n hex digits
    if len(chars) % 2:
        # odd length: ValueError unless whitespace is involved
        ws = z3.Or(*[z3.Or(zint(c) == 32, z3.And(zint(c) >= 9, zint(c) <= 13)) for c in chars])
        if ctx.decide(ws):
            raise Unsupported("bytes.fromhex with whitespace")
        raise_py(ValueError, "non-hexadecimal number found in fromhex() arg")
    ok = z3.And(*[is_hexdigit(c) for c in chars]) if chars else True
    if not ctx.decide(ok):
        ws = z3.Or(*[z3.Or(zint(c) == 32, z3.And(zint(c) >= 9, zint(c) <= 13)) for c in chars])
        if ctx.decide(ws):
            raise Unsupported("bytes.fromhex with whitespace")
        raise_py(ValueError, "non-hexadecimal number found in fromhex() arg")
    arr = z3.K(z3.IntSort(), I(0))
    for i in range(0, len(chars), 2):
        arr = z3.Store(arr, I(i // 2), simp(hexval(chars[i]) * 16 + hexval(chars[i + 1])))
    return SBytes(arr, 0, len(chars) // 2, 'bytes')
