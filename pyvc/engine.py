"""Path exploration by decision replay, obligations, solver access."""
import subprocess
import tempfile
import time
import os
import z3

from .values import (simp, zbool, zint, lits_distinct, lit_table, Unsupported, Raised, SBytes, RootBuf,
                     ByteArr, PyStr, is_z3, I)


class Infeasible(Exception):
    pass


class PathEnd(Exception):
    """stop this path (e.g. after the inductive step of a loop invariant)"""


class ModelInfo:
    """picklable counterexample: concrete input values + the solver's model text"""

    def __init__(self, values, text):
        self.values = values
        self.text = text


class Obligation:
    __slots__ = ('name', 'status', 'detail', 'model', 'goal', 'solver', 'secs', 'path', 'kind')

    def __init__(self, name, status, detail='', model=None, goal=None, solver='z3', secs=0.0, path=None, kind='post'):
        self.name = name
        self.status = status      # 'discharged' | 'failed' | 'unknown'
        self.detail = detail
        self.model = model
        self.goal = goal
        self.solver = solver
        self.secs = secs
        self.path = path
        self.kind = kind


# verdicts must not flip when all cores are busy: the deciding limit is z3's deterministic resource counter (rlimit);
# the wall-clock timeout is only a generous safety net
Z3_TIMEOUT_MS = int(os.environ.get("PYVC_Z3_TIMEOUT_MS", "90000"))
Z3_RLIMIT = int(os.environ.get("PYVC_Z3_RLIMIT", "40000000"))
CVC5_TIMEOUT_S = int(os.environ.get("PYVC_CVC5_TIMEOUT_S", "30"))


def cvc5_check(solver, extra):
    """second opinion on `unknown`: export the query to SMT-LIB and run /usr/bin/cvc5"""
    s2 = z3.Solver()
    s2.add(solver.assertions())
    for e in extra:
        s2.add(e)
    txt = s2.to_smt2()
    txt = "(set-logic ALL)\n" + txt
    with tempfile.NamedTemporaryFile('w', suffix='.smt2', delete=False) as f:
        f.write(txt)
        fn = f.name
    try:
        r = subprocess.run(['/usr/bin/cvc5', '--tlimit=%d' % (CVC5_TIMEOUT_S * 1000), fn],
                           capture_output=True, text=True, timeout=CVC5_TIMEOUT_S + 10)
        out = r.stdout.strip().splitlines()
        if out and out[0] in ('sat', 'unsat'):
            return out[0]
        return 'unknown'
    except Exception:
        return 'unknown'
    finally:
        os.unlink(fn)


class Ctx:
    """one symbolic execution path"""
    cvc5_calls = 0      # per process (one unit run): the second-opinion solver is tried on the first few unknowns only

    def __init__(self, prefix=(), assert_on=True, concrete=False):
        self.solver = z3.Solver()
        self.solver.set('timeout', Z3_TIMEOUT_MS)
        self.solver.set('rlimit', Z3_RLIMIT)
        self.uncertain = False    # a feasibility query came back `unknown`: this path may be infeasible
        self.prefix = list(prefix)
        self.trace = []
        self.pending = []
        self.obligations = []
        self.assert_on = assert_on
        self.concrete = concrete
        self.n_fresh = 0
        self.stdout = []
        self.stderr = []
        self.fs = []
        self.imports = []
        self.plugin_calls = []
        self.events = []          # all ghost events in order: (channel, payload)
        self.globals = {}         # (module, name) -> per-path value of mutable module globals
        self.contracts = {}
        self.invariants = {}
        self.target = None
        self.used_contracts = set()
        self.inlined = set()
        self.assumed_models = set()
        self.shared_ids = {}
        self.new_ids = set()
        self.write_log = None
        self.max_unroll = 64
        self.solver_secs = 0.0
        self.n_queries = 0
        self.input_syms = {}      # name -> z3 const (for model extraction)
        self.unknown_feasible = 0
        self.notes = []
        self.steps = 0
        self.max_steps = 400000
        self.ghost = {}

    # ---- symbols
    def fresh(self, base, sort=None):
        self.n_fresh += 1
        name = "%s!%d" % (base, self.n_fresh)
        if not isinstance(sort, (str, type(None))):
            return z3.Const(name, sort)
        if sort is None or sort == 'int':
            return z3.Int(name)
        if sort == 'bool':
            return z3.Bool(name)
        if sort == 'str':
            return z3.Const(name, PyStr)
        if sort == 'arr':
            return z3.Const(name, ByteArr)
        return z3.Const(name, sort)

    # ---- ghost events
    def emit(self, channel, payload):
        self.events.append((channel, payload))
        getattr(self, channel).append(payload)

    # ---- path condition
    def assume(self, cond):
        cond = simp(cond)
        if cond is True:
            return
        if cond is False:
            raise Infeasible()
        self.solver.add(zbool(cond))

    def _sync_lits(self):
        n = len(lit_table())
        if n != getattr(self, '_lits_n', 0):
            self._lits_n = n
            self.solver.add(lits_distinct())

    def _check(self, *extra):
        t0 = time.time()
        self._sync_lits()
        r = self.solver.check(*extra)
        self.solver_secs += time.time() - t0
        self.n_queries += 1
        return r

    def feasible(self, cond):
        fr = getattr(self, 'feasibility_rlimit', None)
        if fr:
            # contexts with quantified assumptions: a satisfiable branch is rarely *shown* satisfiable (no model construction
            # under quantifiers), so do not spend the full budget on it - `unknown` keeps the branch and marks the path uncertain
            self.solver.set('rlimit', fr)
            try:
                r = self._check(zbool(cond))
            finally:
                self.solver.set('rlimit', Z3_RLIMIT)
        else:
            r = self._check(zbool(cond))
        if r == z3.unknown:
            self.unknown_feasible += 1
            self.uncertain = True
        return r != z3.unsat

    def decide(self, cond):
        """branch on a (possibly symbolic) condition; returns a Python bool"""
        cond = simp(cond)
        if isinstance(cond, bool):
            return cond
        if not is_z3(cond):
            return bool(cond)
        k = len(self.trace)
        if k < len(self.prefix):
            choice = self.prefix[k]
        else:
            if getattr(self, 'deadline', None) and time.time() > self.deadline:
                raise Unsupported("time budget exceeded")
            t = self.feasible(cond)
            if not t:
                # the path condition is satisfiable (it was when we got here), so the negation must be
                f = True
            else:
                f = self.feasible(z3.Not(cond))
            if t and f:
                self.pending.append(self.trace + [False])
                choice = True
            elif t:
                choice = True
            elif f:
                choice = False
            else:
                raise Infeasible()
        self.trace.append(choice)
        self.solver.add(cond if choice else z3.Not(cond))
        return choice

    def concretize(self, t):
        """if the path condition fixes the value of an int term, return that Python int (sound rewriting)"""
        if not is_z3(t):
            return t
        if self._check() != z3.sat:
            return t
        v = self.solver.model().eval(t, model_completion=True)
        if not z3.is_int_value(v):
            return t
        if self._check(t != v) == z3.unsat:
            return v.as_long()
        return t

    def is_true(self, cond):
        """is cond valid under the path condition? (no branching)"""
        cond = simp(cond)
        if isinstance(cond, bool):
            return cond
        return self._check(z3.Not(cond)) == z3.unsat

    # ---- obligations
    def prove(self, goal, name, kind='post', detail=''):
        goal = simp(goal)
        if goal is True:
            self.obligations.append(Obligation(name, 'discharged', detail, solver='trivial', kind=kind,
                                               path=list(self.trace)))
            return True
        if goal is False:
            g = z3.BoolVal(False)
        else:
            g = zbool(goal)
        t0 = time.time()
        r = self._check(z3.Not(g))
        solver = 'z3'
        if r == z3.unknown and Ctx.cvc5_calls < 6:
            Ctx.cvc5_calls += 1
            r2 = cvc5_check(self.solver, [lits_distinct(), z3.Not(g)])
            solver = 'cvc5'
            if r2 == 'unsat':
                r = z3.unsat
            elif r2 == 'sat':
                r = 'sat-cvc5'
        secs = time.time() - t0
        if r == z3.unsat:
            self.obligations.append(Obligation(name, 'discharged', detail, solver=solver, secs=secs, kind=kind,
                                               goal=g.sexpr()[:300], path=list(self.trace)))
            self.solver.add(g)
            return True
        if self.uncertain and r in (z3.sat, 'sat-cvc5'):
            # the path condition itself could not be established: do not call this a failure
            self.obligations.append(Obligation(name, 'unknown', detail + ' (path feasibility unknown)', goal=g.sexpr()[:2000],
                                               solver=solver, secs=secs, kind=kind, path=list(self.trace)))
            self.assume(g)
            return False
        if r == z3.sat:
            m = self.solver.model()
            for hints in self.small_hints():
                if self.solver.check(z3.Not(g), *hints) == z3.sat:
                    m = self.solver.model()
                    break
            if getattr(self, 'extractor', None):
                m = ModelInfo(self.extractor(m), str(m)[:3000])
            self.obligations.append(Obligation(name, 'failed', detail, model=m, goal=g.sexpr()[:2000], solver=solver,
                                               secs=secs, kind=kind, path=list(self.trace)))
        elif r == 'sat-cvc5':
            self.obligations.append(Obligation(name, 'failed', detail + ' (cvc5 sat, no model)', model=None,
                                               goal=g.sexpr()[:2000], solver=solver, secs=secs, kind=kind,
                                               path=list(self.trace)))
        else:
            self.obligations.append(Obligation(name, 'unknown', detail + ' reason=' + self.solver.reason_unknown(),
                                               goal=g.sexpr()[:2000], solver=solver, secs=secs, kind=kind,
                                               path=list(self.trace)))
        # continue the path under the assumption that the goal holds
        try:
            self.assume(g)
        except Infeasible:
            raise
        return False

    def small_hints(self):
        """progressively looser size hints used only to pick a small counterexample"""
        out = []
        for ln, iv in ((96, 300), (1024, 70000), (16384, 70000)):
            hs = []
            for name, desc in self.input_syms.items():
                if desc[0] == 'bytes' and not isinstance(desc[2], int):
                    hs.append(desc[2] <= ln)
                elif desc[0] == 'int':
                    hs.append(z3.And(desc[1] >= -iv, desc[1] <= iv))
            if hs:
                out.append(hs)
        return out

    def fail(self, name, detail, kind='frame'):
        """an obligation that fails syntactically / structurally on this (feasible) path"""
        r = self._check()
        m = self.solver.model() if r == z3.sat else None
        if m is not None:
            for hints in self.small_hints():
                if self.solver.check(*hints) == z3.sat:
                    m = self.solver.model()
                    break
            if getattr(self, 'extractor', None):
                m = ModelInfo(self.extractor(m), str(m)[:3000])
        self.obligations.append(Obligation(name, 'failed' if r != z3.unsat else 'discharged', detail, model=m,
                                           goal='False', kind=kind, path=list(self.trace)))


class UnitResult:
    def __init__(self):
        self.paths = 0
        self.obligations = []
        self.unsupported = []
        self.solver_secs = 0.0
        self.queries = 0
        self.used_contracts = set()
        self.inlined = set()
        self.assumed_models = set()
        self.wall = 0.0
        self.infeasible_paths = 0
        self.unknown_feasible = 0
        self.crash = None


def explore(run_path, assert_on=True, max_paths=20000, setup=None, deadline=None):
    """run_path(ctx) executes one path.  Explores all decision sequences depth-first."""
    res = UnitResult()
    t0 = time.time()
    work = [[]]
    while work:
        if res.paths >= max_paths:
            res.unsupported.append("path budget exceeded (%d)" % max_paths)
            break
        if deadline and time.time() > deadline:
            res.unsupported.append("time budget exceeded")
            break
        prefix = work.pop()
        ctx = Ctx(prefix, assert_on=assert_on)
        ctx.deadline = deadline
        if setup:
            setup(ctx)
        try:
            run_path(ctx)
        except Infeasible:
            res.infeasible_paths += 1
        except PathEnd:
            pass
        except Unsupported as e:
            res.unsupported.append("%s [path %s]" % (e, ''.join('T' if b else 'F' for b in ctx.trace)))
        except (KeyError, AttributeError, IndexError, TypeError, NameError, AssertionError, z3.Z3Exception) as e:
            # contract / invariant code that no longer fits the function (renamed local, changed structure): the
            # obligation is UNDECIDED (stale contract), never a violation and not a checker crash
            import traceback
            tb = traceback.extract_tb(e.__traceback__)[-1]
            res.unsupported.append("stale contract or engine limitation: %s: %s (%s:%d) [path %s]"
                                   % (type(e).__name__, str(e)[:120], os.path.basename(tb.filename), tb.lineno,
                                      ''.join('T' if b else 'F' for b in ctx.trace)))
        res.paths += 1
        res.obligations.extend(ctx.obligations)
        res.solver_secs += ctx.solver_secs
        res.queries += ctx.n_queries
        res.used_contracts |= ctx.used_contracts
        res.inlined |= ctx.inlined
        res.assumed_models |= ctx.assumed_models
        res.unknown_feasible += ctx.unknown_feasible
        work.extend(ctx.pending)
    res.wall = time.time() - t0
    return res
