"""Values as terms of the uninterpreted sort Val: lets contracts talk about whole lists / documents of
unbounded length (snoc-lists, concatenation, recursively defined spec functions)."""
import z3

from .values import (Unsupported, SBytes, SStr, Choice, Obj, OpaqueVal, PyStr, I, is_z3, is_symint, is_symbool,
                     is_intlike, is_str, zint, zbool, simp, str_term, ufun, lit)

Val = z3.DeclareSort('Val')


class Chunk:
    """an opaque sub-sequence inside a Python list: `term` denotes a list (sort Val)"""
    __slots__ = ('term', 'length')

    def __init__(self, term, length=None):
        self.term = term
        self.length = length

    def __repr__(self):
        return "Chunk(%s)" % (self.term,)


def v_nil():
    return ufun('v_nil', Val)()


def v_snoc(s, x):
    return ufun('v_snoc', Val, Val, Val)(s, x)


def v_cat(a, b):
    if a.eq(v_nil()):
        return b
    if b.eq(v_nil()):
        return a
    return ufun('v_cat', Val, Val, Val)(a, b)


def seq_len(t):
    return ufun('v_len', Val, z3.IntSort())(t)


def seq_str_at(t, j):
    """the j-th element of a list of strings, as a PyStr term"""
    return ufun('v_str_at', Val, z3.IntSort(), PyStr)(t, zint(j))


def v_has(t, key):
    """document t (a dict) has the key"""
    return ufun('v_has', Val, PyStr, z3.BoolSort())(t, key)


def v_get(t, key):
    """the value stored under key in document t"""
    return ufun('v_get', Val, PyStr, Val)(t, key)


def list_term(items):
    """Val term denoting the Python list `items` (elements may be Chunk)"""
    t = v_nil()
    for x in items:
        if isinstance(x, Chunk):
            t = v_cat(t, x.term)
        else:
            t = v_snoc(t, val_term(x))
    return t


def dict_term(d):
    t = getattr(d, 'base_term', None)
    if t is None:
        t = ufun('v_dnil', Val)()
    for k, x in d.items():
        if isinstance(k, str) and k.startswith('__opaque_update__'):
            t = ufun('v_dmerge', Val, Val, Val)(t, val_term(x))
            continue
        kt = str_term(k) if (is_str(k) or isinstance(k, Choice)) else str_term(str(k))
        t = ufun('v_dsnoc', Val, PyStr, Val, Val)(t, kt, val_term(x))
    for k, x in getattr(d, 'sym', ()):
        t = ufun('v_dsnoc', Val, PyStr, Val, Val)(t, str_term(k), val_term(x))
    return t


def val_term(v):
    from .models import LazySeq, SymDict
    if isinstance(v, OpaqueVal) and v.term.sort() == Val:
        return v.term
    if is_z3(v) and not is_symint(v) and not is_symbool(v):
        if v.sort() == Val:
            return v
        return ufun('v_term_' + str(v.sort()), v.sort(), Val)(v)
    if isinstance(v, Chunk):
        return ufun('v_list', Val, Val)(v.term)
    if v is None:
        return ufun('v_none', Val)()
    if isinstance(v, bool):
        return ufun('v_bool', z3.BoolSort(), Val)(z3.BoolVal(v))
    if is_symbool(v):
        return ufun('v_bool', z3.BoolSort(), Val)(v)
    if is_intlike(v):
        return ufun('v_int', z3.IntSort(), Val)(zint(v))
    if is_str(v) or isinstance(v, Choice):
        return ufun('v_str', PyStr, Val)(str_term(v))
    if isinstance(v, (list, tuple)):
        return ufun('v_list', Val, Val)(list_term(v))
    if isinstance(v, dict):
        return ufun('v_dict', Val, Val)(dict_term(v))
    if isinstance(v, SymDict):
        t = ufun('v_dnil', Val)()
        for k, x in v.items:
            t = ufun('v_dsnoc', Val, PyStr, Val, Val)(t, str_term(k), val_term(x))
        return ufun('v_dict', Val, Val)(t)
    if isinstance(v, float):
        return ufun('v_float', PyStr, Val)(lit(repr(v)))
    if isinstance(v, SBytes):
        return ufun('v_bytes', v.arr.sort(), z3.IntSort(), z3.IntSort(), Val)(v.arr, zint(v.off), zint(v.ln))
    if isinstance(v, (bytes, bytearray, memoryview)):
        return ufun('v_cbytes', PyStr, Val)(lit(bytes(v).hex()))
    if isinstance(v, OpaqueVal):
        return ufun('v_opaque_' + v.tag, v.term.sort(), Val)(v.term)
    if isinstance(v, Obj):
        from .values import obj_fields
        f = obj_fields(v)
        if '_term' in f:
            return f['_term']
    raise Unsupported("no term encoding for %s" % type(v).__name__)


class RecFn:
    """recursively defined spec function F(k): F(0) = base, F(k+1) = step(F(k), k).
    The defining equations are added as assumptions at the points where they are needed (definitional
    extension: conservative, the recursion is on k)."""

    def __init__(self, name, sort=Val):
        self.f = z3.Function(name, z3.IntSort(), sort)
        self.name = name

    def at(self, k):
        return self.f(zint(k))

    def define_base(self, ctx, base):
        ctx.assume(self.f(I(0)) == base)

    def unfold(self, ctx, k, step):
        """assume F(k+1) == step(F(k), k)"""
        ctx.assume(self.f(zint(k) + 1) == step(self.f(zint(k)), k))
