"""Replay a counterexample (or run the bounded companion) natively on the real code.

  python -m pyvc.replay <replay-file.json>            exit 1 = the contract fires on the real code
  python -m pyvc.replay --bounded mod:Class seed n    prints a JSON summary
Run under /venv/bin/python (with -O for obligations generated in -O mode)."""
import importlib
import json
import os
import sys


def load_unit(spec):
    mod, cls = spec.split(':')
    m = importlib.import_module(mod)
    return getattr(m, cls)()


def main(argv):
    sys.dont_write_bytecode = True
    if argv and argv[0] == '--bounded':
        from pyvc.unit import bounded_random
        unit = load_unit(argv[1])
        evals, skipped, failures = bounded_random(unit, int(argv[2]), int(argv[3]))
        print(json.dumps({"evals": evals, "skipped": skipped,
                          "failures": [{"obligations": f, "values": v, "shard": sh, "history": h if i == 0 else []}
                                       for i, (f, v, sh, h) in enumerate(failures)]}, default=str))
        return 0
    direct_only = False
    if argv and argv[0] == '--direct':
        direct_only = True
        argv = argv[1:]
    path = argv[0]
    with open(path) as f:
        rec = json.load(f)
    if rec.get('history') and not direct_only and rec.get('kind') != 'custom':
        # a fresh-process attempt must not disturb the state the recorded history builds up: run it in a child
        import subprocess
        c = subprocess.run([sys.executable] + (['-O'] if sys.flags.optimize else []) + ['-m', 'pyvc.replay', '--direct', path],
                           capture_output=True, text=True)
        if c.returncode == 1:
            sys.stdout.write(c.stdout)
            return 1
        with open(path) as f:
            rec = json.load(f)
        return history_replay(rec)
    if rec.get('kind') == 'custom':
        mod, fn = rec['replay_fn'].split(':')
        ok, detail = getattr(importlib.import_module(mod), fn)(rec)
        print(json.dumps({"reproduced": not ok, "detail": detail}, default=str))
        return 0 if ok else 1
    from pyvc.unit import replay_native
    unit = load_unit(rec['unit'])
    unit.shard = rec.get('shard', 0)
    failures, outcome = replay_native(unit, rec['values'])
    if failures is None:
        print(json.dumps({"reproduced": False, "detail": outcome}))
        return 0
    want = rec.get('obligation')
    if want and want.startswith('frame.'):
        # a frame obligation (write to shared state) has no native twin of the same name: natively the effect shows as some
        # postcondition of the unit failing on this input (e.g. "the registry is not modified"); any of them reproduces it
        want = None
    hit = [f for f in failures if want is None or f == want]
    note = None
    if not hit:
        # the model leaned on an uninterpreted function: search around it (single-byte perturbations)
        found = perturb_search(unit, rec['values'], want)
        if found is not None:
            vals, failures, outcome = found
            hit = [f for f in failures if want is None or f == want]
            rec['values_from_solver'] = rec['values']
            rec['values'] = vals
            note = "input found by single-byte perturbation of the solver's model (bounded search)"
            with open(path, 'w') as f:
                json.dump(rec, f, indent=1, default=str)
    print(json.dumps({"reproduced": bool(hit), "failures": failures, "outcome": outcome,
                      "optimize": sys.flags.optimize, "note": note}))
    return 1 if hit else 0


def history_replay(rec):
    """not reproducible from a fresh process: replay the recorded earlier calls of the same process, then the input"""
    from pyvc.unit import replay_native
    unit = load_unit(rec['unit'])
    for h in rec['history']:
        unit.shard = h.get('shard', 0)
        try:
            replay_native(unit, h['values'])
        except BaseException:
            pass
    unit.shard = rec.get('shard', 0)
    failures, outcome = replay_native(unit, rec['values'])
    want = rec.get('obligation')
    hit = [f for f in (failures or []) if want is None or f == want]
    note = None
    if hit:
        note = "reproduces only after the %d recorded earlier calls in the same process: the result depends on what was " \
               "decoded before (a fresh-process replay of the same input passes)" % len(rec['history'])
    print(json.dumps({"reproduced": bool(hit), "failures": failures, "outcome": outcome,
                      "optimize": sys.flags.optimize, "note": note}))
    return 1 if hit else 0


def perturb_search(unit, values, want, budget=4000):
    from pyvc.unit import replay_native
    n = 0
    for name, v in values.items():
        if not isinstance(v, str):
            continue
        try:
            b = bytearray.fromhex(v)
        except ValueError:
            continue
        for i in range(len(b)):
            for nv in (0x00, 0x20, 0xFF, 0x41, 0x0A, 0x22):
                if b[i] == nv:
                    continue
                n += 1
                if n > budget:
                    return None
                b2 = bytearray(b)
                b2[i] = nv
                vals = dict(values)
                vals[name] = bytes(b2).hex()
                try:
                    failures, outcome = replay_native(unit, vals)
                except AssertionError:
                    continue
                if failures and (want is None or want in failures):
                    return vals, failures, outcome
    return None


if __name__ == '__main__':
    sys.exit(main(sys.argv[1:]))
