"""Replay a counterexample (or run the bounded companion) natively on the real code.

  python -m pyvc.replay <replay-file.json>            exit 1 = the contract fires on the real code
  python -m pyvc.replay --bounded mod:Class seed n    prints a JSON summary
Run under /venv/bin/python (with -O for obligations generated in -O mode)."""
import importlib
import json
import os
import sys


def load_unit(spec):
    mod, cls = spec.split(':')
    m = importlib.import_module(mod)
    return getattr(m, cls)()


def main(argv):
    sys.dont_write_bytecode = True
    if argv and argv[0] == '--bounded':
        from pyvc.unit import bounded_random
        unit = load_unit(argv[1])
        evals, skipped, failures = bounded_random(unit, int(argv[2]), int(argv[3]))
        print(json.dumps({"evals": evals, "skipped": skipped,
                          "failures": [{"obligations": f, "values": v} for f, v in failures]}, default=str))
        return 0
    path = argv[0]
    with open(path) as f:
        rec = json.load(f)
    if rec.get('kind') == 'custom':
        mod, fn = rec['replay_fn'].split(':')
        ok, detail = getattr(importlib.import_module(mod), fn)(rec)
        print(json.dumps({"reproduced": not ok, "detail": detail}, default=str))
        return 0 if ok else 1
    from pyvc.unit import replay_native
    unit = load_unit(rec['unit'])
    failures, outcome = replay_native(unit, rec['values'])
    if failures is None:
        print(json.dumps({"reproduced": False, "detail": outcome}))
        return 0
    want = rec.get('obligation')
    hit = [f for f in failures if want is None or f == want]
    print(json.dumps({"reproduced": bool(hit), "failures": failures, "outcome": outcome,
                      "optimize": sys.flags.optimize}))
    return 1 if hit else 0


if __name__ == '__main__':
    sys.exit(main(sys.argv[1:]))
