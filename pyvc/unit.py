"""Proof units: a real function + a contract (inputs / pre / check) + the contracts of its callees."""
import json
import os
import time
import traceback

import z3

from .values import (SBytes, RootBuf, Obj, ExcObj, Raised, Unsupported, ByteArr, PyStr, I, simp, zint, is_z3,
                     mkstr, obj_fields, SStr, Choice, OpaqueVal)
from .engine import Ctx, explore, Infeasible, PathEnd, Obligation
from .interp import Interp, lookup_qualname, ClassInfo, FuncInfo
from . import dsl


class Outcome:
    def __init__(self, kind, value=None, exc=None):
        self.kind = kind          # 'return' | 'raise'
        self.value = value
        self.exc = exc

    @property
    def returned(self):
        return self.kind == 'return'

    @property
    def exc_class(self):
        return dsl.exc_class(self.exc) if self.exc is not None else None

    def __repr__(self):
        return "Outcome(%s, %r, %r)" % (self.kind, self.value, self.exc)


class SymS:
    """symbolic input factory"""
    symbolic = True

    def __init__(self, ctx):
        self.ctx = ctx

    def int(self, name, lo=None, hi=None):
        v = z3.Int(name)
        self.ctx.input_syms[name] = ('int', v)
        if lo is not None:
            self.ctx.assume(v >= lo)
        if hi is not None:
            self.ctx.assume(v <= hi)
        return v

    def bool(self, name):
        v = z3.Bool(name)
        self.ctx.input_syms[name] = ('bool', v)
        return v

    def choice(self, name, options):
        """one of a few concrete options (forks)"""
        for k, o in enumerate(options[:-1]):
            if self.ctx.decide(z3.Bool('%s!is%d' % (name, k))):
                self.ctx.input_syms[name] = ('const', k)
                return o
        self.ctx.input_syms[name] = ('const', len(options) - 1)
        return options[-1]

    def bytes(self, name, length=None, kind='bytes', track=True):
        arr = z3.Const(name + '!arr', ByteArr)
        if length is None:
            length = z3.Int(name + '!len')
            self.ctx.assume(length >= 0)
        root = RootBuf(name) if track else None
        self.ctx.input_syms[name] = ('bytes', arr, length)
        return SBytes(arr, 0, length, kind, root)

    def text(self, name, n):
        """ASCII-free symbolic text of n characters (code points 0..0x10FFFF, no surrogates)"""
        cs = []
        for k in range(n):
            c = z3.Int('%s!c%d' % (name, k))
            self.ctx.assume(z3.And(c >= 0, c < 0x110000, z3.Or(c < 0xD800, c > 0xDFFF)))
            cs.append(c)
        self.ctx.input_syms[name] = ('text', cs)
        return mkstr(cs)

    def opaque_str(self, name):
        t = z3.Const(name, PyStr)
        self.ctx.input_syms[name] = ('ostr', t)
        from .values import Opq
        return mkstr([Opq(t)])

    def obj(self, qualname, **fields):
        ci = lookup_qualname(qualname)
        if not isinstance(ci, ClassInfo):
            raise Unsupported("no class %s" % qualname)
        return Obj(ci, fields)

    def assume(self, cond):
        self.ctx.assume(cond)


class ConcS:
    """concrete input factory backed by a counterexample"""
    symbolic = False

    def __init__(self, values):
        self.values = values

    def int(self, name, lo=None, hi=None):
        return int(self.values.get(name, lo if lo is not None else 0))

    def bool(self, name):
        return bool(self.values.get(name, False))

    def choice(self, name, options):
        return options[int(self.values.get(name, len(options) - 1))]

    def bytes(self, name, length=None, kind='bytes', track=True):
        b = bytes.fromhex(self.values.get(name, ''))
        if isinstance(length, int):
            b = (b + bytes(length))[:length]
        if kind == 'memoryview':
            return memoryview(b)
        if kind == 'bytearray':
            return bytearray(b)
        return b

    def text(self, name, n):
        cs = self.values.get(name, [])
        cs = (list(cs) + [32] * n)[:n]
        return ''.join(chr(c) for c in cs)

    def opaque_str(self, name):
        return self.values.get(name, '')

    def obj(self, qualname, **fields):
        import importlib
        parts = qualname.split('.')
        mod = importlib.import_module('.'.join(parts[:-1]))
        cls = getattr(mod, parts[-1])
        o = object.__new__(cls)
        for k, v in fields.items():
            setattr(o, k, v)
        return o

    def assume(self, cond):
        if not cond:
            raise AssertionError("replay input violates the unit's precondition")


def extract_values(ctx, model, small_hint=True):
    """concrete input values from a z3 model"""
    vals = {}
    for name, desc in ctx.input_syms.items():
        kind = desc[0]
        if kind == 'int':
            v = model.eval(desc[1], model_completion=True)
            vals[name] = v.as_long()
        elif kind == 'bool':
            vals[name] = z3.is_true(model.eval(desc[1], model_completion=True))
        elif kind == 'const':
            vals[name] = desc[1]
        elif kind == 'text':
            vals[name] = [model.eval(c, model_completion=True).as_long() for c in desc[1]]
        elif kind == 'bytes':
            arr, ln = desc[1], desc[2]
            n = ln if isinstance(ln, int) else model.eval(ln, model_completion=True).as_long()
            n = max(0, min(n, 1 << 16))
            bs = []
            for i in range(n):
                b = model.eval(z3.Select(arr, I(i)), model_completion=True).as_long()
                bs.append(b & 0xFF if 0 <= b <= 255 else 0)
            vals[name] = bytes(bs).hex()
        elif kind == 'ostr':
            vals[name] = ''
    return vals


class Prover:
    """facade handed to Unit.check: symbolic -> ctx.prove; concrete -> evaluates"""

    def __init__(self, ctx=None, unit=None):
        self.ctx = ctx
        self.unit = unit
        self.failures = []
        self.checked = 0

    @property
    def symbolic(self):
        return self.ctx is not None

    def prove(self, goal, name, detail=''):
        self.checked += 1
        full = "%s:%s" % (self.unit.name, name)
        if self.ctx is not None:
            return self.ctx.prove(goal, full, detail=detail)
        if is_z3(goal):
            raise AssertionError("symbolic goal in concrete replay")
        if not goal:
            self.failures.append(full)
            return False
        return True

    def fail(self, name, detail=''):
        self.checked += 1
        full = "%s:%s" % (self.unit.name, name)
        if self.ctx is not None:
            self.ctx.fail(full, detail)
        else:
            self.failures.append(full)


class Unit:
    """override: prop, name, target, inputs(S), check(P, inp, out) and optionally pre, contracts, invariants"""
    prop = None
    name = None
    target = None
    modes = ('assert',)          # interpreter assert modes: 'assert' and/or 'O'
    contracts = ()               # Contract classes used for callees
    invariants = ()              # LoopInv instances
    globals_init = None          # callable(S) -> {(module, name): value}
    max_paths = 20000
    max_unroll = 64
    kind = 'P'                   # P proved, E exhaustive, B bounded
    env = None
    io_faults = True
    timeout = 900
    shards = 1                   # independent sub-tasks; the unit constrains its inputs by self.shard
    shard = 0

    def inputs(self, S):
        raise NotImplementedError

    def pre(self, S, inp):
        return True

    def call(self, it, inp):
        """symbolic invocation of the target; default: positional/keyword from inp (dict in order)"""
        fn = lookup_qualname(self.target)
        if fn is None:
            raise Unsupported("target %s not found in the repository" % self.target)
        return it.call(fn, list(inp.values()))

    def call_native(self, inp):
        import importlib
        parts = self.target.split('.')
        obj = None
        for k in range(len(parts) - 1, 0, -1):
            try:
                obj = importlib.import_module('.'.join(parts[:k]))
                for p in parts[k:]:
                    obj = getattr(obj, p)
                break
            except ImportError:
                continue
        return obj(*list(inp.values()))

    def snapshot(self, inp):
        """shallow copy of object fields before the call (old state)"""
        old = {}
        for k, v in inp.items():
            if isinstance(v, Obj):
                old[k] = OldState(dict(obj_fields(v)))
            elif hasattr(v, '__dict__') and not isinstance(v, (SBytes, type)) and not callable(v):
                old[k] = OldState(dict(vars(v)))
            else:
                old[k] = v
        return old

    def check(self, P, inp, old, out):
        raise NotImplementedError

    def setup_ctx(self, ctx):
        pass


class OldState:
    def __init__(self, d):
        self.__dict__.update(d)


class Contract:
    """contract of a callee used modularly: model(it, *args) computes the abstract effect"""
    target = None

    def model(self, it, *args, **kwargs):
        raise NotImplementedError


class LoopInv:
    modifies_locals = ()
    scratch_locals = ()

    def havoc(self, it, fr, i):
        pass

    def inv(self, it, fr, i):
        return True


# ---------------------------------------------------------------------------------------------
def run_unit_symbolic(unit, mode, deadline=None):
    """explore all paths of unit.target in the given assert mode; returns UnitResult"""
    holder = {}

    def setup(ctx):
        ctx.target = unit.target
        ctx.contracts = {}
        for c in unit.contracts:
            inst = c() if isinstance(c, type) else c
            ctx.contracts[inst.target] = inst
        ctx.invariants = {}
        for inv in unit.invariants:
            inst = inv() if isinstance(inv, type) else inv
            ctx.invariants[(inst.func, inst.loop)] = inst
        ctx.max_unroll = unit.max_unroll
        ctx.io_faults = unit.io_faults
        if unit.env is not None:
            ctx.env = unit.env() if isinstance(unit.env, type) else unit.env
        unit.setup_ctx(ctx)

    def run_path(ctx):
        dsl.set_ctx(ctx)
        ctx.extractor = lambda m: extract_values(ctx, m)
        it = Interp(ctx)
        S = SymS(ctx)
        inp = unit.inputs(S)
        if unit.env is not None:
            ctx.env = unit.env() if isinstance(unit.env, type) else unit.env
        if unit.globals_init is not None:
            for k, v in unit.globals_init(S).items():
                ctx.globals[k] = v
                # the value of a module global is process-wide state: every mutable container *inside* it (the entries of a registry,
                # the per-creator tables of the component ids, ...) is a shared location - a write to one fails `frame.shared_state`.
                # Writes to the top-level object itself (a cache dict) are the declared inventory and are judged by the unit.
                _mark_nested_shared(ctx, v, "%s.%s" % k, 0, set())
        ctx.assume(unit.pre(S, inp))
        old = unit.snapshot(inp)
        ctx.inp = inp
        try:
            val = unit.call(it, inp)
            out = Outcome('return', val)
        except Raised as r:
            out = Outcome('raise', exc=r.exc)
        # vacuity: the path must be satisfiable when the function exits (before any goal is assumed)
        if ctx._check() == z3.unsat:
            ctx.notes.append('vacuous')
        else:
            holder['nonvacuous'] = holder.get('nonvacuous', 0) + 1
        P = Prover(ctx, unit)
        P.it = it
        if not any(o.name == 'frame.shared_state' for o in ctx.obligations):
            from .engine import Obligation
            ctx.obligations.append(Obligation("%s:frame: no write to shared mutable state (module/class-level objects, default "
                                              "arguments) outside the declared cache inventory" % unit.name, 'discharged',
                                              solver='frame', kind='frame', path=list(ctx.trace)))
        unit.check(P, inp, old, out)
        if getattr(unit, 'stdout_silent', False):
            # decoders may report problems on stderr; standard output belongs to the document the command line prints
            P.prove(len(ctx.stdout) == 0, "prints nothing on stdout")
        holder['checked'] = holder.get('checked', 0) + P.checked

    res = explore(run_path, assert_on=(mode == 'assert'), max_paths=unit.max_paths, setup=setup, deadline=deadline)
    res.nonvacuous = holder.get('nonvacuous', 0)
    res.mode = mode
    return res


def _mark_nested_shared(ctx, v, desc, depth, seen):
    from .values import Obj, obj_fields
    if id(v) in seen or depth > 6:
        return
    seen.add(id(v))
    if isinstance(v, (list, dict, set, bytearray)):
        if depth > 0:
            ctx.shared_ids.setdefault(id(v), "object inside the module-level %s" % desc)
        items = list(v.values()) if isinstance(v, dict) else list(v)
        for x in items:
            _mark_nested_shared(ctx, x, desc, depth + 1, seen)
    elif isinstance(v, Obj):
        for x in obj_fields(v).values():
            _mark_nested_shared(ctx, x, desc, depth + 1, seen)


def replay_native(unit, values, optimize=False):
    """run the REAL function on concrete inputs and evaluate the contract natively.
    returns (failed obligation names, description)"""
    S = ConcS(values)
    inp = unit.inputs(S)
    try:
        pre = unit.pre(S, inp)
    except Exception as e:
        # a partial solver model may give bytes on which the precondition itself cannot be evaluated natively (e.g. text
        # that is not ASCII): such an input is outside the precondition, not a crash of the replay
        return None, "precondition not evaluable on this input (%s)" % type(e).__name__
    if not pre:
        return None, "input violates precondition"
    old = unit.snapshot(inp)
    try:
        val = unit.call_native(inp)
        out = Outcome('return', val)
    except SystemExit as e:
        out = Outcome('raise', exc=e)
    except BaseException as e:
        out = Outcome('raise', exc=e)
    P = Prover(None, unit)
    unit.check(P, inp, old, out)
    return P.failures, repr(out)[:500]


class RandS(ConcS):
    """random concrete inputs for the bounded companion (seeded)"""

    def __init__(self, rng, size=48):
        ConcS.__init__(self, {})
        self.rng = rng
        self.size = size
        self.log = {}

    def int(self, name, lo=None, hi=None):
        if name in self.log:
            return self.log[name]
        r = self.rng
        lo_ = -4 if lo is None else lo
        hi_ = (self.size * 2) if hi is None else hi
        k = r.random()
        if k < 0.15:
            v = lo_
        elif k < 0.3:
            v = hi_
        elif k < 0.6:
            v = r.randint(lo_, min(hi_, lo_ + 16))
        else:
            v = r.randint(lo_, hi_)
        self.log[name] = v
        return v

    def bool(self, name):
        v = self.rng.random() < 0.5
        self.log[name] = v
        return v

    def choice(self, name, options):
        k = self.rng.randrange(len(options))
        self.log[name] = k
        return options[k]

    def bytes(self, name, length=None, kind='bytes', track=True):
        r = self.rng
        n = length if isinstance(length, int) else r.choice([0, 1, 2, 3, 7, 8, 9, 16, 17, 31, 32, 33, r.randint(0, self.size),
                                                             r.randint(0, 4 * self.size)])
        mode = r.random()
        if mode < 0.2:
            b = bytes(n)
        elif mode < 0.4:
            b = bytes(r.choice([0x20, 0x41, 0x7e, 0x7f, 0xff, 0x50, 0x45]) for _ in range(n))
        else:
            b = bytes(r.randrange(256) for _ in range(n))
        self.log[name] = b.hex()
        if kind == 'memoryview':
            return memoryview(b)
        if kind == 'bytearray':
            return bytearray(b)
        return b

    def text(self, name, n):
        r = self.rng
        cs = [r.choice([32, 34, 58, 92, 65, 97, 48, 126, 127, 0, 10, 0xe9, 0x2028]) if r.random() < 0.5 else r.randrange(32, 127)
              for _ in range(n)]
        self.log[name] = cs
        return ''.join(chr(c) for c in cs)

    def opaque_str(self, name):
        v = self.text(name, self.rng.randrange(0, 12))
        self.log[name] = v
        return v

    def assume(self, cond):
        if not cond:
            raise PreconditionMiss()


class PreconditionMiss(Exception):
    pass


def bounded_random(unit, seed, n):
    """bounded companion: the same contract evaluated natively on the real code over random inputs"""
    import random
    rng = random.Random(seed)
    evals = 0
    failures = []
    skipped = 0
    import time as _t
    t_end = _t.time() + float(os.environ.get("PYVC_BOUNDED_SECS", "45"))
    history = []
    for k in range(n):
        if _t.time() > t_end:
            break
        S = RandS(rng)
        unit.shard = rng.randrange(unit.shards)
        try:
            inp = unit.inputs(S)
            if not unit.pre(S, inp):
                skipped += 1
                continue
        except PreconditionMiss:
            skipped += 1
            continue
        old = unit.snapshot(inp)
        try:
            val = unit.call_native(inp)
            out = Outcome('return', val)
        except BaseException as e:
            out = Outcome('raise', exc=e)
        P = Prover(None, unit)
        unit.check(P, inp, old, out)
        evals += 1
        if P.failures:
            # the earlier calls of this process are part of the counterexample when the failure is history-dependent
            failures.append((P.failures, dict(S.log), unit.shard, list(history)))
            if len(failures) > 5:
                break
        history.append(dict(shard=unit.shard, values=dict(S.log)))
    return evals, skipped, failures
