"""python3-vt -m pyvc.check <property id> [--tier quick|thorough]

Exit 0: every obligation of the property discharged (known findings printed as KNOWN-FINDING lines)
Exit 1: a named obligation failed: VIOLATION property=<id> replay=<path>
Exit 2: undecided (solver unknown / code left the supported subset and the bounded stand-in found nothing)
Exit 3: checker crash / vacuous run
"""
import argparse
import hashlib
import importlib
import json
import multiprocessing
import os
import subprocess
import sys
import time
import traceback

VERIF = os.path.dirname(os.path.dirname(os.path.abspath(__file__)))
sys.path.insert(0, VERIF)
sys.dont_write_bytecode = True
REPO = os.environ.get("PYVC_REPO", "/repo")
NATIVE_PY = os.environ.get("PYVC_NATIVE_PY", "/venv/bin/python")
DEPS = os.path.join(VERIF, ".deps")
Z3_SRC = "/opt/veriftools/pyvenv/lib/python3.11/site-packages/z3"


def ensure_deps():
    os.makedirs(DEPS, exist_ok=True)
    link = os.path.join(DEPS, "z3")
    if not os.path.exists(link):
        try:
            os.symlink(Z3_SRC, link)
        except FileExistsError:
            pass


def native_env():
    env = dict(os.environ)
    env["PYTHONPATH"] = os.pathsep.join([DEPS, VERIF, os.path.join(REPO, "modules")])
    env["PYTHONDONTWRITEBYTECODE"] = "1"
    return env


def unit_spec(u):
    return "%s:%s" % (type(u).__module__, type(u).__name__)


def run_task(task):
    """worker: one (unit, mode) symbolic run -> picklable summary"""
    spec, mode, budget, shard = task
    t0 = time.time()
    out = dict(unit_spec=spec, mode=mode, shard=shard, obligations=[], unsupported=[], crash=None)
    try:
        from pyvc.unit import run_unit_symbolic
        mod, cls = spec.split(':')
        unit = getattr(importlib.import_module(mod), cls)()
        unit.shard = shard
        out.update(name=unit.name, target=unit.target, kind=unit.kind, prop=unit.prop, size_bound=getattr(unit, 'size_bound', None))
        res = run_unit_symbolic(unit, mode, deadline=time.time() + budget)
        for o in res.obligations:
            out['obligations'].append(dict(
                name=o.name, status=o.status, detail=o.detail, solver=o.solver, secs=round(o.secs, 4), kind=o.kind,
                goal=(o.goal or '')[:1500],
                values=getattr(o.model, 'values', None), model_text=getattr(o.model, 'text', None),
                path=''.join('T' if b else 'F' for b in (o.path or []))))
        out.update(paths=res.paths, nonvacuous=res.nonvacuous, unsupported=res.unsupported,
                   used_contracts=sorted(res.used_contracts), inlined=sorted(res.inlined),
                   assumed_models=sorted(res.assumed_models), solver_secs=round(res.solver_secs, 3),
                   queries=res.queries, infeasible=res.infeasible_paths, unknown_feasible=res.unknown_feasible)
    except Exception:
        out['crash'] = traceback.format_exc()
    out['wall'] = round(time.time() - t0, 3)
    return out


def load_known():
    p = os.path.join(VERIF, "known_findings.json")
    if not os.path.exists(p):
        return []
    with open(p) as f:
        return json.load(f).get("findings", [])


def native_replay(path, optimize):
    cmd = [NATIVE_PY] + (["-O"] if optimize else []) + ["-m", "pyvc.replay", path]
    try:
        r = subprocess.run(cmd, capture_output=True, text=True, timeout=300, env=native_env(), cwd=VERIF)
    except subprocess.TimeoutExpired:
        return None, "replay timed out"
    line = r.stdout.strip().splitlines()[-1] if r.stdout.strip() else ''
    try:
        info = json.loads(line)
    except Exception:
        info = {"raw_stdout": r.stdout[-2000:], "raw_stderr": r.stderr[-2000:]}
    return (r.returncode == 1 and isinstance(info, dict) and info.get('reproduced') is True), info


_BOUNDED_CACHE = {}


def bounded_run(spec, optimize, seed, n):
    """one bounded companion run per (unit, mode): several failing obligations of one unit share it"""
    key = (spec, bool(optimize), seed)
    if key in _BOUNDED_CACHE and _BOUNDED_CACHE[key][0] >= n:
        return _BOUNDED_CACHE[key][1]
    r = _bounded_run(spec, optimize, seed, n)
    _BOUNDED_CACHE[key] = (n, r)
    return r


def _bounded_run(spec, optimize, seed, n):
    cmd = [NATIVE_PY] + (["-O"] if optimize else []) + ["-m", "pyvc.replay", "--bounded", spec, str(seed), str(n)]
    try:
        r = subprocess.run(cmd, capture_output=True, text=True, timeout=1200, env=native_env(), cwd=VERIF)
        return json.loads(r.stdout.strip().splitlines()[-1])
    except Exception as e:
        return {"evals": 0, "skipped": 0, "failures": [], "error": repr(e)}


def main(argv=None):
    ap = argparse.ArgumentParser()
    ap.add_argument("prop")
    ap.add_argument("--tier", default=os.environ.get("VERIF_TIER", "quick"))
    ap.add_argument("--jobs", type=int, default=int(os.environ.get("PYVC_JOBS", "16")))
    ap.add_argument("--only", default=None, help="run only units whose name contains this text")
    args = ap.parse_args(argv)
    prop = args.prop
    tier = args.tier if args.tier in ("quick", "thorough") else "quick"
    seed = int(os.environ.get("VERIF_SEED", "0") or 0)
    os.environ["PYVC_TIER"] = tier        # units may widen their enumerations in the thorough tier
    if tier == 'thorough':
        os.environ.setdefault("PYVC_BOUNDED_SECS", "90")     # longer bounded companions (the quick tier caps them at 45 s)
    t_start = time.time()
    ensure_deps()
    OUT = os.environ.get("PYVC_OUT", VERIF)          # scratch runs (mutant matrix) write elsewhere
    os.makedirs(os.path.join(OUT, "evidence"), exist_ok=True)
    rdir = os.path.join(OUT, "replays", prop)
    os.makedirs(rdir, exist_ok=True)
    for f in os.listdir(rdir):
        os.unlink(os.path.join(rdir, f))
    try:
        from contracts import registry
        pinfo = registry.PROPS[prop]
    except Exception:
        traceback.print_exc()
        print("CHECKER-CRASH property=%s (cannot load contracts)" % prop)
        return 3
    units = [u() for u in pinfo.get('units', [])]
    if args.only:
        units = [u for u in units if args.only in u.name]
    budget = int(os.environ.get('PYVC_BUDGET_S', pinfo.get('budget_s', 2400 if tier == 'quick' else 6000)))
    tasks = []
    bounded_only = [u for u in units if u.kind == 'B']
    units = [u for u in units if u.kind != 'B']
    for u in units:
        for mode in u.modes:
            for sh in range(u.shards):
                tasks.append((unit_spec(u), mode, budget, sh))
    results = []
    if tasks:
        ctx = multiprocessing.get_context("fork")
        with ctx.Pool(min(args.jobs, len(tasks))) as pool:
            results = pool.map(run_task, tasks, chunksize=1)
    # extra (non-unit) back ends: DFA product, exhaustive enumerations, pinned tables ...
    extra_obs = []
    extra_meta = {}
    for fn in pinfo.get('extra', []):
        try:
            obs, meta = fn(tier, seed)
            extra_obs.extend(obs)
            for k, v in meta.items():
                extra_meta[k] = v
        except Exception as e:
            # an exception raised INSIDE the code under test while a bounded / enumerating back end was calling it with an input
            # the property covers is a finding about that code, not a checker crash
            tb = traceback.extract_tb(e.__traceback__)
            from pyvc import REPO as _REPO
            inner = tb[-1].filename if tb else ''
            under_test = os.path.abspath(inner).startswith(os.path.abspath(_REPO) + os.sep) or '/modules/' in inner and \
                not os.path.abspath(inner).startswith(VERIF + os.sep)
            if not under_test:
                traceback.print_exc()
                print("CHECKER-CRASH property=%s (extra back end %s)" % (prop, getattr(fn, '__name__', fn)))
                return 3
            text = ''.join(traceback.format_exception(type(e), e, e.__traceback__))[-3000:]
            extra_obs.append(dict(name="%s: the code under test raised %s on an input of this back end" % (getattr(fn, '__name__', 'backend'),
                                                                                                   type(e).__name__),
                                  kind='B', solver='bounded', status='failed', secs=0.0, evaluations=1, detail=text[-600:],
                                  replay=dict(kind='custom', reproduced=True, native=dict(traceback=text))))

    known = [k for k in load_known() if k.get('property') == prop and k.get('status') == 'known']
    crashes = [r for r in results if r['crash']]
    n_ob = 0
    n_dis = 0
    by_backend = {}
    failed = {}       # (name, mode) -> list of (result, ob)
    unknowns = []
    undecided_units = []
    vacuous_units = []
    functions = []
    used_contracts = set()
    inlined = set()
    assumed = set()
    solver_secs = 0.0
    paths = 0
    samples = []
    symbolic_bounded = {}
    for r in results:
        if r['crash']:
            continue
        functions.append("%s [%s]" % (r['target'], r['mode']))
        used_contracts.update(r['used_contracts'])
        inlined.update(r['inlined'])
        assumed.update(r['assumed_models'])
        solver_secs += r['solver_secs']
        paths += r['paths']
        if r['unsupported']:
            undecided_units.append(r)
        if r['nonvacuous'] == 0 and not r['unsupported']:
            vacuous_units.append(r)
        for o in r['obligations']:
            if r.get('size_bound'):
                # a symbolic unit whose inputs carry a stated size bound: a bounded stand-in - reported under `bounded`, not counted
                # as an obligation / as proved; a failure is still a finding
                be_ = symbolic_bounded.setdefault("%s (symbolic, bounded: %s) [%s]" % (r['name'], r['size_bound'], r['mode']),
                                                  dict(evaluations=0, failures=0, bound=r['size_bound']))
                be_['evaluations'] += 1
                if o['status'] == 'failed':
                    be_['failures'] += 1
                    failed.setdefault((o['name'], r['mode']), []).append((r, o))
                elif o['status'] != 'discharged':
                    unknowns.append((r, o))
                continue
            n_ob += 1
            b = by_backend.setdefault(o['solver'], dict(count=0, secs=0.0))
            b['count'] += 1
            b['secs'] = round(b['secs'] + o['secs'], 4)
            if o['status'] == 'discharged':
                n_dis += 1
                if len(samples) < 6 and o['solver'] != 'trivial' and o['name'] not in [s['obligation'] for s in samples]:
                    samples.append(dict(obligation=o['name'], mode=r['mode'], path=o['path'], goal=o['goal'][:300],
                                        status='discharged', backend=o['solver']))
            elif o['status'] == 'failed':
                failed.setdefault((o['name'], r['mode']), []).append((r, o))
            else:
                unknowns.append((r, o))
    bounded_extra = dict(symbolic_bounded)
    for o in extra_obs:
        if o.get('kind') == 'B':
            # bounded stand-in: never counted as an obligation / as proved
            bounded_extra[o['name']] = dict(evaluations=o.get('evaluations', 0), failures=0 if o['status'] == 'discharged' else 1,
                                            bound=o.get('bound', ''))
            if o['status'] == 'failed':
                failed.setdefault((o['name'], o.get('mode', 'assert')), []).append((None, o))
            continue
        n_ob += 1
        b = by_backend.setdefault(o.get('solver', 'enum'), dict(count=0, secs=0.0))
        b['count'] += 1
        b['secs'] = round(b['secs'] + o.get('secs', 0.0), 4)
        if o['status'] == 'discharged':
            n_dis += 1
            if len(samples) < 10:
                samples.append(dict(obligation=o['name'], status='discharged', backend=o.get('solver', 'enum'),
                                    goal=o.get('goal', '')[:300]))
        elif o['status'] == 'failed':
            failed.setdefault((o['name'], o.get('mode', 'assert')), []).append((None, o))
        else:
            unknowns.append((None, o))

    violations = []
    known_lines = []
    und_notes = []
    # ---- failed obligations: known finding, or replay and report
    t_replay = time.time()
    replay_budget = float(os.environ.get("PYVC_REPLAY_BUDGET_S", "300"))
    have_replay = 0
    for (name, mode), items in sorted(failed.items()):
        kf = [k for k in known if k.get('obligation') == name and k.get('mode', mode) == mode]
        if kf:
            known_lines.append("KNOWN-FINDING: property=%s %s [%s] %s" % (prop, name, mode, kf[0].get('what', '')))
            continue
        reproduced = None
        chosen = None
        info = None
        tried = 0
        # once a few failing obligations carry a reproduced input, the remaining ones are reported without spending minutes on
        # each (they are still named violations: `no-failing-input-found`)
        out_of_time = (time.time() - t_replay > replay_budget) and have_replay >= 1
        for r, o in items:
            if tried >= (0 if out_of_time else 4):
                break
            rec = dict(property=prop, obligation=name, mode=mode, solver_output=o.get('model_text'),
                       goal=o.get('goal'), detail=o.get('detail'), path=o.get('path'))
            if r is None:
                rec.update(o.get('replay', {}))
                rec.setdefault('kind', 'custom')
            else:
                if o.get('values') is None:
                    continue
                rec.update(kind='unit', unit=r['unit_spec'], function=r['target'], values=o['values'], shard=r.get('shard', 0))
            tried += 1
            fn = os.path.join(rdir, "%s.json" % hashlib.sha1(("%s|%s|%d" % (name, mode, tried)).encode()).hexdigest()[:12])
            rec['rerun'] = "%s %s-m pyvc.replay %s   (PYTHONPATH=%s)" % (NATIVE_PY, '-O ' if mode == 'O' else '', fn,
                                                                          native_env()['PYTHONPATH'])
            with open(fn, 'w') as f:
                json.dump(rec, f, indent=1, default=str)
            if rec.get('kind') == 'custom' and not rec.get('replay_fn'):
                ok, info = (rec.get('reproduced', True), rec.get('native'))
            else:
                ok, info = native_replay(fn, mode == 'O')
            rec['native_result'] = info
            rec['reproduced'] = bool(ok)
            with open(fn, 'w') as f:
                json.dump(rec, f, indent=1, default=str)
            chosen = fn
            if ok:
                reproduced = fn
                break
        if not reproduced and items[0][0] is not None and not out_of_time:
            # no direct replay (e.g. an inductive-step obligation whose model talks about ghost state):
            # search the real code with the unit's contract on random inputs (bounded stand-in)
            r0 = items[0][0]
            b = bounded_run(r0['unit_spec'], mode == 'O', seed, 4000)
            for fl in b.get('failures', [])[:1]:
                fn = os.path.join(rdir, "%s_b.json" % hashlib.sha1(("%s|%s" % (name, mode)).encode()).hexdigest()[:12])
                rec = dict(property=prop, obligation=None, failed_obligation=name, mode=mode, kind='unit',
                           unit=r0['unit_spec'], function=r0['target'], values=fl['values'], shard=fl.get('shard', 0),
                           history=fl.get('history', []),
                           native_contract_failures=fl['obligations'], goal=items[0][1].get('goal'),
                           solver_output=items[0][1].get('model_text'),
                           found_by="bounded search of the real code with the same contract, after the verifier "
                                    "refuted the named obligation")
                with open(fn, 'w') as f:
                    json.dump(rec, f, indent=1, default=str)
                ok, info = native_replay(fn, mode == 'O')
                rec['native_result'] = info
                rec['reproduced'] = bool(ok)
                with open(fn, 'w') as f:
                    json.dump(rec, f, indent=1, default=str)
                if ok:
                    reproduced = fn
        if reproduced:
            have_replay += 1
            violations.append("VIOLATION property=%s replay=%s obligation=%r mode=%s" % (prop, reproduced, name, mode))
        elif items[0][0] is not None and items[0][0]['unsupported']:
            # the unit left the supported subset on some path (e.g. a loop was restructured and its invariant is
            # stale): an unreplayed failure there is UNDECIDED, not a violation
            und_notes.append("%s [%s]: obligation %r failed without a replaying input while the unit is partly "
                             "outside the supported subset" % (items[0][0]['name'], mode, name))
        else:
            if chosen is None:
                chosen = os.path.join(rdir, "%s.json" % hashlib.sha1(("%s|%s" % (name, mode)).encode()).hexdigest()[:12])
                r, o = items[0]
                with open(chosen, 'w') as f:
                    json.dump(dict(property=prop, obligation=name, mode=mode, goal=o.get('goal'), detail=o.get('detail'),
                                   solver_output=o.get('model_text'), reproduced=False,
                                   note="the verifier produced no input for this obligation"), f, indent=1, default=str)
            violations.append("VIOLATION property=%s replay=%s obligation=%r mode=%s no-failing-input-found"
                              % (prop, chosen, name, mode))

    # ---- undecided units: bounded stand-in on the real code
    bounded = dict(bounded_extra)
    need_bounded = list(undecided_units)
    if tier == 'thorough':
        need_bounded = [r for r in results if not r['crash']]
    seen_b = set()
    uniq_b = []
    for r in need_bounded:
        key = (r['unit_spec'], r['mode'])
        if key in seen_b:
            continue
        seen_b.add(key)
        uniq_b.append(r)
    n = 1500 if tier == 'quick' else 6000
    # the companions are independent child processes: run them side by side
    from concurrent.futures import ThreadPoolExecutor
    with ThreadPoolExecutor(max_workers=max(1, min(args.jobs, 16))) as tp:
        b_results = list(tp.map(lambda r: bounded_run(r['unit_spec'], r['mode'] == 'O', seed, n), uniq_b))
    for r, b in zip(uniq_b, b_results):
        bounded["%s [%s]" % (r['name'], r['mode'])] = dict(evaluations=b.get('evals', 0), skipped=b.get('skipped', 0),
                                                          failures=len(b.get('failures', [])))
        for fl in b.get('failures', [])[:1]:
            for name in fl['obligations'][:1]:
                if [k for k in known if k.get('obligation') == name and k.get('mode', r['mode']) == r['mode']]:
                    line = "KNOWN-FINDING: property=%s %s [%s] (bounded run)" % (prop, name, r['mode'])
                    if line not in known_lines:
                        known_lines.append(line)
                    continue
                if any(("obligation=%r mode=%s" % (name, r['mode'])) in v for v in violations):
                    continue
                fn = os.path.join(rdir, "bounded_%s.json" % hashlib.sha1((name + r['mode']).encode()).hexdigest()[:12])
                rec = dict(property=prop, obligation=name, mode=r['mode'], kind='unit', unit=r['unit_spec'],
                           function=r['target'], values=fl['values'], shard=fl.get('shard', 0), history=fl.get('history', []),
                           found_by='bounded stand-in (random inputs)')
                with open(fn, 'w') as f:
                    json.dump(rec, f, indent=1, default=str)
                ok, info = native_replay(fn, r['mode'] == 'O')
                rec['native_result'] = info
                rec['reproduced'] = bool(ok)
                with open(fn, 'w') as f:
                    json.dump(rec, f, indent=1, default=str)
                if ok:
                    violations.append("VIOLATION property=%s replay=%s obligation=%r mode=%s" % (prop, fn, name, r['mode']))
    for u in bounded_only:
        # units that are bounded stand-ins by design (never counted as obligations)
        for mode in u.modes:
            b = bounded_run(unit_spec(u), mode == 'O', seed, 800 if tier == 'quick' else 5000)
            bounded["%s [%s] (bounded by design)" % (u.name, mode)] = dict(evaluations=b.get('evals', 0), skipped=b.get('skipped', 0),
                                                                           failures=len(b.get('failures', [])))
            for fl in b.get('failures', [])[:1]:
                name = fl['obligations'][0]
                fn = os.path.join(rdir, "bounded_%s.json" % hashlib.sha1((name + mode).encode()).hexdigest()[:12])
                rec = dict(property=prop, obligation=name, mode=mode, kind='unit', unit=unit_spec(u), function=u.target,
                           values=fl['values'], shard=fl.get('shard', 0), history=fl.get('history', []),
                           found_by='bounded stand-in (by design)')
                with open(fn, 'w') as f:
                    json.dump(rec, f, indent=1, default=str)
                ok, info = native_replay(fn, mode == 'O')
                rec['native_result'] = info
                rec['reproduced'] = bool(ok)
                with open(fn, 'w') as f:
                    json.dump(rec, f, indent=1, default=str)
                if ok:
                    violations.append("VIOLATION property=%s replay=%s obligation=%r mode=%s" % (prop, fn, name, mode))
    for r in undecided_units:
        und_notes.append("%s [%s]: %s" % (r['name'], r['mode'], '; '.join(r['unsupported'][:3])))

    # ---- verdict
    wall = time.time() - t_start
    status = 0
    if crashes:
        for r in crashes:
            sys.stderr.write("CRASH in %s [%s]\n%s\n" % (r['unit_spec'], r['mode'], r['crash']))
        status = 3
    elif n_ob == 0:
        print("CHECKER-ERROR property=%s zero obligations generated" % prop)
        status = 3
    elif vacuous_units:
        print("CHECKER-ERROR property=%s vacuous contract (no satisfiable path): %s"
              % (prop, ', '.join(r['name'] for r in vacuous_units)))
        status = 3
    expected = pinfo.get('min_obligations', 1)
    if status == 0 and n_ob < expected and not args.only and not violations and not undecided_units:
        # vacuity guard for SILENT drops; a changed tree that makes units leave the subset also lowers the count: then the
        # named violations / the UNDECIDED lines are the verdict, not this
        print("CHECKER-ERROR property=%s only %d obligations generated, expected at least %d" % (prop, n_ob, expected))
        status = 3
    if violations:
        status = 1 if status in (0, 2) else status
    elif status == 0 and (unknowns or undecided_units):
        status = 2

    level = pinfo.get('level', 'proof')
    all_proved = (n_ob == n_dis and not und_notes)
    coverage = dict(
        obligations=n_ob, discharged=n_dis,
        checker_cmd="python3-vt -m pyvc.check %s --tier %s" % (prop, tier),
        trusted_base=sorted(set(pinfo.get('trusted_base', [])) | {
            "pyvc (own AST->z3 VC generator) and its models of Python built-ins (DESIGN 2.4); not itself verified",
            "z3 5.1.0 (cvc5 1.0.3 on unknown)"} | assumed),
        functions_under_contract=sorted(set(functions)),
        callee_contracts_used=sorted(used_contracts), inlined=sorted(inlined),
        by_backend=by_backend, solver_wall_s=round(solver_secs, 3), paths=paths,
        feasibility_unknown=sum(r.get('unknown_feasible', 0) for r in results),
        assert_modes=sorted({r['mode'] for r in results}),
        undecided=und_notes, unknown=[o['name'] for _, o in unknowns][:20],
        known_findings=known_lines, bounded=bounded,
        samples=samples or [dict(note="no solver-discharged obligation in this run")],
        explanation=pinfo.get('explanation', ''),
        dropped=pinfo.get('dropped', []),
    )
    coverage.update(extra_meta)
    if bounded:
        coverage['evaluations'] = sum(b['evaluations'] for b in bounded.values())
    ev = dict(property_id=prop, tier=tier, seed=seed, level=level, coverage=coverage,
              assumptions=pinfo.get('assumptions', []), wall_s=round(wall, 2), violations=len(violations))
    with open(os.path.join(OUT, "evidence", "%s.json" % prop), 'w') as f:
        json.dump(ev, f, indent=1, default=str)

    for l in known_lines:
        print(l)
    for v in violations:
        print(v)
    for n in sorted(set(und_notes)):
        print("UNDECIDED property=%s %s" % (prop, n))
    for r, o in unknowns[:10]:
        print("UNKNOWN property=%s %s %s" % (prop, o['name'], o.get('detail', '')[:200]))
    print("property=%s tier=%s obligations=%d discharged=%d paths=%d units=%d solver_s=%.1f wall_s=%.1f exit=%d"
          % (prop, tier, n_ob, n_dis, paths, len(results), solver_secs, wall, status))
    return status


if __name__ == '__main__':
    sys.exit(main())
