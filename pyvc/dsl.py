"""Specification DSL: the same contract text is evaluated symbolically (z3 terms) when obligations are
generated and natively (plain Python values) when a counterexample is replayed on the real code."""
import z3

from .values import (SBytes, SStr, Opq, Fmt, Choice, Obj, OpaqueVal, ExcObj, is_z3, is_symint, is_symbool,
                     is_intlike, is_str, zint, zbool, simp, mkstr, val_eq, str_eq, I, ufun, PyStr, str_term,
                     obj_fields, hexdigit, Unsupported)
from . import ops


def _sym(*xs):
    return any(is_z3(x) or isinstance(x, (SBytes, SStr, Choice, OpaqueVal)) for x in xs)


def And(*xs):
    xs = [x for x in xs if x is not True]
    if any(x is False for x in xs):
        return False
    if not xs:
        return True
    if _sym(*xs):
        return simp(z3.And(*[zbool(x) if not isinstance(x, bool) else z3.BoolVal(x) for x in xs]))
    return all(xs)


def Or(*xs):
    xs = [x for x in xs if x is not False]
    if any(x is True for x in xs):
        return True
    if not xs:
        return False
    if _sym(*xs):
        return simp(z3.Or(*[zbool(x) for x in xs]))
    return any(xs)


def Not(x):
    if is_z3(x):
        return simp(z3.Not(x))
    return not x


def Implies(a, b):
    return Or(Not(a), b)


def Iff(a, b):
    if _sym(a, b):
        return simp(zbool(a) == zbool(b))
    return bool(a) == bool(b)


def If(c, a, b):
    if is_z3(c):
        if is_intlike(a) and is_intlike(b):
            return simp(z3.If(c, zint(a), zint(b)))
        if (isinstance(a, bool) or is_symbool(a)) and (isinstance(b, bool) or is_symbool(b)):
            return simp(z3.If(c, zbool(a), zbool(b)))
        if (is_str(a) or isinstance(a, Choice)) and (is_str(b) or isinstance(b, Choice)):
            return Choice([(c, a), (simp(z3.Not(c)), b)]) if isinstance(a, str) and isinstance(b, str) else \
                mkstr([Opq(z3.If(c, str_term(a), str_term(b)))])
        raise Unsupported("If over %r/%r" % (type(a), type(b)))
    return a if c else b


def Eq(a, b):
    """Python == lifted; works on native values too"""
    if _sym(a, b) or isinstance(a, (list, tuple, dict)) or isinstance(b, (list, tuple, dict)):
        return val_eq(_norm(a), _norm(b))
    return _norm(a) == _norm(b)


def _norm(v):
    if isinstance(v, (bytes, bytearray, memoryview)):
        return bytes(v)
    return v


def truth(x):
    """truthiness as a formula (no branching)"""
    if is_symbool(x):
        return x
    if is_symint(x):
        return simp(x != 0)
    if isinstance(x, SBytes):
        return simp(zint(x.ln) != 0)
    return bool(x)


# ---------------------------------------------------------------- bytes
def blen(data):
    if isinstance(data, SBytes):
        return data.ln
    return len(data)


def _rng(v):
    """bytes are 0..255 (assumed on every array read the specification makes)"""
    c = _CUR[0]
    if c is not None and is_z3(v):
        c.assume(z3.And(v >= 0, v <= 255))
    return v


def byte(data, i):
    if isinstance(data, SBytes):
        return simp(_rng(data.at(i)))
    b = bytes(data[i:i + 1]) if i >= 0 else b''
    return b[0] if b else 0       # out of range natively: 0 (the in-range conjunct of the contract is then false)


def be(data, off, n):
    """big-endian unsigned integer of n bytes at off (n concrete)"""
    if isinstance(data, SBytes):
        t = I(0)
        for k in range(n):
            t = t + _rng(data.at(zint(off) + k)) * I(256 ** (n - 1 - k))
        return simp(t)
    return int.from_bytes(bytes(data[off:off + n]), 'big')


def view(data, off, n):
    if isinstance(data, SBytes):
        return SBytes(data.arr, simp(zint(data.off) + zint(off)), n, data.kind, data.root)
    return bytes(data[off:off + n])


def same_view(a, b):
    """two byte strings denote the same bytes"""
    if isinstance(a, SBytes) or isinstance(b, SBytes):
        return ops.bytes_eq(a, b) if hasattr(ops, 'bytes_eq') else val_eq(a, b)
    return bytes(a) == bytes(b)


def hexstr(data, off, n, upper=False):
    if isinstance(data, SBytes):
        out = []
        for k in range(n):
            v = simp(_rng(data.at(zint(off) + k)))
            out.append(simp(hexdigit(v / 16, upper)))
            out.append(simp(hexdigit(v % 16, upper)))
        return mkstr(out)
    s = bytes(data[off:off + n]).hex()
    return s.upper() if upper else s


def ascii_text(data, off, n):
    """the n bytes as characters (valid when they are ASCII)"""
    if isinstance(data, SBytes):
        return mkstr([simp(_rng(data.at(zint(off) + k))) for k in range(n)])
    return bytes(data[off:off + n]).decode('ascii')


def is_ascii(data, off, n):
    if isinstance(data, SBytes):
        return And(*[data.at(zint(off) + k) < 128 for k in range(n)])
    return all(b < 128 for b in bytes(data[off:off + n]))


def strip(s, chars, mode='b'):
    if isinstance(s, str):
        return {'b': s.strip, 'l': s.lstrip, 'r': s.rstrip}[mode](chars)
    return ops.str_strip(_CUR[0], s, chars, mode)


def fmt(v, conv='d', width=0, fill=' ', prefix=''):
    if isinstance(v, int):
        return ops.fmt_int(None, v, conv, width, fill, prefix)
    return ops.fmt_int(_CUR[0], v, conv, width, fill, prefix)


def cat(*parts):
    if all(isinstance(p, str) for p in parts):
        return ''.join(parts)
    return mkstr(list(parts))


def table(d, key, default):
    """dict.get(key, default) on a concrete table"""
    if is_z3(key) or isinstance(key, SStr):
        alts = []
        for k, v in d.items():
            e = val_eq(k, key)
            if e is True:
                return v
            if e is not False:
                alts.append((e, v))
        if not alts:
            return default
        rest = simp(z3.And(*[z3.Not(zbool(c)) for c, _ in alts]))
        return Choice(alts + [(rest, default)])
    return d.get(key, default)


def in_table(d, key):
    if is_z3(key) or isinstance(key, SStr):
        return Or(*[val_eq(k, key) for k in d])
    return key in d


def bit(x, mask):
    """x & mask != 0 for a constant mask"""
    if is_z3(x):
        return simp(zint(ops.bitand_const(x, mask)) != 0)
    return (x & mask) != 0


def band(x, mask):
    if is_z3(x):
        return ops.bitand_const(x, mask)
    return x & mask


def shr(x, k):
    if is_z3(x):
        return simp(x / I(1 << k))
    return x >> k


def div(a, b):
    """floor division by a positive constant"""
    if is_z3(a):
        return simp(a / I(b))
    return a // b


def mod(a, b):
    if is_z3(a):
        return simp(a % I(b))
    return a % b


def field(o, name):
    if isinstance(o, Obj):
        return obj_fields(o)[name]
    return getattr(o, name)


def has_field(o, name):
    if isinstance(o, Obj):
        return name in obj_fields(o)
    return hasattr(o, name)


def exc_class(e):
    if isinstance(e, ExcObj):
        return e.cls
    return type(e)


def as_number(s, base=16):
    """the integer a displayed string denotes, or None if it is not an integer rendering.
    Accepts an optional 0x prefix.  Symbolic: the rope must be [prefix] + Fmt; concrete: int(s, base)."""
    if isinstance(s, str):
        t = s
        if t.startswith('0x') or t.startswith('0X'):
            t = t[2:]
        try:
            return int(t, base)
        except ValueError:
            return None
    if isinstance(s, SStr):
        segs = list(s.segs)
        if len(segs) >= 3 and segs[0] == 48 and segs[1] in (120, 88):
            segs = segs[2:]
        if len(segs) == 1 and isinstance(segs[0], Fmt):
            f = segs[0]
            if (base == 16 and f.conv in 'xX') or (base == 10 and f.conv == 'd'):
                return f.val
        if segs and all(isinstance(c, int) or is_symint(c) for c in segs):
            v = ops.expansion_value(segs, base)
            if v is not None:
                return v
        if segs and all(isinstance(c, int) or is_symint(c) for c in segs) and base == 16:
            # explicit hex digits
            t = I(0)
            for c in segs:
                t = t * 16 + ops.hexval(c)
            return simp(t)
    return None


def branch(cond):
    """spec-side case split (forks symbolically; plain bool natively)"""
    if is_z3(cond):
        return _CUR[0].decide(cond)
    return bool(cond)


_CUR = [None]


def set_ctx(ctx):
    _CUR[0] = ctx


def cur():
    return _CUR[0]
