"""pyvc - a small verification-condition generator for the Python subset used by
openpower-pel-parsers.  See /verif/DESIGN.md.

The engine re-reads the real source under /repo on every run (ast), executes the
function under contract symbolically over z3 terms path by path, replaces calls
to functions that have a contract by that contract, and discharges every
obligation with z3 (cvc5 as second opinion on `unknown`).
"""
import os
import sys

REPO = os.environ.get("PYVC_REPO", "/repo")
MODULES = os.path.join(REPO, "modules")
VERIF = os.path.dirname(os.path.dirname(os.path.abspath(__file__)))


def ensure_repo_on_path():
    if MODULES not in sys.path:
        sys.path.insert(0, MODULES)
    sys.dont_write_bytecode = True
