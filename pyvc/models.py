"""Models of Python built-ins, methods of built-in types, and the OS boundary (ghost traces)."""
import builtins
import collections
import importlib
import json
import math
import os
import re
import sys
import types

import z3

from .values import (Unsupported, Raised, ExcObj, SBytes, SStr, Opq, Fmt, Choice, Obj, OpaqueVal, PyStr, I,
                     is_z3, is_symint, is_symbool, is_intlike, is_str, zint, zbool, simp, mkstr, segs_of,
                     str_term, val_eq, ufun, obj_cls, obj_fields, lit, concrete_bytes_to_s, RootBuf, ByteArr)
from . import ops
from .ops import raise_py, truthy, is_concrete


class SymRange:
    def __init__(self, start, stop, step=1):
        self.start, self.stop, self.step = start, stop, step


class LazySeq:
    """symbolic-length sequence: length term + element function (+ concretely appended tail)"""

    def __init__(self, length, elem, name='seq'):
        self.length = length
        self.elem = elem
        self.name = name
        self.tail = []

    def total_len(self):
        if not self.tail:
            return self.length
        return simp(zint(self.length) + len(self.tail))

    def iterate(self, it):
        k = 0
        if not isinstance(self.length, int) and not it.ctx.is_true(zint(self.length) <= 8):
            # unrolling only makes sense when the path condition bounds the length; otherwise the loop needs an invariant
            raise Unsupported("iteration over a sequence of unbounded symbolic length without a loop invariant")
        while True:
            if not it.ctx.decide(I(k) < zint(self.length)):
                return
            if k >= 8:
                raise Unsupported("iteration over a symbolic-length sequence without a loop invariant (8 elements unrolled)")
            yield self.elem(I(k))
            k += 1

    def index(self, it, k):
        n = zint(self.length)
        zk = zint(k)
        if not it.ctx.decide(z3.And(zk >= -n, zk < n)):
            raise_py(IndexError, "list index out of range")
        if isinstance(k, int) and k < 0:
            return self.elem(simp(n + k))
        if isinstance(k, int):
            return self.elem(I(k))
        return self.elem(simp(z3.If(zk >= 0, zk, zk + n)))


class SymDict:
    """dict whose keys may be symbolic strings: association list in insertion order"""

    def __init__(self):
        self.items = []     # list of [key, value]

    def set(self, it, k, v):
        ctx = it.ctx
        for kv in self.items:
            e = val_eq(kv[0], k)
            if ctx.decide(e):
                kv[1] = v
                return
        self.items.append([k, v])

    def get(self, it, k, default=None, raise_=False):
        ctx = it.ctx
        for kk, vv in self.items:
            if ctx.decide(val_eq(kk, k)):
                return vv
        if raise_:
            raise_py(KeyError, k)
        return default


class HDict(dict):
    """a native dict that can additionally hold symbolic keys (association list `sym`, insertion order)"""

    def __init__(self, *a, **kw):
        dict.__init__(self, *a, **kw)
        self.sym = []
        self.base_term = None      # Val term of an opaque prefix (loop invariants over dicts that grow)

    def sym_set(self, it, k, v):
        ctx = it.ctx
        for kv in self.sym:
            if ctx.decide(val_eq(kv[0], k)):
                kv[1] = v
                return
        for ck in list(dict.keys(self)):
            e = val_eq(ck, k)
            if e is not False and ctx.decide(e):
                dict.__setitem__(self, ck, v)
                return
        it.note_write(self, None, "dict")
        if self.base_term is not None and getattr(self, 'fresh_check', None) is not None:
            # the opaque prefix may already hold this key (then Python overwrites in place instead of appending):
            # the contract that introduced the prefix states why the key is new
            self.fresh_check(it, k)
        self.sym.append([k, v])

    def total(self):
        return dict.__len__(self) + len(self.sym) + (1 if self.base_term is not None else 0)


class FMap:
    """a dict with string keys of unbounded number, for loop invariants over maps that are built per item:
    `has` : Array(PyStr, Bool) says which keys are present; the values are lists of len(cols) integers,
    column j being Array(PyStr, Int).  (Representation invariant declared by the contract that introduces it.)"""

    def __init__(self, has, cols):
        self.has = has
        self.cols = list(cols)

    def contains(self, key):
        return simp(z3.Select(self.has, str_term(key)))

    def getitem(self, it, key):
        if not (is_str(key) or isinstance(key, Choice)):
            raise Unsupported("FMap key of type %s" % type(key).__name__)
        if not it.ctx.decide(self.contains(key)):
            raise_py(KeyError, key)
        return FSlot(self, str_term(key))

    def setitem(self, it, key, value):
        if not (is_str(key) or isinstance(key, Choice)):
            raise Unsupported("FMap key of type %s" % type(key).__name__)
        if isinstance(value, FSlot):
            value = [z3.Select(c, value.key) for c in value.m.cols]
        if not (isinstance(value, list) and len(value) == len(self.cols) and all(is_intlike(v) for v in value)):
            raise Unsupported("FMap value is not a list of %d integers" % len(self.cols))
        it.note_write(self, None, "dict")
        k = str_term(key)
        self.has = z3.Store(self.has, k, z3.BoolVal(True))
        self.cols = [z3.Store(c, k, zint(v)) for c, v in zip(self.cols, value)]


class FSlot:
    """the list stored under one key of an FMap (a view: item assignment writes through)"""

    def __init__(self, m, key):
        self.m = m
        self.key = key

    def getitem(self, it, j):
        if not isinstance(j, int):
            raise Unsupported("FMap value indexed by a symbolic index")
        if not -len(self.m.cols) <= j < len(self.m.cols):
            raise_py(IndexError, "list index out of range")
        return simp(z3.Select(self.m.cols[j], self.key))

    def setitem(self, it, j, v):
        if not isinstance(j, int) or not is_intlike(v):
            raise Unsupported("FMap value store with symbolic index / non-integer value")
        if not -len(self.m.cols) <= j < len(self.m.cols):
            raise_py(IndexError, "list assignment index out of range")
        it.note_write(self.m, None, "dict value")
        j %= len(self.m.cols)
        self.m.cols[j] = z3.Store(self.m.cols[j], self.key, zint(v))


class Handle:
    """open file object"""

    def __init__(self, path, mode, content=None):
        self.path = path
        self.mode = mode
        self.content = content
        self.closed = False


def handle_attr(it, h, name):
    from .interp import MethodRef
    if name == 'closed':
        return h.closed
    if name == 'name':
        return h.path
    return MethodRef(h, name)


# ------------------------------------------------------------------ OS boundary (assumed contracts)
def io_may_fail(it, what, path=None):
    """every I/O primitive may raise OSError: fork"""
    ctx = it.ctx
    if not getattr(ctx, 'io_faults', True):
        return
    if ctx.decide(ctx.fresh('oserror_' + what, 'bool')):
        ctx.emit('fs', ('fail', what, path))
        raise_py(OSError, 5, "injected I/O error in %s" % what)


def model_open(it, path, mode='r', *a, **kw):
    ctx = it.ctx
    ctx.assumed_models.add("open/read/write/close: effects on the ghost fs trace; each may raise OSError")
    if not isinstance(mode, str):
        raise Unsupported("symbolic open mode")
    if any(c in mode for c in 'wax+'):
        ctx.emit('fs', ('open_w', path, mode))
        io_may_fail(it, 'open_w', path)
        ctx.emit('fs', ('opened_w', path))
        return Handle(path, mode)
    ctx.emit('fs', ('open_r', path))
    env = getattr(ctx, 'env', None)
    if env is None or not hasattr(env, 'open_read'):
        raise Unsupported("open() for reading without an environment model")
    return env.open_read(it, path, mode)


def ctx_enter(it, mgr):
    if isinstance(mgr, Handle):
        return mgr
    raise Unsupported("with-statement on %s" % type(mgr).__name__)


def ctx_exit(it, mgr, exc):
    ctx = it.ctx
    if isinstance(mgr, Handle):
        if any(c in mgr.mode for c in 'wax+'):
            # flush + close may fail
            mgr.closed = True
            if ctx.decide(ctx.fresh('oserror_close', 'bool')) and getattr(ctx, 'io_faults', True):
                ctx.emit('fs', ('close_fail', mgr.path))
                raise_py(OSError, 28, "injected I/O error in close")
            ctx.emit('fs', ('close_ok', mgr.path))
        else:
            mgr.closed = True
        return
    raise Unsupported("with-statement exit")


def model_print(it, *args, sep=' ', end='\n', file=None, flush=False):
    ctx = it.ctx
    chan = 'stdout'
    if file is sys.stderr:
        chan = 'stderr'
    elif file is None or file is sys.stdout:
        chan = 'stdout'
    elif isinstance(file, Handle):
        ctx.emit('fs', ('write', file.path, tuple(args)))
        return None
    else:
        raise Unsupported("print to unknown file")
    parts = [ops.to_str(ctx, a) for a in args]
    if len(parts) == 1:
        text = parts[0]            # keep the value itself (e.g. the text of a dumped document)
    else:
        text = ops.str_join(ctx, sep, parts) if parts else ''
    if chan == 'stdout' and getattr(ctx, 'stdout_faults', False):
        if ctx.decide(ctx.fresh('oserror_print', 'bool')):
            ctx.emit('stdout', ('fail',))
            raise_py(OSError, 32, "injected EPIPE")
    ctx.emit(chan, (text, end))
    return None


def model_exit(it, code=None):
    raise Raised(ExcObj(SystemExit, (code,)))


def model_import_module(it, name, package=None):
    ctx = it.ctx
    ctx.emit('imports', name)
    env = getattr(ctx, 'env', None)
    if env is None or not hasattr(env, 'import_module'):
        raise Unsupported("importlib.import_module without an environment model")
    return env.import_module(it, name)


def model_os(name):
    def f(it, *args, **kw):
        env = getattr(it.ctx, 'env', None)
        if env is None or not hasattr(env, 'os_' + name):
            raise Unsupported("os.%s without an environment model" % name)
        return getattr(env, 'os_' + name)(it, *args, **kw)
    return f


def model_os_path_join(it, *parts):
    ctx = it.ctx
    if is_concrete(parts):
        return os.path.join(*parts)
    ctx.assumed_models.add("os.path.join/basename/splitext: functions of their arguments")
    t = str_term(parts[0])
    for p in parts[1:]:
        t = ufun('path_join', PyStr, PyStr, PyStr)(t, str_term(p))
    return mkstr([Opq(t)])


def model_os_path_basename(it, p):
    if is_concrete(p):
        return os.path.basename(p)
    it.ctx.assumed_models.add("os.path.join/basename/splitext: functions of their arguments")
    return mkstr([Opq(ufun('path_basename', PyStr, PyStr)(str_term(p)))])


def model_os_path_splitext(it, p):
    if is_concrete(p):
        return os.path.splitext(p)
    it.ctx.assumed_models.add("os.path.join/basename/splitext: functions of their arguments")
    t = str_term(p)
    return (mkstr([Opq(ufun('splitext_root', PyStr, PyStr)(t))]), mkstr([Opq(ufun('splitext_ext', PyStr, PyStr)(t))]))


def model_os_path_dirname(it, p):
    if is_concrete(p):
        return os.path.dirname(p)
    return mkstr([Opq(ufun('path_dirname', PyStr, PyStr)(str_term(p)))])


FS_MUTATORS = ['remove', 'unlink', 'rmdir', 'removedirs', 'rename', 'renames', 'replace', 'truncate', 'chmod',
               'chown', 'mkdir', 'makedirs', 'link', 'symlink', 'utime', 'system', 'popen', 'write', 'ftruncate']


def model_fs_mutator(name):
    def f(it, *args, **kw):
        ctx = it.ctx
        ctx.emit('fs', (name,) + tuple(args))
        io_may_fail(it, name, args[0] if args else None)
        ctx.emit('fs', (name + '_ok',) + tuple(args))
        return None
    return f


# ------------------------------------------------------------------ builtin functions
def b_len(it, x):
    ctx = it.ctx
    if isinstance(x, Choice):
        x = ops.resolve_choice(ctx, x)
    if is_str(x):
        return ops.str_len(ctx, x)
    if isinstance(x, SBytes):
        return x.ln
    if isinstance(x, (list, tuple)) and any(isinstance(e, Chunk) for e in x):
        t = I(0)
        for e in x:
            if isinstance(e, Chunk):
                if e.length is not None:
                    t = t + zint(e.length)
                else:
                    ln = seq_len(e.term)
                    ctx.assume(ln >= 0)
                    t = t + ln
            else:
                t = t + 1
        return simp(t)
    if isinstance(x, (list, tuple, dict, set, bytes, bytearray, memoryview, range, frozenset)):
        return len(x)
    if isinstance(x, LazySeq):
        return x.total_len()
    if isinstance(x, SymDict):
        return len(x.items)
    if x is None or is_intlike(x):
        raise_py(TypeError, "object of type '%s' has no len()" % ops.pytype_name(x))
    if isinstance(x, OpaqueVal):
        t = ufun('len_' + x.tag, x.term.sort(), z3.IntSort())(x.term)
        ctx.assume(t >= 0)
        return t
    if hasattr(x, '__len__') and is_concrete(x):
        return len(x)
    raise Unsupported("len of %s" % type(x).__name__)


def b_int(it, x=0, base=None, **kw):
    ctx = it.ctx
    if 'base' in kw:
        base = kw['base']
    if isinstance(x, Choice):
        x = ops.resolve_choice(ctx, x)
    if is_concrete(x) and is_concrete(base):
        try:
            return int(x) if base is None else int(x, base)
        except Exception as e:
            raise Raised(ExcObj(type(e), e.args))
    if is_intlike(x) and base is None:
        return x
    if is_symbool(x):
        return zint(x)
    if is_str(x):
        b = 10 if base is None else base
        segs = segs_of(x)
        if (isinstance(b, int) and b not in (10, 16)) or any(isinstance(g, Opq) for g in segs):
            # opaque text or an unusual base: int() is a function of (text, base) that raises ValueError for invalid literals
            if not isinstance(b, int):
                raise Unsupported("int() with symbolic base")
            ctx.assumed_models.add("int(text, base) on opaque text: function of (text, base); ValueError iff not a valid literal")
            t = str_term(x)
            if not ctx.decide(ufun('int_literal_valid', PyStr, z3.IntSort(), z3.BoolSort())(t, I(b))):
                raise_py(ValueError, "invalid literal for int() with base %d" % b)
            return ufun('int_of_str', PyStr, z3.IntSort(), z3.IntSort())(t, I(b))
        if b not in (10, 16):
            raise Unsupported("int() with base %r" % (b,))
        if len(segs) == 1 and isinstance(segs[0], Fmt) and ((segs[0].conv == 'd' and b == 10) or
                                                             (segs[0].conv in 'xX' and b == 16)):
            return segs[0].val
        chars = ops.expand_str(ctx, x)
        if not chars:
            raise_py(ValueError, "invalid literal for int() with base %d: ''" % b)
        if b == 16:
            ok = z3.And(*[ops.is_hexdigit(c) for c in chars])
            if not ctx.decide(ok):
                # whitespace / sign / underscore / 0x forms are not modelled
                simple = z3.And(*[z3.And(zint(c) > 32, zint(c) != 43, zint(c) != 45, zint(c) != 95,
                                         zint(c) != 120, zint(c) != 88, zint(c) < 128) for c in chars])
                if ctx.decide(simple):
                    raise_py(ValueError, "invalid literal for int() with base 16")
                raise Unsupported("int(s,16) on text with sign/whitespace/underscore/non-ASCII")
            t = I(0)
            for c in chars:
                t = t * 16 + ops.hexval(c)
            return simp(t)
        ok = z3.And(*[z3.And(zint(c) >= 48, zint(c) <= 57) for c in chars])
        if not ctx.decide(ok):
            simple = z3.And(*[z3.And(zint(c) > 32, zint(c) != 43, zint(c) != 45, zint(c) != 95, zint(c) < 128)
                              for c in chars])
            if ctx.decide(simple):
                raise_py(ValueError, "invalid literal for int() with base 10")
            raise Unsupported("int(s) on text with sign/whitespace/underscore/non-ASCII")
        t = I(0)
        for c in chars:
            t = t * 10 + (zint(c) - 48)
        return simp(t)
    raise Unsupported("int() of %s" % type(x).__name__)


def b_str(it, x='', encoding=None, errors=None, **kw):
    if 'encoding' in kw:
        encoding = kw['encoding']
    if encoding is not None or isinstance(x, (SBytes,)) and encoding is not None:
        return ops.bytes_decode(it.ctx, x, encoding or 'utf-8', errors or 'strict')
    if isinstance(x, SBytes):
        raise Unsupported("str(bytes) repr")
    return ops.to_str(it.ctx, x)


def b_hex(it, x):
    ctx = it.ctx
    if isinstance(x, int):
        return hex(x)
    if isinstance(x, Choice):
        x = ops.resolve_choice(ctx, x)
        return b_hex(it, x)
    if not is_symint(x):
        raise_py(TypeError, "object cannot be interpreted as an integer")
    if ctx.decide(x < 0):
        return mkstr(['-0x', Fmt(simp(-x), 'x', 0, '0')])
    return mkstr(['0x', Fmt(x, 'x', 0, '0')])


def b_chr(it, x):
    if isinstance(x, int):
        try:
            return chr(x)
        except Exception as e:
            raise Raised(ExcObj(type(e), e.args))
    if not is_symint(x):
        raise_py(TypeError, "an integer is required")
    if not it.ctx.decide(z3.And(x >= 0, x < 0x110000)):
        raise_py(ValueError, "chr() arg not in range(0x110000)")
    return mkstr([x])


def b_ord(it, c):
    if isinstance(c, str):
        try:
            return ord(c)
        except Exception as e:
            raise Raised(ExcObj(type(e), e.args))
    if isinstance(c, SStr):
        segs = c.segs
        if len(segs) == 1 and (isinstance(segs[0], int) or is_symint(segs[0])):
            return segs[0]
        chars = ops.expand_str(it.ctx, c)
        if len(chars) == 1:
            return chars[0]
        raise_py(TypeError, "ord() expected a character")
    raise Unsupported("ord of %s" % type(c).__name__)


def b_range(it, *args):
    if all(isinstance(a, int) for a in args):
        try:
            return range(*args)
        except Exception as e:
            raise Raised(ExcObj(type(e), e.args))
    if any(not is_intlike(a) for a in args):
        raise_py(TypeError, "range() integer argument expected")
    if len(args) == 1:
        return SymRange(0, args[0], 1)
    if len(args) == 2:
        return SymRange(args[0], args[1], 1)
    if isinstance(args[2], int) and args[2] > 0:
        return SymRange(args[0], args[1], args[2])
    raise Unsupported("range with symbolic/negative step")


def b_enumerate(it, x, start=0):
    items = it.iterate(x)
    return [(start + k, v) for k, v in enumerate(items)]


def b_list(it, x=None):
    l = [] if x is None else it.iterate(x)
    it.ctx.new_ids.add(id(l))
    return l


def b_tuple(it, x=None):
    if isinstance(x, LazySeq) and not x.tail:
        # an immutable snapshot of a symbolic-length sequence: the same elements in the same order
        return LazySeq(x.length, x.elem, x.name)
    return () if x is None else tuple(it.iterate(x))


def b_dict(it, *args, **kw):
    d = HDict()
    if args:
        a = args[0]
        if isinstance(a, dict):
            d.update(a)
        else:
            for k, v in it.iterate(a):
                d[k] = v
    d.update(kw)
    it.ctx.new_ids.add(id(d))
    return d


def b_ordereddict(it, *args, **kw):
    d = collections.OrderedDict()
    if args:
        a = args[0]
        if isinstance(a, dict):
            d.update(a)
        else:
            for k, v in it.iterate(a):
                d[k] = v
    d.update(kw)
    it.ctx.new_ids.add(id(d))
    return d


def b_bool(it, x=False):
    return truthy(it.ctx, x)


def py_isinstance(it, v, cls):
    from .interp import ClassInfo
    if isinstance(cls, tuple):
        return any(py_isinstance(it, v, c) for c in cls)
    if isinstance(cls, ClassInfo):
        if isinstance(v, Obj):
            ci = obj_cls(v)
            return ci is cls or (ci.pyclass is not None and cls.pyclass is not None and
                                 issubclass(ci.pyclass, cls.pyclass))
        if isinstance(v, ExcObj):
            return cls.pyclass is not None and issubclass(v.cls, cls.pyclass)
        if cls.pyclass is not None and not isinstance(v, (SStr, SBytes, Choice, OpaqueVal)) and not is_z3(v):
            return isinstance(v, cls.pyclass)
        return False
    if isinstance(v, Choice):
        v = ops.resolve_choice(it.ctx, v)
    if is_symint(v):
        return cls in (int, object)
    if is_symbool(v):
        return cls in (bool, int, object)
    if isinstance(v, SStr):
        return cls in (str, object)
    if isinstance(v, SBytes):
        k = {'bytes': bytes, 'memoryview': memoryview, 'bytearray': bytearray}[v.kind]
        return cls in (k, object)
    if isinstance(v, ExcObj):
        return isinstance(cls, type) and issubclass(v.cls, cls)
    if isinstance(v, OpaqueVal):
        if v.tag == 'json':
            jt = {dict: 'dict', list: 'list', str: 'str', int: 'int', float: 'float', bool: 'bool'}.get(cls)
            if cls is object:
                return True
            if jt is None:
                return False
            return it.ctx.decide(ufun('json_is_' + jt, v.term.sort(), z3.BoolSort())(v.term))
        raise Unsupported("isinstance on opaque %s" % v.tag)
    if isinstance(v, Obj):
        return cls is object
    if isinstance(v, SymDict):
        return cls in (dict, object)
    return isinstance(v, cls)


def b_isinstance(it, v, cls):
    return py_isinstance(it, v, cls)


def b_memoryview(it, x):
    if isinstance(x, SBytes):
        return SBytes(x.arr, x.off, x.ln, 'memoryview', x.root)
    if isinstance(x, (bytes, bytearray, memoryview)):
        return memoryview(x)
    raise_py(TypeError, "memoryview: a bytes-like object is required, not '%s'" % ops.pytype_name(x))


def b_bytes(it, x=b'', *a):
    if isinstance(x, SBytes):
        return SBytes(x.arr, x.off, x.ln, 'bytes', x.root)
    if is_concrete(x):
        try:
            return bytes(x, *a)
        except Exception as e:
            raise Raised(ExcObj(type(e), e.args))
    raise Unsupported("bytes() of %s" % type(x).__name__)


def b_bytearray(it, x=None, *a):
    if x is None:
        return SBytes(z3.K(z3.IntSort(), I(0)), 0, 0, 'bytearray')
    if isinstance(x, SBytes):
        return SBytes(x.arr, x.off, x.ln, 'bytearray', None)
    if is_concrete(x):
        return concrete_bytes_to_s(bytearray(x, *a), 'bytearray')
    raise Unsupported("bytearray() of %s" % type(x).__name__)


def b_sorted(it, x, key=None, reverse=False):
    if key is not None:
        raise Unsupported("sorted with key")
    if isinstance(x, list) and any(isinstance(e, Chunk) for e in x):
        # same assumed contract as list.sort on a symbolic-length list
        it.ctx.assumed_models.add("list.sort(reverse=r) of a symbolic-length list: the list becomes spec_sorted(list, r) "
                                  "(a sorted rearrangement; with distinct names reverse=True is the exact reverse)")
        t = ufun('spec_sorted', JsonSort, z3.BoolSort(), JsonSort)(list_term(x), zbool(reverse) if not isinstance(reverse, bool)
                                                                  else z3.BoolVal(reverse))
        return [Chunk(t)]
    items = it.iterate(x)
    if is_concrete(items) and isinstance(reverse, bool):
        try:
            return sorted(items, reverse=reverse)
        except Exception as e:
            raise Raised(ExcObj(type(e), e.args))
    return sort_symbolic(it, items, reverse)


def sort_symbolic(it, items, reverse):
    """sorted() of a few symbolic ints: fresh values constrained to be ascending and a rearrangement of the
    inputs (each output is an input and each input is an output: exact when the inputs are pairwise distinct,
    which callers must be able to prove).  Falls back to insertion sort by forking otherwise."""
    ctx = it.ctx
    if all(is_str(x) for x in items) and items:
        out = []
        for x in items:
            pos = len(out)
            for k in range(len(out)):
                if ctx.decide(ops.str_lt(ctx, x, out[k])):
                    pos = k
                    break
            out.insert(pos, x)
        if truthy(ctx, reverse):
            out.reverse()
        return out
    if 0 < len(items) <= 8 and all(is_intlike(x) for x in items):
        zs = [zint(x) for x in items]
        distinct = z3.Distinct(*zs) if len(zs) > 1 else z3.BoolVal(True)
        if ctx.is_true(distinct):
            outs = [ctx.fresh('sorted', 'int') for _ in zs]
            cs = [outs[k] < outs[k + 1] for k in range(len(outs) - 1)]
            for o in outs:
                cs.append(z3.Or(*[o == z for z in zs]))
            for z in zs:
                cs.append(z3.Or(*[z == o for o in outs]))
            ctx.assume(z3.And(*cs))
            if truthy(ctx, reverse):
                outs.reverse()
            return outs
    if len(items) > 8:
        raise Unsupported("sorting %d symbolic items" % len(items))
    out = []
    for x in items:
        pos = len(out)
        for k in range(len(out)):
            if ctx.decide(ops.compare(ctx, 'Lt', x, out[k])):
                pos = k
                break
        out.insert(pos, x)
    if truthy(ctx, reverse):
        out.reverse()
    return out


def b_min(it, *args, **kw):
    vals = it.iterate(args[0]) if len(args) == 1 else list(args)
    if is_concrete(vals):
        return min(vals)
    r = vals[0]
    for v in vals[1:]:
        r = simp(z3.If(zint(v) < zint(r), zint(v), zint(r)))
    return r


def b_max(it, *args, **kw):
    vals = it.iterate(args[0]) if len(args) == 1 else list(args)
    if is_concrete(vals):
        return max(vals)
    r = vals[0]
    for v in vals[1:]:
        r = simp(z3.If(zint(v) > zint(r), zint(v), zint(r)))
    return r


def b_abs(it, x):
    if isinstance(x, (int, float)):
        return abs(x)
    return simp(z3.If(zint(x) < 0, -zint(x), zint(x)))


def b_all(it, x):
    for v in it.iterate(x):
        if not truthy(it.ctx, v):
            return False
    return True


def b_any(it, x):
    for v in it.iterate(x):
        if truthy(it.ctx, v):
            return True
    return False


def b_sum(it, x, start=0):
    t = start
    for v in it.iterate(x):
        t = ops.binop(it.ctx, 'Add', t, v)
    return t


def b_zip(it, *xs):
    ls = [it.iterate(x) for x in xs]
    return list(zip(*ls))


def b_reversed(it, x):
    return list(reversed(it.iterate(x)))


def b_getattr(it, o, name, *default):
    try:
        return it.getattr_(o, name)
    except Raised as r:
        if default and r.exc.cls is AttributeError:
            return default[0]
        raise


def b_hasattr(it, o, name):
    try:
        it.getattr_(o, name)
        return True
    except Raised as r:
        if r.exc.cls is AttributeError:
            return False
        raise


def b_repr(it, x):
    if is_concrete(x):
        return repr(x)
    raise Unsupported("repr of symbolic value")


def b_format(it, v, spec=''):
    return ops.format_value(it.ctx, v, spec)


def m_int_from_bytes(it, b, byteorder='big', *, signed=False):
    return ops.int_from_bytes(it.ctx, b, byteorder, signed)


def m_bytes_decode(it, b, encoding='utf-8', errors='strict'):
    if is_str(b) or b is None or is_intlike(b):
        raise_py(TypeError, "descriptor 'decode' for 'bytes' objects doesn't apply to a '%s' object" % ops.pytype_name(b))
    return ops.bytes_decode(it.ctx, b, encoding, errors)


def m_bytes_fromhex(it, s):
    return ops.bytes_fromhex(it.ctx, s)


def m_math_ceil(it, x):
    if isinstance(x, (int, float)):
        return math.ceil(x)
    if isinstance(x, TrueDiv):
        # ceil(a/b) for positive b: -((-a) // b); exact on mathematical integers
        a, b = zint(x.a), zint(x.b)
        if not it.ctx.decide(b > 0):
            raise Unsupported("math.ceil of a quotient with non-positive divisor")
        it.ctx.assumed_models.add("math.ceil(a/b) == -((-a)//b): float rounding ignored (validated for 1..256 in thorough)")
        return simp(-((-a) / b))
    if is_symint(x):
        return x
    raise Unsupported("math.ceil of %s" % type(x).__name__)


class TrueDiv:
    """a / b kept exact until math.ceil / floor consumes it"""

    def __init__(self, a, b):
        self.a, self.b = a, b


# ------------------------------------------------------------------ json (assumed contracts)
from .seq import Val as JsonSort, val_term, Chunk, list_term, seq_len


def json_term_of(it, v):
    """a Val term standing for a Python value (assumed: json.dumps is a function of the value)"""
    return val_term(v)


def m_json_dumps(it, v, *a, **kw):
    ctx = it.ctx
    if is_concrete(v) and is_concrete(kw):
        try:
            return json.dumps(v, *a, **kw)
        except Exception as e:
            raise Raised(ExcObj(type(e), e.args))
    ctx.assumed_models.add("json.dumps: function of the value (and indent); json.loads its inverse")
    ind = kw.get('indent')
    t = ufun('json_dumps_%s' % ('n' if ind is None else str(ind)), JsonSort, PyStr)(json_term_of(it, v))
    return DumpedStr([Opq(t)], v, ind)


class DumpedStr(SStr):
    """result of json.dumps: remembers the value so that json.loads(json.dumps(v)) is v"""
    __slots__ = ('value', 'indent')

    def __init__(self, segs, value, indent):
        SStr.__init__(self, segs)
        self.value = value
        self.indent = indent


def m_json_loads(it, s, *a, **kw):
    ctx = it.ctx
    if isinstance(s, str):
        try:
            return json.loads(s, *a, **kw)
        except json.JSONDecodeError as e:
            raise Raised(ExcObj(json.JSONDecodeError, (e.msg, e.doc, e.pos)))
        except Exception as e:
            raise Raised(ExcObj(type(e), e.args))
    if isinstance(s, DumpedStr):
        return s.value
    if isinstance(s, Choice):
        s = ops.resolve_choice(ctx, s)
        return m_json_loads(it, s)
    if s is None or is_intlike(s):
        raise_py(TypeError, "the JSON object must be str, bytes or bytearray, not %s" % ops.pytype_name(s))
    ctx.assumed_models.add("json.loads: function of the text; raises JSONDecodeError iff not json_valid(text)")
    if isinstance(s, SBytes):
        raise Unsupported("json.loads of bytes")
    t = str_term(s)
    if not ctx.decide(ufun('json_valid', PyStr, z3.BoolSort())(t)):
        raise Raised(ExcObj(json.JSONDecodeError, ("Expecting value", "", 0)))
    return OpaqueVal(ufun('json_loads', PyStr, JsonSort)(t), 'json')


from . import seq as _seq


def opaque_subscript(it, o, k):
    ctx = it.ctx
    if o.tag == 'json':
        if is_str(k):
            f = ufun('json_has', JsonSort, PyStr, z3.BoolSort())
            if not ctx.decide(ufun('json_is_dict', JsonSort, z3.BoolSort())(o.term)):
                raise_py(TypeError, "json value is not subscriptable by str")
            if not ctx.decide(f(o.term, str_term(k))):
                raise_py(KeyError, k)
            return OpaqueVal(ufun('json_get', JsonSort, PyStr, JsonSort)(o.term, str_term(k)), 'json')
    if o.tag == 'val' and is_str(k) and o.term.sort() == _seq.Val:
        # a decoded document (sort Val) used as a dict: key presence and the value under a key are functions of the document
        if not ctx.decide(_seq.v_has(o.term, str_term(k))):
            raise_py(KeyError, k)
        return OpaqueVal(_seq.v_get(o.term, str_term(k)), 'val')
    raise Unsupported("subscript of opaque %s" % o.tag)


# ------------------------------------------------------------------ regex (tiny literal subset)
def simple_regex(pattern):
    """parse ^?(atom{n}?)*$? where atom is a literal char or a [class]; returns (anch_start, atoms, anch_end)
    with atoms a list of (set-of-ranges, count) or None when unsupported"""
    p = pattern
    i = 0
    a0 = False
    if p.startswith('^'):
        a0 = True
        i = 1
    atoms = []
    a1 = False
    while i < len(p):
        c = p[i]
        if c == '$' and i == len(p) - 1:
            a1 = True
            i += 1
            break
        if c == '[':
            j = p.index(']', i + 1)
            body = p[i + 1:j]
            neg = body.startswith('^')
            if neg:
                return None
            ranges = []
            k = 0
            while k < len(body):
                if k + 2 < len(body) and body[k + 1] == '-':
                    ranges.append((ord(body[k]), ord(body[k + 2])))
                    k += 3
                else:
                    if body[k] == '\\':
                        return None
                    ranges.append((ord(body[k]), ord(body[k])))
                    k += 1
            i = j + 1
        elif c == '.':
            ranges = [(0, 9), (11, 0x10FFFF)]
            i += 1
        elif c in '*+?()|\\{}':
            return None
        else:
            ranges = [(ord(c), ord(c))]
            i += 1
        cnt = 1
        if i < len(p) and p[i] == '{':
            j = p.index('}', i)
            if not p[i + 1:j].isdigit():
                return None
            cnt = int(p[i + 1:j])
            i = j + 1
        elif i < len(p) and p[i] in '*+?':
            return None
        atoms.append((ranges, cnt))
    return a0, atoms, a1


def regex_match(it, pat, s, mode):
    """truthiness of pat.match / fullmatch / search on s for the literal subset"""
    ctx = it.ctx
    if isinstance(s, str):
        m = getattr(pat, mode)(s)
        return m
    if isinstance(pat, SymRegex):
        return symregex_match(it, pat, s, mode)
    if pat.flags & ~re.UNICODE & ~re.IGNORECASE:
        raise Unsupported("regex flags")
    parsed = simple_regex(pat.pattern)
    if parsed is None:
        if mode == 'fullmatch' and is_str(s) and any(isinstance(g, Opq) for g in segs_of(s)):
            return abstract_regex_match(it, pat, s, mode)
        raise Unsupported("regex %r outside the literal subset" % pat.pattern)
    a0, atoms, a1 = parsed
    if mode == 'search' and not a0:
        raise Unsupported("regex search without anchor")
    seq = []
    for ranges, cnt in atoms:
        seq.extend([ranges] * cnt)
    chars = ops.expand_str(ctx, s)
    full = (mode == 'fullmatch') or a1
    if len(chars) < len(seq) or (full and len(chars) != len(seq)):
        # '$' also matches before a trailing newline; with fixed expected width we require exact length
        if full and len(chars) == len(seq) + 1 and a1 and mode != 'fullmatch':
            raise Unsupported("regex '$' before trailing newline")
        return None
    cs = []
    for c, ranges in zip(chars, seq):
        alts = []
        rs = list(ranges)
        if pat.flags & re.IGNORECASE:
            for lo, hi in ranges:
                if hi - lo > 100:
                    continue
                for x in range(lo, hi + 1):
                    ch = chr(x)
                    if ch.isascii() and ch.isalpha():
                        y = ord(ch.swapcase())
                        rs.append((y, y))
                    elif not ch.isascii() and ch.lower() != ch.upper():
                        raise Unsupported("IGNORECASE with non-ASCII pattern letters")
            # non-ASCII text characters that case-fold to ASCII letters (e.g. U+017F, U+212A) are not modelled
            nonascii_ok = False
        for lo, hi in rs:
            alts.append(z3.And(zint(c) >= lo, zint(c) <= hi))
        cs.append(z3.Or(*alts) if len(alts) > 1 else alts[0])
    cond = simp(z3.And(*cs)) if cs else True
    if ctx.decide(cond):
        return MatchObj()
    return None


class SymRegex:
    """compiled regex of a symbolic pattern whose characters are hex digits or '.' (wildcard tables)"""

    def __init__(self, chars, flags):
        self.chars = chars
        self.flags = flags
        self.pattern = None


def m_re_compile(it, pattern, flags=0):
    ctx = it.ctx
    if isinstance(pattern, str) and isinstance(flags, int):
        try:
            return re.compile(pattern, flags)
        except re.error as e:
            raise Raised(ExcObj(re.error, e.args))
    chars = ops.expand_str(ctx, pattern)
    ok = z3.And(*[z3.Or(ops.is_hexdigit(c), zint(c) == 46) for c in chars]) if chars else True
    if not ctx.is_true(ok):
        raise Unsupported("re.compile of a symbolic pattern outside [0-9A-Fa-f.]*")
    ctx.assumed_models.add("re.compile(p, IGNORECASE).fullmatch(s) for p in [0-9A-Fa-f.]*: position-wise wildcard match "
                           "(assumed equal to CPython's re; cross-checked natively on the shipped tables)")
    return SymRegex(chars, flags)


def symregex_match(it, rx, s, mode):
    ctx = it.ctx
    if mode != 'fullmatch':
        raise Unsupported("symbolic regex %s" % mode)
    chars = ops.expand_str(ctx, s)
    if len(chars) != len(rx.chars):
        return None

    def low(x):
        x = zint(x)
        return z3.If(z3.And(x >= 65, x <= 90), x + 32, x)
    cs = []
    for p, c in zip(rx.chars, chars):
        if rx.flags & re.IGNORECASE:
            eq = low(p) == low(c)
        else:
            eq = zint(p) == zint(c)
        cs.append(z3.If(zint(p) == 46, zint(c) != 10, eq))
    cond = simp(z3.And(*cs)) if cs else True
    if ctx.decide(cond):
        return MatchObj()
    return None


class MatchObj:
    """a successful match of which only truthiness is used"""


def _digit_class(items):
    """set of code points of an IN item list when it is a class of ASCII digits only, else None"""
    import re._constants as C
    out = set()
    for op, av in items:
        if op is C.LITERAL:
            out.add(av)
        elif op is C.RANGE:
            out.update(range(av[0], av[1] + 1))
        else:
            return None
    if out and all(48 <= c <= 57 for c in out):
        return out
    return None


def regex_group_facts(pattern, flags):
    """{group number: (always_participates, kind, digit set)} from CPython's own parse tree of the pattern;
    kind is 'digit1' (exactly one character of a digit class), 'digits' (one or more characters of a digit class) or None"""
    import re._parser as P
    import re._constants as C
    facts = {}

    def walk(seq, top):
        for op, av in seq:
            if op is C.SUBPATTERN:
                g, _a, _d, sub = av
                sub = list(sub)
                kind, ds = None, None
                if len(sub) == 1 and sub[0][0] is C.IN:
                    ds = _digit_class(sub[0][1])
                    kind = 'digit1' if ds else None
                elif len(sub) == 1 and sub[0][0] in (C.MAX_REPEAT, C.MIN_REPEAT) and sub[0][1][0] >= 1:
                    inner = list(sub[0][1][2])
                    if len(inner) == 1 and inner[0][0] is C.IN:
                        ds = _digit_class(inner[0][1])
                        kind = 'digits' if ds else None
                if g is not None:
                    facts[g] = (top, kind, ds)
                walk(sub, top)
            elif op in (C.MAX_REPEAT, C.MIN_REPEAT, C.POSSESSIVE_REPEAT):
                walk(list(av[2]), top and av[0] >= 1)
            elif op is C.BRANCH:
                for alt in av[1]:
                    walk(list(alt), False)
            elif op in (C.ASSERT, C.ASSERT_NOT):
                walk(list(av[1]), False)
            elif op is C.GROUPREF_EXISTS:
                for alt in av[1:]:
                    if alt:
                        walk(list(alt), False)
            elif op is C.ATOMIC_GROUP:
                walk(list(av), top)
    walk(list(P.parse(pattern, flags)), True)
    return facts


def abstract_regex_match(it, pat, s, mode):
    """pattern outside the literal subset on opaque text: whether it matches is an uninterpreted predicate of
    (mode, pattern, flags, text); the groups of a match are uninterpreted functions of (pattern, flags, group, text)"""
    ctx = it.ctx
    ctx.assumed_models.add("re.fullmatch of a general pattern on opaque text: an uninterpreted predicate of (pattern, flags, text); "
                           "groups are uninterpreted functions of (pattern, flags, group number, text); a group whose sub-pattern is a "
                           "class of ASCII digits (once, or repeated at least once) is a decimal literal made of those digits")
    key = lit("%s/%d/%s" % (mode, pat.flags, pat.pattern))
    t = str_term(s)
    if ctx.decide(ufun('re_matches', PyStr, PyStr, z3.BoolSort())(key, t)):
        return AbsMatch(pat, s, key)
    return None


def regex_group_value(ctx, pat, key, s, g):
    """the text of group g of a successful abstract match (a string value), or None for a group that did not take part"""
    facts = regex_group_facts(pat.pattern, pat.flags)
    top, kind, ds = facts.get(g, (False, None, None))
    t = str_term(s)
    if not top:
        if not ctx.decide(ufun('re_group_present', PyStr, z3.IntSort(), PyStr, z3.BoolSort())(key, I(g), t)):
            return None
    if kind == 'digit1':
        c = ufun('re_group_char', PyStr, z3.IntSort(), PyStr, z3.IntSort())(key, I(g), t)
        ctx.assume(z3.Or(*[c == d for d in sorted(ds)]))
        return mkstr([c])
    gt = ufun('re_group', PyStr, z3.IntSort(), PyStr, PyStr)(key, I(g), t)
    if kind == 'digits':
        ctx.assume(ufun('int_literal_valid', PyStr, z3.IntSort(), z3.BoolSort())(gt, I(10)))
        ctx.assume(ufun('int_of_str', PyStr, z3.IntSort(), z3.IntSort())(gt, I(10)) >= 0)
        ctx.assume(ufun('strip_ws', PyStr, PyStr)(gt) == gt)       # digits only: nothing to strip
    return mkstr([Opq(gt)])


class AbsMatch:
    """a successful abstract match: truthy; groups() / group(k) give opaque texts"""

    def __init__(self, pat, s, key):
        self.pat = pat
        self.s = s
        self.key = key


def absmatch_method(it, m, name, args, kwargs):
    ctx = it.ctx
    if name == 'groups' and not args and not kwargs:
        return tuple(regex_group_value(ctx, m.pat, m.key, m.s, g) for g in range(1, m.pat.groups + 1))
    if name == 'group' and len(args) <= 1 and not kwargs:
        g = args[0] if args else 0
        if isinstance(g, int) and g == 0:
            return m.s
        if isinstance(g, int) and 1 <= g <= m.pat.groups:
            return regex_group_value(ctx, m.pat, m.key, m.s, g)
        if isinstance(g, int):
            raise_py(IndexError, "no such group")
    raise Unsupported("match.%s on an abstract match" % name)


# ------------------------------------------------------------------ dispatch tables
NATIVE_MODELS = {}


def _reg(fn, model):
    NATIVE_MODELS[fn] = model


_reg(len, b_len)
_reg(int, b_int)
_reg(str, b_str)
_reg(hex, b_hex)
_reg(chr, b_chr)
_reg(ord, b_ord)
_reg(range, b_range)
_reg(enumerate, b_enumerate)
_reg(list, b_list)
_reg(tuple, b_tuple)
_reg(dict, b_dict)
_reg(collections.OrderedDict, b_ordereddict)
_reg(bool, b_bool)
_reg(isinstance, b_isinstance)
_reg(memoryview, b_memoryview)
_reg(bytes, b_bytes)
_reg(bytearray, b_bytearray)
_reg(sorted, b_sorted)
_reg(min, b_min)
_reg(max, b_max)
_reg(abs, b_abs)
_reg(all, b_all)
_reg(any, b_any)
_reg(sum, b_sum)
_reg(zip, b_zip)
_reg(reversed, b_reversed)
_reg(getattr, b_getattr)
_reg(hasattr, b_hasattr)
_reg(repr, b_repr)
_reg(format, b_format)
_reg(print, model_print)
_reg(open, model_open)
_reg(sys.exit, model_exit)
_reg(builtins.exit, model_exit)
_reg(builtins.quit, model_exit)
_reg(importlib.import_module, model_import_module)
_reg(int.from_bytes, m_int_from_bytes)
_reg(bytes.fromhex, m_bytes_fromhex)
_reg(math.ceil, m_math_ceil)
_reg(re.compile, m_re_compile)
_reg(json.dumps, m_json_dumps)
_reg(json.loads, m_json_loads)
_reg(os.path.join, model_os_path_join)
_reg(os.path.basename, model_os_path_basename)
_reg(os.path.splitext, model_os_path_splitext)
_reg(os.path.dirname, model_os_path_dirname)
for _n in ('walk', 'listdir'):
    _reg(getattr(os, _n), model_os(_n))
for _n in ('isfile', 'isdir', 'exists'):
    _reg(getattr(os.path, _n), model_os('path_' + _n))
for _n in FS_MUTATORS:
    if hasattr(os, _n):
        _reg(getattr(os, _n), model_fs_mutator(_n))
try:
    import shutil
    for _n in ('rmtree', 'move', 'copy', 'copy2', 'copyfile', 'copytree'):
        _reg(getattr(shutil, _n), model_fs_mutator('shutil.' + _n))
except Exception:
    pass

# unbound method descriptors: bytes.decode(x), str.upper(x) ...
DESCRIPTOR_MODELS = {
    bytes.decode: m_bytes_decode,
}

PURE_MODULES = ('builtins', 'math', 're', 'json', 'collections', '_collections', 'enum', 'operator', 'functools',
                'itertools', '_functools', 'string', 'binascii', 'struct', '_struct', 'json.decoder', 'json.encoder',
                'typing', 'abc', 'copy', 'textwrap', 'datetime')
EFFECTFUL_BUILTINS = {'print', 'open', 'exit', 'quit', 'input', 'exec', 'eval', '__import__', 'compile', 'breakpoint',
                      'globals', 'locals', 'vars', 'setattr', 'delattr'}


def call_native(it, fn, args, kwargs):
    ctx = it.ctx
    try:
        model = NATIVE_MODELS.get(fn)
    except TypeError:
        model = None
    if model is None:
        try:
            model = DESCRIPTOR_MODELS.get(fn)
        except TypeError:
            model = None
    if model is not None:
        return model(it, *args, **kwargs)
    import functools as _ft
    if isinstance(fn, _ft._lru_cache_wrapper) and getattr(fn, '__wrapped__', None) is not None:
        # a memoised repository function: the first call computes, later calls with equal arguments return the remembered
        # result.  Transparent for a function of its arguments alone; if the body consults the environment (files, imports,
        # plugins) a later call can return a result that no longer matches the environment: history-dependent output.
        before = (len(ctx.fs), len(ctx.imports), len(ctx.plugin_calls))
        try:
            return it.call(fn.__wrapped__, args, kwargs)
        finally:
            if (len(ctx.fs), len(ctx.imports), len(ctx.plugin_calls)) != before:
                ctx.fail("frame.shared_state", "memoised function %s.%s reads the environment: its remembered result is returned "
                         "even after the environment has changed" % (getattr(fn, '__module__', ''), getattr(fn, '__name__', '')),
                         kind='frame')
    # unbound method descriptor of a built-in type applied to a value: str.upper(s)
    if isinstance(fn, (types.MethodDescriptorType, types.WrapperDescriptorType)) and args:
        return call_method(it, args[0], fn.__name__, args[1:], kwargs)
    if isinstance(fn, types.BuiltinMethodType) and getattr(fn, '__self__', None) is not None \
            and not isinstance(fn.__self__, types.ModuleType):
        return call_method(it, fn.__self__, fn.__name__, args, kwargs)
    mod = getattr(fn, '__module__', None) or ''
    name = getattr(fn, '__name__', '')
    if isinstance(fn, type):
        mod = fn.__module__
    effectful = (mod.split('.')[0] not in PURE_MODULES and not isinstance(fn, type)) or \
        (mod == 'builtins' and name in EFFECTFUL_BUILTINS)
    if isinstance(fn, type) and issubclass(fn, BaseException):
        return ExcObj(fn, tuple(args))
    if effectful:
        raise Unsupported("call to %s.%s has no model" % (mod, name))
    if is_concrete(args) and is_concrete(kwargs):
        try:
            return fn(*args, **kwargs)
        except Exception as e:
            raise Raised(ExcObj(type(e), e.args))
    # namedtuple-like native classes only store their arguments
    if isinstance(fn, type) and issubclass(fn, tuple) and hasattr(fn, '_fields'):
        return fn(*args, **kwargs)
    raise Unsupported("native call %s.%s with symbolic arguments" % (mod, name))


def call_opaque(it, fn, args, kwargs):
    ctx = it.ctx
    env = getattr(ctx, 'env', None)
    if env is not None and hasattr(env, 'call_opaque'):
        return env.call_opaque(it, fn, args, kwargs)
    raise Unsupported("call of opaque value %s" % fn.tag)


# ------------------------------------------------------------------ methods of built-in types
def call_method(it, v, name, args, kwargs):
    ctx = it.ctx
    if isinstance(v, Choice):
        if name in ('upper', 'lower', 'strip', 'rstrip', 'lstrip') and all(isinstance(x, str) for _, x in v.alts) \
                and is_concrete(args):
            return v.map(lambda s: getattr(s, name)(*args))
        v = ops.resolve_choice(ctx, v)
    if isinstance(v, Handle):
        return handle_method(it, v, name, args, kwargs)
    if isinstance(v, ArgParserStub):
        return argparser_method(it, v, name, args, kwargs)
    if isinstance(v, OpaqueVal):
        env = getattr(ctx, 'env', None)
        if env is not None and hasattr(env, 'opaque_method') and v.tag != 'val':
            return env.opaque_method(it, v, name, args, kwargs)
        if v.tag == 'val' and v.term.sort() == _seq.Val and not kwargs and name == 'get' and 1 <= len(args) <= 2 and is_str(args[0]):
            # dict.get on a decoded document: the value under the key if the document has it, else the default
            ctx.assumed_models.add("values of an opaque document (registry entry, decoded JSON): key presence and the value under a key are "
                                   "functions of the document (v_has / v_get); d.get(k, default) and == with a string or integer are stated over them")
            if ctx.decide(_seq.v_has(v.term, str_term(args[0]))):
                return OpaqueVal(_seq.v_get(v.term, str_term(args[0])), 'val')
            return args[1] if len(args) == 2 else None
        if v.tag == 'val' and v.term.sort() == _seq.Val and not kwargs and name in ('strip', 'rstrip', 'lstrip', 'upper', 'lower',
                                                                                  'title', 'replace', 'zfill', 'ljust', 'rjust'):
            # a text method applied to a value taken out of a decoded document: a function of (value, method, arguments)
            ctx.assumed_models.add("str methods on a value of a decoded document: function of (value, method name, arguments)")
            t = ufun('v_method', _seq.Val, PyStr, _seq.Val, _seq.Val)(v.term, ops.lit(name) if hasattr(ops, 'lit') else str_term(name),
                                                                     _seq.list_term(list(args)))
            return OpaqueVal(t, 'val')
        raise Unsupported("method %s of opaque %s" % (name, v.tag))
    if is_str(v):
        return str_method(it, v, name, args, kwargs)
    if isinstance(v, (SBytes, bytes, bytearray, memoryview)):
        return bytes_method(it, v, name, args, kwargs)
    if isinstance(v, list):
        return list_method(it, v, name, args, kwargs)
    if isinstance(v, dict):
        return dict_method(it, v, name, args, kwargs)
    if isinstance(v, SymDict):
        if name == 'get':
            return v.get(it, *args)
        raise Unsupported("SymDict.%s" % name)
    if isinstance(v, LazySeq):
        if name == 'append':
            it.note_write(v, None, "list.append")
            v.tail.append(args[0])
            return None
        raise Unsupported("list.%s on a symbolic-length list" % name)
    if is_intlike(v):
        if name == 'to_bytes':
            return int_to_bytes(it, v, *args, **kwargs)
        if name == 'bit_length' and isinstance(v, int):
            return v.bit_length()
        raise Unsupported("int.%s" % name)
    if isinstance(v, AbsMatch):
        return absmatch_method(it, v, name, args, kwargs)
    if isinstance(v, (re.Pattern, SymRegex)):
        if name in ('match', 'fullmatch', 'search'):
            return regex_match(it, v, args[0], name)
        if is_concrete(args):
            return getattr(v, name)(*args, **kwargs)
        raise Unsupported("regex method %s on symbolic text" % name)
    if isinstance(v, tuple):
        if is_concrete(args):
            try:
                return getattr(v, name)(*args, **kwargs)
            except Exception as e:
                raise Raised(ExcObj(type(e), e.args))
    from .interp import class_info_of
    ci = class_info_of(type(v))
    if ci is not None:
        m = ci.find_method(name)
        if m is not None:
            # native instance of a repository class (module-level object): interpret its method
            return it.call_function(m, [v] + list(args), kwargs)
    if is_concrete(v) and is_concrete(args) and is_concrete(kwargs):
        mod = type(v).__module__.split('.')[0]
        if mod in PURE_MODULES or isinstance(v, (re.Match,)):
            try:
                return getattr(v, name)(*args, **kwargs)
            except Exception as e:
                raise Raised(ExcObj(type(e), e.args))
    raise Unsupported("method %s.%s" % (type(v).__name__, name))


def int_to_bytes(it, v, length=1, byteorder='big', *, signed=False):
    ctx = it.ctx
    if isinstance(v, int):
        try:
            return v.to_bytes(length, byteorder, signed=signed)
        except Exception as e:
            raise Raised(ExcObj(type(e), e.args))
    if not isinstance(length, int) or byteorder not in ('big', 'little') or signed:
        raise Unsupported("to_bytes variant")
    if not ctx.decide(z3.And(v >= 0, v < 256 ** length)):
        raise_py(OverflowError, "int too big to convert")
    arr = z3.K(z3.IntSort(), I(0))
    for i in range(length):
        w = (length - 1 - i) if byteorder == 'big' else i
        arr = z3.Store(arr, I(i), simp((zint(v) / I(256 ** w)) % 256))
    return SBytes(arr, 0, length, 'bytes')


def str_method(it, s, name, args, kwargs):
    ctx = it.ctx
    if isinstance(s, str) and is_concrete(args) and is_concrete(kwargs) and name != 'format':
        try:
            return getattr(s, name)(*args, **kwargs)
        except Exception as e:
            raise Raised(ExcObj(type(e), e.args))
    if name == 'format':
        return str_format(it, s, args, kwargs)
    if name == 'upper':
        return ops.str_map_case(ctx, s, True)
    if name == 'lower':
        return ops.str_map_case(ctx, s, False)
    if name in ('strip', 'lstrip', 'rstrip'):
        chars = args[0] if args else None
        return ops.str_strip(ctx, s, chars, {'strip': 'b', 'lstrip': 'l', 'rstrip': 'r'}[name])
    if name == 'startswith':
        return ops.str_startswith(ctx, s, args[0])
    if name == 'endswith':
        return ops.str_startswith(ctx, s, args[0], ends=True)
    if name == 'join':
        if isinstance(args[0], list) and any(isinstance(e, Chunk) for e in args[0]):
            ctx.assumed_models.add("str.join over a symbolic-length list: function of (separator, list)")
            return mkstr([Opq(ufun('str_join', PyStr, JsonSort, PyStr)(str_term(s), list_term(args[0])))])
        return ops.str_join(ctx, s, it.iterate(args[0]))
    if name == 'ljust':
        return ops.str_ljust(ctx, s, *args)
    if name == 'rjust':
        return ops.str_ljust(ctx, s, *args, right=True)
    if name == 'zfill':
        return ops.str_ljust(ctx, s, args[0], '0', right=True)
    if name == 'encode':
        chars = None
        try:
            chars = ops.expand_str(ctx, s)
        except Unsupported:
            pass
        if chars is not None:
            ok = z3.And(*[zint(c) < 128 for c in chars]) if chars else True
            if ctx.decide(ok):
                arr = z3.K(z3.IntSort(), I(0))
                for i, c in enumerate(chars):
                    arr = z3.Store(arr, I(i), zint(c))
                return SBytes(arr, 0, len(chars), 'bytes')
        ctx.assumed_models.add("str.encode on non-ASCII/opaque text: function of the text")
        t = str_term(s)
        ln = ufun('enc_len', PyStr, z3.IntSort())(t)
        ctx.assume(ln >= 0)
        return SBytes(ufun('enc_arr', PyStr, ByteArr)(t), 0, ln, 'bytes')
    if name in ('index', 'find', 'rindex', 'rfind'):
        raise Unsupported("str.%s on symbolic text" % name)
    if name == 'split':
        raise Unsupported("str.split on symbolic text")
    if name == 'replace':
        if is_concrete(args) and len(args) == 2 and len(args[0]) == 1 and len(args[1]) == 1 and \
                isinstance(s, SStr) and s.all_chars():
            old, new = ord(args[0]), ord(args[1])
            return mkstr([new if c == old else c if isinstance(c, int) else simp(z3.If(c == old, I(new), c))
                          for c in s.segs])
        if is_concrete(args):
            ctx.assumed_models.add("str.replace on symbolic text: function of (text, old, new)")
            f = ufun('replace_%s_%s' % tuple('_'.join('%02x' % ord(c) for c in a) for a in args[:2]), PyStr, PyStr)
            return mkstr([Opq(f(str_term(s)))])
        raise Unsupported("str.replace with symbolic arguments")
    if name in ('isdecimal', 'isdigit'):
        chars = ops.expand_str(ctx, s)
        if not chars:
            return False
        return simp(z3.And(*[z3.And(zint(c) >= 48, zint(c) <= 57) for c in chars]))
    raise Unsupported("str.%s on symbolic text" % name)


def str_format(it, s, args, kwargs):
    ctx = it.ctx
    if not isinstance(s, str):
        return ops.opaque_format(ctx, 'fmt', s, list(args) + [kwargs[k] for k in sorted(kwargs)])
    if is_concrete(args) and is_concrete(kwargs):
        try:
            return s.format(*args, **kwargs)
        except Exception as e:
            raise Raised(ExcObj(type(e), e.args))
    import string
    out = []
    auto = 0
    try:
        parsed = list(string.Formatter().parse(s))
    except ValueError as e:
        raise Raised(ExcObj(ValueError, e.args))
    for literal, field, spec, conv in parsed:
        out.append(literal)
        if field is None:
            continue
        if conv not in (None, 's'):
            raise Unsupported("format conversion")
        if field == '':
            if auto >= len(args):
                raise_py(IndexError, "Replacement index %d out of range for positional args tuple" % auto)
            v = args[auto]
            auto += 1
        elif field.isdigit():
            if int(field) >= len(args):
                raise_py(IndexError, "Replacement index out of range")
            v = args[int(field)]
        elif field in kwargs:
            v = kwargs[field]
        else:
            raise Unsupported("format field %r" % field)
        if spec and '{' in spec:
            raise Unsupported("nested format spec")
        out.append(ops.format_value(ctx, v, spec or ''))
    return mkstr(out)


def bytes_method(it, b, name, args, kwargs):
    ctx = it.ctx
    if not isinstance(b, SBytes) and is_concrete(args) and name not in ('extend', 'append'):
        try:
            return getattr(b, name)(*args, **kwargs)
        except Exception as e:
            raise Raised(ExcObj(type(e), e.args))
    if name == 'hex':
        return ops.bytes_hex(ctx, b)
    if name == 'decode':
        return ops.bytes_decode(ctx, b, *args, **kwargs)
    if name == 'tobytes':
        b = ops.as_sbytes(b)
        return SBytes(b.arr, b.off, b.ln, 'bytes', b.root)
    if name in ('extend', 'append'):
        if not isinstance(b, SBytes) or b.kind != 'bytearray':
            raise Unsupported("%s on %s" % (name, type(b).__name__))
        it.note_write(b, None, "bytearray")
        if name == 'append':
            vals = [args[0]]
        else:
            src = args[0]
            if isinstance(src, SBytes):
                if not isinstance(src.ln, int):
                    raise Unsupported("extend by symbolic-length bytes")
                vals = [src.at(i) for i in range(src.ln)]
            else:
                vals = list(it.iterate(src))
        for v in vals:
            b.arr = z3.Store(b.arr, zint(b.off) + zint(b.ln), zint(v))
            b.ln = simp(zint(b.ln) + 1)
        return None
    if name == 'find':
        env = getattr(ctx, 'env', None)
        return bytes_find(it, ops.as_sbytes(b), args[0])
    if name in ('rstrip', 'strip', 'lstrip'):
        b = ops.as_sbytes(b)
        ctx.assumed_models.add("bytes.rstrip on symbolic bytes: result is a prefix view with a fresh length")
        if name != 'rstrip':
            raise Unsupported("bytes.%s" % name)
        chars = bytes(args[0]) if args else b' \t\n\r\x0b\x0c'
        if args and isinstance(args[0], SBytes):
            raise Unsupported("bytes.rstrip with symbolic characters")
        n = bytes_rstrip_len(ctx, b, chars)
        return SBytes(b.arr, b.off, n, 'bytes', b.root)
    raise Unsupported("bytes.%s on symbolic bytes" % name)


def rstrip_len_term(b, chars):
    from .values import lit
    return ufun('bytes_rstrip_len', b.arr.sort(), z3.IntSort(), z3.IntSort(), PyStr, z3.IntSort())(b.arr, zint(b.off), zint(b.ln),
                                                                                                   lit(bytes(chars).hex()))


def bytes_rstrip_len(ctx, b, chars):
    """length of b.rstrip(chars): the function of the bytes characterised by - within the length, the last kept byte is not
    strippable, every dropped byte is (quantified); stated as assumptions on a function symbol of (bytes, chars)"""
    n = rstrip_len_term(b, chars)

    def strippable(x):
        return z3.Or(*[x == c for c in sorted(set(chars))]) if chars else z3.BoolVal(False)
    q = z3.Int('q!rstrip')
    ctx.assume(z3.And(n >= 0, n <= zint(b.ln), z3.Or(n == 0, z3.Not(strippable(b.at(n - 1)))),
                      z3.ForAll([q], z3.Implies(z3.And(q >= n, q < zint(b.ln)), strippable(b.at(q))))))
    return n


def bytes_find(it, b, pat):
    """bytes.find(pattern): least r with data[r:r+k] == pattern, else -1 (exact, quantified)"""
    ctx = it.ctx
    if isinstance(pat, SBytes):
        raise Unsupported("bytes.find with symbolic pattern")
    pat = bytes(pat)
    k = len(pat)
    r = ctx.fresh('find', 'int')
    n = zint(b.ln)

    def match_at(p):
        return z3.And(*[b.at(p + j) == pat[j] for j in range(k)]) if k else z3.BoolVal(True)
    if getattr(ctx, 'find_minimality', False):
        ctx.assumed_models.add("bytes.find(p): the least offset r with data[r:r+len(p)] == p inside the data, -1 iff there is none "
                               "(quantified; assumed equal to CPython's bytes.find, cross-checked by the bounded companion)")
        q = z3.Int('q!find!%d' % ctx.n_fresh)
        none_before = z3.ForAll([q], z3.Implies(z3.And(q >= 0, q < r, q + k <= n), z3.Not(match_at(q))))
        none_at_all = z3.ForAll([q], z3.Implies(z3.And(q >= 0, q + k <= n), z3.Not(match_at(q))))
        ctx.assume(z3.Or(z3.And(r == -1, none_at_all),
                         z3.And(r >= 0, r + k <= n, match_at(r), none_before)))
    else:
        # quantifier-free part of the contract: -1, or an occurrence inside the data (minimality of the occurrence
        # and absence when -1 are not needed by the callers' obligations and are left to the bounded companion)
        ctx.assumed_models.add("bytes.find(p): -1 or an offset r with data[r:r+len(p)] == p inside the data "
                               "(least such r: not used in the proof, checked by the bounded companion)")
        ctx.assume(z3.Or(r == -1, z3.And(r >= 0, r + k <= n, match_at(r))))
    ctx.finds = getattr(ctx, 'finds', []) + [(b, pat, r)]
    fs = getattr(ctx, 'find_shard', None)
    if fs is not None and len(ctx.finds) <= len(fs):
        # a shard of the unit covers the inputs on which this search has the given outcome (the shards together cover both)
        ctx.assume((r == -1) if fs[len(ctx.finds) - 1] else (r != -1))
    return r


def list_method(it, l, name, args, kwargs):
    ctx = it.ctx
    if name in ('append', 'extend', 'insert', 'pop', 'remove', 'clear', 'sort', 'reverse'):
        it.note_write(l, None, "list.%s" % name)
    if name == 'append':
        l.append(args[0])
        return None
    if name == 'extend':
        l.extend(it.iterate(args[0]))
        return None
    if name == 'sort' and any(isinstance(e, Chunk) for e in l):
        rev = kwargs.get('reverse', False)
        if kwargs.get('key') is not None:
            raise Unsupported("sort with key")
        ctx.assumed_models.add("list.sort(reverse=r) of a symbolic-length list: the list becomes spec_sorted(list, r) "
                               "(a sorted rearrangement; with distinct names reverse=True is the exact reverse)")
        t = ufun('spec_sorted', JsonSort, z3.BoolSort(), JsonSort)(list_term(l), zbool(rev) if not isinstance(rev, bool) else z3.BoolVal(rev))
        l[:] = [Chunk(t)]
        return None
    if name == 'sort':
        rev = kwargs.get('reverse', False)
        if kwargs.get('key') is not None:
            raise Unsupported("sort with key")
        if is_concrete(l) and isinstance(rev, bool):
            try:
                l.sort(reverse=rev)
            except Exception as e:
                raise Raised(ExcObj(type(e), e.args))
            return None
        new = sort_symbolic(it, list(l), rev)
        l[:] = new
        return None
    if name == 'index':
        for k, x in enumerate(l):
            if truthy(ctx, ops.compare(ctx, 'Eq', x, args[0])):
                return k
        raise_py(ValueError, "value is not in list")
    if name in ('insert', 'pop', 'reverse', 'clear', 'count', 'copy'):
        if is_concrete(args):
            try:
                return getattr(l, name)(*args)
            except Exception as e:
                raise Raised(ExcObj(type(e), e.args))
    raise Unsupported("list.%s" % name)


def dict_method(it, d, name, args, kwargs):
    ctx = it.ctx
    if name == 'get':
        k = args[0]
        default = args[1] if len(args) > 1 else None
        if isinstance(k, Choice):
            k = ops.resolve_choice(ctx, k)
        if is_concrete(k):
            try:
                return d.get(k, default)
            except TypeError as e:
                raise Raised(ExcObj(TypeError, e.args))
        alts = []
        for key, v in d.items():
            e = val_eq(key, k)
            if e is True:
                return v
            if e is not False:
                alts.append((e, v))
        if not alts:
            return default
        rest = simp(z3.And(*[z3.Not(zbool(c)) for c, _ in alts]))
        return Choice(alts + [(rest, default)])
    if name in ('keys', 'values', 'items'):
        return list(getattr(d, name)())
    if name == 'update':
        it.note_write(d, None, "dict.update")
        if args:
            a = args[0]
            if isinstance(a, OpaqueVal):
                env = getattr(ctx, 'env', None)
                if hasattr(d, 'opaque_update'):
                    return d.opaque_update(it, a)
                d['__opaque_update__%d' % len(d)] = a
                return None
            if isinstance(a, dict):
                for k, v in a.items():
                    d[k] = v
            else:
                for k, v in it.iterate(a):
                    d[k] = v
        for k, v in kwargs.items():
            d[k] = v
        return None
    if name in ('pop', 'setdefault', 'clear', 'copy', 'popitem', 'move_to_end'):
        if name != 'copy':
            it.note_write(d, None, "dict.%s" % name)
        if is_concrete(args[:1]):
            try:
                return getattr(d, name)(*args)
            except Exception as e:
                raise Raised(ExcObj(type(e), e.args))
    raise Unsupported("dict.%s" % name)


def handle_method(it, h, name, args, kwargs):
    ctx = it.ctx
    if name == 'read':
        io_may_fail(it, 'read', h.path)
        if args and args[0] is not None and not (isinstance(args[0], int) and args[0] < 0) and isinstance(h.content, SBytes):
            # read(n): at most n bytes
            n = zint(args[0])
            ln = zint(h.content.ln)
            return SBytes(h.content.arr, h.content.off, simp(z3.If(n < ln, n, ln)), h.content.kind, h.content.root)
        if args and args[0] is not None and not isinstance(h.content, SBytes):
            raise Unsupported("read(n) on a text handle")
        return h.content
    if name == 'readlines':
        io_may_fail(it, 'read', h.path)
        return h.content
    if name in ('write', 'writelines'):
        ctx.emit('fs', ('write', h.path, args[0]))
        io_may_fail(it, 'write', h.path)
        ctx.emit('fs', ('write_ok', h.path, args[0]))
        return None
    if name == 'close':
        return ctx_exit(it, h, None)
    if name == 'flush':
        io_may_fail(it, 'flush', h.path)
        return None
    raise Unsupported("file.%s" % name)


def as_indexable(it, x):
    """(start, stop, elem(i)) view of an iterable for invariant-cut for-loops"""
    if isinstance(x, (SymRange, range)):
        if x.step == 1:
            return x.start, x.stop, (lambda i: i)
        if isinstance(x.step, int) and x.step > 1:
            # iteration number t = 0..count-1, loop variable = start + step*t, count = ceil((stop-start)/step)
            st, sp, step = zint(x.start), zint(x.stop), x.step
            cnt = simp(z3.If(sp > st, (sp - st + (step - 1)) / step, I(0)))
            return 0, cnt, (lambda t: simp(st + step * zint(t)))
        raise Unsupported("invariant over range with symbolic/negative step")
    if isinstance(x, LazySeq):
        return 0, x.length, x.elem
    if isinstance(x, list) and len(x) == 1 and isinstance(x[0], Chunk):
        from .seq import seq_str_at
        t = x[0].term
        n = x[0].length if x[0].length is not None else seq_len(t)
        it.ctx.assume(zint(n) >= 0)
        return 0, n, (lambda j: mkstr([Opq(seq_str_at(t, j))]))
    if isinstance(x, SStr):
        # characters of a string of symbolic length: code point j is an uninterpreted function of (text, j)
        t = str_term(x)
        n = ops.str_len(it.ctx, x)
        it.ctx.assume(zint(n) >= 0)
        cp = ufun('str_cp_at', PyStr, z3.IntSort(), z3.IntSort())

        def elem(j):
            c = cp(t, zint(j))
            it.ctx.assume(z3.And(c >= 0, c <= 0x10FFFF))
            return mkstr([c])
        return 0, n, elem
    raise Unsupported("invariant-cut loop over %s" % type(x).__name__)


# ------------------------------------------------------------------ argparse (assumed): parser construction is a no-op,
# parse_args() returns whatever namespace the environment supplies (arbitrary values of the declared options)
class ArgParserStub:
    def __init__(self, *a, **kw):
        pass


def m_argument_parser(it, *a, **kw):
    return ArgParserStub()


def argparser_method(it, v, name, args, kwargs):
    if name in ('add_argument', 'set_defaults', 'add_mutually_exclusive_group'):
        return None if name != 'add_mutually_exclusive_group' else v
    if name == 'add_argument_group':
        return v
    if name == 'parse_args':
        env = getattr(it.ctx, 'env', None)
        if env is None or not hasattr(env, 'parse_args'):
            raise Unsupported("parse_args without an environment model")
        return env.parse_args(it)
    if name == 'error':
        raise Raised(ExcObj(SystemExit, (2,)))
    raise Unsupported("ArgumentParser.%s" % name)


import argparse as _argparse
_reg(_argparse.ArgumentParser, m_argument_parser)
