"""regenerate DESIGN.md section 12 (seeded changes x checks, harmless refactorings) from seeded/results.json and
seeded/harmless/results.json.   python3 tools/design_table.py"""
import json, os, re
V = '/verif'
res = json.load(open(V + '/seeded/results.json'))
lines = ["## 12. Which check catches which seeded change", "",
         "`own` = the quick check of the property the change was written against; exit 1 = reported as VIOLATION. "
         "`replayed` = at least one VIOLATION line carries a failing input reproduced on the real code "
         "(otherwise every line ends `no-failing-input-found`).", "",
         "| change | property | what it breaks | own check | replayed | also run / caught by |", "|---|---|---|---|---|---|"]
n_own = n_all = 0
for mid in sorted(res):
    r = res[mid]
    meta = json.load(open(V + '/seeded/%s/meta.json' % mid))
    own = r.get('own')
    if own is None:
        lines.append("| %s | ? | %s | error | | |" % (mid, r.get('error')))
        continue
    oc = r['checks'][own]
    ex = oc['exit']
    replayed = any(l.startswith('VIOLATION') and 'no-failing-input-found' not in l for l in oc['lines'])
    others = [k for k in r['caught_by'] if k != own]
    n_all += 1
    n_own += ex == 1
    what = meta.get('breaks', '')
    what = (what[:150] + '…') if len(what) > 150 else what
    note = meta.get('note_after_fixes', '')
    lines.append("| %s | %s | %s | %s | %s | %s |" % (
        mid, own, what.replace('|', '/').replace('\n', ' '),
        {0: 'pass (exit 0)', 1: '**VIOLATION**', 2: 'undecided (exit 2)', 3: 'checker error'}.get(ex, ex),
        'yes' if replayed else ('' if ex != 1 else 'no'), (', '.join(others) if others else '') + ((' ' + note) if note else '')))
lines += ["", "%d of %d seeded changes are reported by the check of their own property." % (n_own, n_all), ""]
hp = V + '/seeded/harmless/results.json'
if os.path.exists(hp):
    h = json.load(open(hp))
    lines += ["### Behaviour-preserving refactorings (must never be reported)", "",
              "| patch | checks run → exit |", "|---|---|"]
    bad = 0
    for f in sorted(h):
        if 'error' in h[f]:
            lines.append("| %s | %s |" % (f, h[f]['error']))
            continue
        lines.append("| %s | %s |" % (f, ', '.join("%s→%d" % (k, v['exit']) for k, v in h[f].items())))
        bad += sum(v['exit'] == 1 for v in h[f].values())
    lines += ["", "exit 0 = every obligation re-proved on the refactored code; exit 2 = undecided (the refactoring left the "
              "supported subset or a proof needs its contract updated) - never a VIOLATION. VIOLATION lines over all runs: %d." % bad, ""]
text = '\n'.join(lines)
p = V + '/DESIGN.md'
s = open(p).read()
m = re.search(r'^## 12\. .*', s, re.M | re.S)
s = (s[:m.start()] if m else s.rstrip('\n') + '\n\n') + text
open(p, 'w').write(s)
print("section 12 written: %d rows" % n_all)
