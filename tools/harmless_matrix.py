"""semantics-preserving refactors must never raise a VIOLATION: run the relevant quick checks on scratch copies
   -> /verif/seeded/harmless/results.json"""
import json, os, shutil, subprocess, sys, tempfile, time
VERIF = '/verif'
MAP = {'h1': ['C14', 'C17'], 'h2': ['C13', 'C16', 'C15', 'C04'], 'h3': ['C05', 'C02', 'C01'], 'h4': ['C02', 'C07'],
       'h5': ['C02', 'C01', 'C10'], 'h6': ['C07'], 'h7': ['C15'], 'h8': ['C03', 'C18'], 'h9': ['C08', 'C09'], 'h10': ['C01', 'C04'],
       'h11': ['C04'], 'h12': ['C20'], 'h13': ['C11', 'C12', 'C07'],
       'h20': ['C05', 'C02'], 'h21': ['C13', 'C04', 'C16'], 'h22': ['C13', 'C17'], 'h23': ['C01'], 'h24': ['C01'], 'h25': ['C07', 'C08'],
       'h26': ['C01', 'C05', 'C06'], 'h27': ['C12', 'C11'], 'h28': ['C11'], 'h29': ['C10', 'C09'], 'h30': ['C03'], 'h31': ['C04'],
       'h32': ['C17'], 'h33': ['C20'],
       'h40': ['C03', 'C05'], 'h41': ['C03'], 'h42': ['C03'], 'h43': ['C18', 'C04'], 'h44': ['C04', 'C18'], 'h45': ['C02', 'C10'], 'h46': ['C08', 'C09'],
       'h47': ['C09', 'C06'], 'h48': ['C11'], 'h49': ['C08', 'C09'], 'h50': ['C14'], 'h51': ['C15'], 'h52': ['C15'], 'h53': ['C16'],
       'h60': ['C16'], 'h61': ['C14'], 'h62': ['C15'], 'h63': ['C14'], 'h64': ['C03']}
out_path = VERIF + '/seeded/harmless/results.json'
results = {}
only = sys.argv[1:]
results = json.load(open(out_path)) if only and os.path.exists(out_path) else {}
for f in sorted(os.listdir(VERIF + '/seeded/harmless')):
    if not f.endswith('.diff') or (only and f.split('_')[0] not in only):
        continue
    key = f.split('_')[0]
    scratch = tempfile.mkdtemp(prefix='pyvc_harm_')
    try:
        shutil.copytree('/repo/modules', scratch + '/modules', ignore=shutil.ignore_patterns('__pycache__', '*.egg-info'))
        p = subprocess.run(['patch', '-p1', '-s', '-i', VERIF + '/seeded/harmless/' + f], cwd=scratch, capture_output=True, text=True)
        if p.returncode != 0:
            results[f] = dict(error='patch failed')
            continue
        res = {}
        for prop in MAP[key]:
            env = dict(os.environ, PYVC_REPO=scratch, PYVC_OUT=scratch + '/out', PYVC_BUDGET_S='300', PYVC_BOUNDED_SECS='30')
            t = time.time()
            r = subprocess.run(['python3-vt', '-m', 'pyvc.check', prop], cwd=VERIF, env=env, capture_output=True, text=True, timeout=3000)
            lines = [l[:260] for l in r.stdout.splitlines() if l.startswith(('VIOLATION', 'UNDECIDED', 'UNKNOWN', 'CHECKER'))]
            res[prop] = dict(exit=r.returncode, secs=round(time.time() - t, 1), lines=lines[:4])
        results[f] = res
        print(f, {k: v['exit'] for k, v in res.items()}, flush=True)
    finally:
        shutil.rmtree(scratch, ignore_errors=True)
    json.dump(results, open(out_path, 'w'), indent=1)
