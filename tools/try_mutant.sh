#!/bin/bash
# tools/try_mutant.sh <patch.diff> <prop> [more props]: apply to /repo, run quick checks, revert
P=$1; shift
cd /repo && git apply "$P" || { echo "APPLY-FAIL $P"; exit 9; }
cd /verif
for prop in "$@"; do
  timeout 900 python3-vt -m pyvc.check $prop 2>&1 | grep -E "VIOLATION|KNOWN|UNDECIDED|UNKNOWN|CHECKER|exit=" | cut -c1-260
done
cd /repo && git checkout -- . && git status --short | head -3
