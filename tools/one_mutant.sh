#!/bin/bash
# tools/one_mutant.sh <seeded id> <prop> [props...] : run checks on a scratch copy with the seeded patch applied
ID=$1; shift
S=$(mktemp -d /tmp/pyvc_one_XXXX)
cp -r /repo/modules $S/modules
(cd $S && patch -p1 -s -i /verif/seeded/$ID/patch.diff) || { echo "PATCH-FAIL"; rm -rf $S; exit 9; }
cd /verif
for prop in "$@"; do
  PYVC_REPO=$S PYVC_OUT=$S/out PYVC_BUDGET_S=200 PYVC_BOUNDED_SECS=30 timeout 1500 python3-vt -m pyvc.check $prop 2>&1 | grep -E "VIOLATION|UNDECIDED|UNKNOWN|CHECKER|CRASH|exit=" | cut -c1-240 | head -6
done
rm -rf $S
