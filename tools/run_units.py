"""debug helper: python3-vt tools/run_units.py contracts.headers [UnitName ...]"""
import sys, time, importlib
sys.path.insert(0, '/verif')
from pyvc.unit import run_unit_symbolic
mod = importlib.import_module(sys.argv[1])
names = sys.argv[2:]
units = [getattr(mod, n) for n in names] if names else mod.UNITS
import os
for U in units:
  for sh in range(getattr(U, 'shards', 1) if isinstance(getattr(U, 'shards', 1), int) else 1):
    if os.environ.get('SHARD') and int(os.environ['SHARD']) != sh:
        continue
    u = U()
    u.shard = sh
    for mode in u.modes:
        t = time.time()
        r = run_unit_symbolic(u, mode)
        st = {}
        for o in r.obligations:
            st[o.status] = st.get(o.status, 0) + 1
        print(u.name, 'shard', sh, mode, 'paths', r.paths, 'nonvac', r.nonvacuous, 'oblig', st, 'unsup', r.unsupported[:3], '%.2fs' % (time.time() - t), 'q', r.queries)
        seen = set()
        for o in r.obligations:
            if o.status != 'discharged' and o.name not in seen:
                seen.add(o.name)
                print('   ', o.status, o.name, '|', o.detail[:200])
                print('        goal:', (o.goal or '')[:300].replace('\n', ' '))
                if o.model is not None:
                    print('        values:', str(getattr(o.model, 'values', ''))[:300])
