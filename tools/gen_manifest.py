"""regenerate /verif/MANIFEST.json from contracts/registry.py (claimed properties) and properties.jsonl"""
import json, sys
sys.path.insert(0, '/verif')
from contracts import registry

props = [json.loads(l) for l in open('/verif/properties.jsonl')]
checks = []
na = []
for p in props:
    pid = p['id']
    info = registry.PROPS.get(pid)
    if info is None or info.get('unclaimed'):
        na.append(dict(property_id=pid, reason=(info or {}).get('na_reason', "check not built yet (work in progress, DESIGN.md section 9)")))
        continue
    checks.append(dict(
        property_id=pid,
        quick_cmd="python3-vt -m pyvc.check %s --tier quick" % pid,
        thorough_cmd="python3-vt -m pyvc.check %s --tier thorough" % pid,
        evidence_file="/verif/evidence/%s.json" % pid,
        replay_cmd_template="PYTHONPATH=/verif/.deps:/verif:/repo/modules /venv/bin/python -m pyvc.replay {path}",
        engine="pyvc",
        level_claimed=dict(category=info.get('level', 'proof'), text=info.get('level_text', ''), design_ref=info.get('design_ref', 'DESIGN.md section 6/' + pid)),
        level_note=info.get('level_note', ''),
        technique=info.get('technique', "contract-based deductive verification: own AST->z3 VC generator over the real source, callee contracts, loop invariants; native replay of counterexamples"),
    ))
m = dict(
    version=1,
    setup_cmd="mkdir -p /verif/.deps && ln -sfn /opt/veriftools/pyvenv/lib/python3.11/site-packages/z3 /verif/.deps/z3 && python3-vt -c \"import sys; sys.path.insert(0,'/verif'); import pyvc.check, contracts.registry\"",
    hooks=dict(guard="OPENPOWER_PEL_PARSERS_VERIF", enable="no source hooks: contracts are sidecar files under /verif/contracts; nothing in /repo is instrumented",
               baseline_off_cmd="cd /repo && /venv/bin/python -m pytest -ra -q -p no:cacheprovider --timeout=900 --continue-on-collection-errors",
               source_commits=[], add_only=True),
    engines=[dict(name="pyvc", path="/verif/pyvc", serves_properties=[c['property_id'] for c in checks],
                  kind_free_text="verification-condition generator: symbolic execution of the real Python AST function by function against sidecar contracts, z3 5.1 (cvc5 on unknown); bounded companions run the same contracts natively")],
    checks=checks,
    notes="Repository fixes (fix: commits) and known findings are listed in /verif/known_findings.json; seeded property-breaking changes in /verif/seeded/.",
    not_applicable=na,
)
json.dump(m, open('/verif/MANIFEST.json', 'w'), indent=1)
print("claimed:", [c['property_id'] for c in checks], "not yet:", [n['property_id'] for n in na])
