#!/bin/bash
# tools/mut_unit.sh <file under modules/> <python-regex-substitution 'old=>new'> <contracts module> <Unit>: scratch copy with one textual edit, run one unit
F=$1; SUB=$2; MOD=$3; shift 3
S=$(mktemp -d /tmp/pyvc_mu_XXXX)
cp -r /repo/modules $S/modules
python3 - "$S/modules/$F" "$SUB" <<'PY' || { rm -rf $S; exit 9; }
import sys
p, sub = sys.argv[1], sys.argv[2]
old, new = sub.split('=>', 1)
s = open(p).read()
if old not in s:
    print("EDIT-FAIL: text not found"); sys.exit(1)
open(p, 'w').write(s.replace(old, new, 1))
PY
cd /verif && PYVC_REPO=$S timeout 600 python3-vt tools/run_units.py $MOD "$@"
rm -rf $S
