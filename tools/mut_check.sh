#!/bin/bash
# tools/mut_check.sh <file under modules/> 'old=>new' <prop> [props]: scratch copy with one textual edit, run the quick checks
F=$1; SUB=$2; shift 2
S=$(mktemp -d /tmp/pyvc_mc_XXXX)
cp -r /repo/modules $S/modules
python3 - "$S/modules/$F" "$SUB" <<'PY' || { rm -rf $S; exit 9; }
import sys
p, sub = sys.argv[1], sys.argv[2]
old, new = sub.split('=>', 1)
s = open(p).read()
if old not in s:
    print("EDIT-FAIL: text not found"); sys.exit(1)
open(p, 'w').write(s.replace(old, new, 1))
PY
cd /verif
for prop in "$@"; do
  PYVC_REPO=$S PYVC_OUT=$S/out PYVC_BUDGET_S=300 PYVC_BOUNDED_SECS=30 timeout 1500 python3-vt -m pyvc.check $prop 2>&1 | grep -E "VIOLATION|UNDECIDED|UNKNOWN|CHECKER|CRASH|exit=" | cut -c1-300 | head -6
  echo "$prop exit=${PIPESTATUS[0]}"
done
rm -rf $S
