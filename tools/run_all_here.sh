#!/bin/bash
# run every claimed quick check from the current directory (a snapshot of /verif), writing evidence/replays under ./scratch_out
rc=0
for p in $(python3 -c "import json;print(' '.join(c['property_id'] for c in json.load(open('MANIFEST.json'))['checks']))"); do
  out=$(PYVC_OUT=$PWD/scratch_out timeout 2400 python3-vt -m pyvc.check $p --tier ${1:-quick} 2>&1); r=$?
  echo "$out" | grep -E "VIOLATION|KNOWN|UNDECIDED|UNKNOWN|CHECKER|CRASH|exit=" | cut -c1-220
  [ $r -ne 0 ] && rc=1
done
echo "ALL-DONE rc=$rc"
exit $rc
