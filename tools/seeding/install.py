import json, os, shutil, sys
for mid in sys.argv[1:]:
    src = '/tmp/mut8/out/' + mid
    dst = '/verif/seeded/' + mid
    os.makedirs(dst, exist_ok=True)
    shutil.copy(src + '/patch.diff', dst + '/patch.diff')
    shutil.copy(src + '/demo.py', dst + '/demo.py')
    if os.path.exists('/tmp/mut8/out/pelbuild.py'):
        pass
    n = json.load(open(src + '/notes.json'))
    meta = dict(property=n['property'], breaks=n['summary'], needs=n['needs'], round=8,
                origin="independent sub-agent given only the property text and a scratch worktree (round 8: lenses - Python-specific traps, iteration and ordering, control flow around I/O, arithmetic on bit fields)",
                confirmed_by_me=dict(base_commit="8dd5669 (repo HEAD with the fix: commits)", demo_passes_without_patch=True,
                                     test_suite_passes_with_patch=True, demo_fails_with_patch=True,
                                     how="git apply in a scratch worktree under /tmp; PYTHONPATH=<wt>/modules /venv/bin/python -m pytest -q; demo.py with and without the patch"),
                agent_ran=n.get('ran', []))
    json.dump(meta, open(dst + '/meta.json', 'w'), indent=1)
    print('installed', mid)
