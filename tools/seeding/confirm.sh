#!/bin/bash
# confirm.sh <ID>: verify a seeded change in its scratch worktree
ID=$1; P=${ID%%_*}; WT=/tmp/mut8/wt_$P; O=/tmp/mut8/out/$ID
cd $WT && git checkout -q -- . && git clean -fdq
PYTHONPATH=$WT/modules timeout 300 /venv/bin/python $O/demo.py >/dev/null 2>&1; a=$?
git apply $O/patch.diff || { echo "$ID APPLY-FAIL"; exit 1; }
t=$(PYTHONPATH=$WT/modules timeout 600 /venv/bin/python -m pytest -q -p no:cacheprovider --timeout=900 2>&1 | tail -1)
PYTHONPATH=$WT/modules timeout 300 /venv/bin/python $O/demo.py >/dev/null 2>&1; b=$?
git checkout -q -- . && git clean -fdq
find $WT -name __pycache__ -prune -exec rm -rf {} + 2>/dev/null
echo "$ID demo_without=$a demo_with=$b tests: $t"
