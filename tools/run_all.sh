#!/bin/bash
# run every claimed quick check on the current tree, then validate manifest + evidence
cd /verif
python3-vt tools/gen_manifest.py >/dev/null
rc=0
for p in $(python3 -c "import json;print(' '.join(c['property_id'] for c in json.load(open('MANIFEST.json'))['checks']))"); do
  out=$(timeout 1500 python3-vt -m pyvc.check $p --tier ${1:-quick} 2>&1); r=$?
  echo "$out" | grep -E "VIOLATION|KNOWN|UNDECIDED|UNKNOWN|CHECKER|CRASH|exit=" | cut -c1-220
  [ $r -ne 0 ] && rc=1
done
python3-vt - <<'PY'
import json,jsonschema,glob
jsonschema.validate(json.load(open('/verif/MANIFEST.json')),json.load(open('/root/.vp/MANIFEST.schema.json')))
sch=json.load(open('/root/.vp/EVIDENCE.schema.json'))
m=json.load(open('/verif/MANIFEST.json'))
for c in m['checks']:
    e=json.load(open(c['evidence_file'])); jsonschema.validate(e,sch)
    cov=e['coverage']
    assert e['level']!='proof' or cov['obligations']==cov['discharged'], (c['property_id'],cov['obligations'],cov['discharged'])
print("manifest+evidence valid for", len(m['checks']), "checks")
PY
exit $rc
