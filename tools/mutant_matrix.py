"""run the quick checks against every seeded change on a scratch copy of the repository (never /repo itself)
   python3 tools/mutant_matrix.py [ids...]   -> /verif/seeded/results.json"""
import json, os, shutil, subprocess, sys, tempfile, time

VERIF = '/verif'
ALL = ['C%02d' % i for i in range(1, 21)]
ids = sys.argv[1:] or sorted(d for d in os.listdir(VERIF + '/seeded') if os.path.exists(VERIF + '/seeded/' + d + '/meta.json'))
out_path = os.environ.get('MATRIX_OUT', VERIF + '/seeded/results.json')
results = json.load(open(out_path)) if os.path.exists(out_path) else {}


def run_check(prop, repo):
    env = dict(os.environ, PYVC_REPO=repo, PYVC_OUT=repo + '/out', PYVC_BUDGET_S='200', PYVC_BOUNDED_SECS='30')
    t = time.time()
    r = subprocess.run(['python3-vt', '-m', 'pyvc.check', prop], cwd=VERIF, env=env, capture_output=True, text=True, timeout=3000)
    lines = [l for l in r.stdout.splitlines() if l.startswith(('VIOLATION', 'UNDECIDED', 'UNKNOWN', 'CHECKER', 'KNOWN'))]
    return dict(exit=r.returncode, secs=round(time.time() - t, 1), lines=[l[:300] for l in lines[:6]])


for mid in ids:
    d = VERIF + '/seeded/' + mid
    own = json.load(open(d + '/meta.json'))['property']
    scratch = tempfile.mkdtemp(prefix='pyvc_mut_')
    try:
        shutil.copytree('/repo/modules', scratch + '/modules', ignore=shutil.ignore_patterns('__pycache__', '*.egg-info'))
        p = subprocess.run(['patch', '-p1', '-s', '-i', d + '/patch.diff'], cwd=scratch, capture_output=True, text=True)
        if p.returncode != 0:
            results[mid] = dict(error='patch failed: ' + p.stdout[-200:])
            continue
        res = {own: run_check(own, scratch)}
        if res[own]['exit'] != 1:
            for prop in ALL:
                if prop != own:
                    res[prop] = run_check(prop, scratch)
                    if res[prop]['exit'] == 1:
                        break
        caught = [k for k, v in res.items() if v['exit'] == 1]
        results[mid] = dict(own=own, caught_by=caught, checks=res)
        print(mid, 'own', own, res[own]['exit'], 'caught_by', caught, flush=True)
    finally:
        shutil.rmtree(scratch, ignore_errors=True)
    json.dump(results, open(out_path, 'w'), indent=1)
