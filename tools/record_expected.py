"""record the obligation counts of the current (clean) evidence as the baseline for the vacuity guard"""
import json, glob, os
exp = {}
for f in glob.glob('/verif/evidence/C*.json'):
    e = json.load(open(f))
    if e.get('violations', 0) == 0 and e['tier'] == 'quick':
        exp[e['property_id']] = e['coverage']['obligations']
json.dump(exp, open('/verif/contracts/expected.json', 'w'), indent=1, sort_keys=True)
print(exp)
